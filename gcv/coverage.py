"""Trace coverage analysis (C14 / C15 / C16): for a `Collect::trace` body, which values flow into the
tracer, through which accessors, under which guards; and the NEEDS_TRACE constant as a boolean
function of its parameters' constants. Pure MIR dataflow + CFG reasoning, nothing is executed."""
import re

from gcv import cfg, interp
from gcv.interp import Interp, State
from gcv.model import norm

TRACE_FNS = {
    "collect::Trace::trace": "generic",       # Trace::trace::<C>(cc, &value): NEEDS_TRACE-guarded Collect::trace
    "collect::Collect::trace": "direct",      # <C as Collect>::trace(&value, cc)
    "collect::Trace::trace_gc": "strong",
    "collect::Trace::trace_gc_weak": "weak",
    "collect::DynCollect::dyn_trace": "dyn",
}

# total accessors: functions that expose *every* contained value of their receiver (reviewed, by def path)
TOTAL_ACCESSORS = {
    "core::iter::traits::collect::IntoIterator::into_iter", "core::iter::traits::iterator::Iterator::next",
    "core::slice::<impl [T]>::iter", "core::slice::iter::<impl core::iter::traits::collect::IntoIterator for &[T]>::into_iter",
    "core::ops::deref::Deref::deref", "core::option::Option::as_ref", "core::convert::AsRef::as_ref",
    "core::cell::once::OnceCell::get", "core::cell::RefCell::borrow", "core::cell::Cell::get",
    "core::borrow::Borrow::borrow", "core::iter::traits::iterator::Iterator::rev", "core::iter::traits::iterator::Iterator::enumerate",
    "core::iter::traits::iterator::Iterator::by_ref", "core::iter::traits::iterator::Iterator::copied",
    "core::iter::traits::iterator::Iterator::cloned", "core::iter::traits::iterator::Iterator::chain",
    "core::iter::traits::iterator::Iterator::for_each", "core::option::Option::iter", "core::result::Result::iter",
    "alloc::vec::Vec::iter", "alloc::vec::Vec::as_slice", "core::array::<impl [T; N]>::as_slice", "core::array::<impl [T; N]>::iter",
    "core::array::<impl [T; N]>::each_ref", "alloc::collections::vec_deque::VecDeque::iter",
    "alloc::collections::linked_list::LinkedList::iter", "alloc::collections::btree::map::BTreeMap::iter",
    "alloc::collections::btree::map::BTreeMap::values", "alloc::collections::btree::map::BTreeMap::keys",
    "alloc::collections::btree::set::BTreeSet::iter", "alloc::collections::binary_heap::BinaryHeap::iter",
    "alloc::collections::binary_heap::BinaryHeap::as_slice",
    "std::collections::hash::map::HashMap::iter", "std::collections::hash::set::HashSet::iter",
    "lock::Lock::get", "lock::RefLock::borrow", "lock::OnceLock::get", "gc::Gc::erase", "gc_weak::GcWeak::erase",
    "slotmap::basic::SlotMap::values", "slotmap::basic::SlotMap::iter", "enum_map::EnumMap::values", "enum_map::EnumMap::iter",
    "enum_map::iter::<impl enum_map::EnumMap>::values", "enum_map::iter::<impl enum_map::EnumMap>::iter",
    "hashbrown::map::HashMap::iter", "hashbrown::set::HashSet::iter", "hashbrown::table::HashTable::iter",
    "indexmap::map::IndexMap::iter", "indexmap::set::IndexSet::iter", "smallvec::SmallVec::iter",
    "<&T as core::ops::deref::Deref>::deref", "<core::cell::Ref as core::ops::deref::Deref>::deref",
    "<alloc::boxed::Box as core::ops::deref::Deref>::deref", "<alloc::rc::Rc as core::ops::deref::Deref>::deref",
    "<alloc::sync::Arc as core::ops::deref::Deref>::deref", "<alloc::vec::Vec as core::ops::deref::Deref>::deref",
    "<smallvec::SmallVec as core::ops::deref::Deref>::deref",
}
# accessors that reach every contained value when they succeed, and whose failure does not mean "nothing there": a trace
# call may sit behind them only if the failing outcome does not return normally (it panics, as `borrow()` would)
FALLIBLE_ACCESSORS = {"lock::RefLock::try_borrow", "core::cell::RefCell::try_borrow"}
TOTAL_ACCESSORS |= FALLIBLE_ACCESSORS
# accessors that split their receiver into a tuple of parts: total only if every part is traced
SPLITTING_ACCESSORS = {"alloc::collections::vec_deque::VecDeque::as_slices": 2}
# known partial traversals (named for better diagnostics; anything not TOTAL is rejected anyway)
PARTIAL_HINT = ("skip", "take", "filter", "step_by", "first", "last", "get", "nth", "skip_while", "take_while", "find",
                "split_at", "split_first", "split_last", "peekable")


def canon(name):
    return name.replace("gc_arena::", "") if name else name


class Site:
    def __init__(self, bb, kind, ty_s, chain, root, line, raw, via=None, probs=()):
        self.bb, self.kind, self.ty_s, self.chain, self.root, self.line, self.raw = bb, kind, ty_s, chain, root, line, raw
        self.via = via          # local helper function through which the trace call is reached (None: direct)
        self.probs = list(probs)  # problems found inside that helper (partial loop, skipping condition ...)


def _defs(body):
    d = {}
    for bi, bb in enumerate(body["blocks"]):
        for s in bb["s"]:
            if s["k"] == "assign" and not s["p"]["p"]:
                d.setdefault(s["p"]["l"], []).append(("rv", s["r"], bi))
        t = bb["t"]
        if t and t["k"] == "call" and not t["d"]["p"]:
            d.setdefault(t["d"]["l"], []).append(("call", t, bi))
    return d


def chains_of(prog, body, defs, op, depth=0, seen=None):
    """Set of (root, tuple(accessor names), tuple(field projections)) describing where an operand's value
    comes from. root = local index of a parameter, 'const', or 'other'."""
    seen = seen or frozenset()
    if op.get("k") == "const":
        return {("const", (), ())}
    if op.get("k") not in ("copy", "move"):
        return {("other", (), ())}
    pl = op["p"]
    fields = tuple(tuple(p) for p in pl["p"] if p[0] in ("f", "v"))
    return {(r, a, f + fields) for (r, a, f) in _local_chains(prog, body, defs, pl["l"], depth, seen)}


def _local_chains(prog, body, defs, local, depth, seen):
    if local <= body["argc"] and local >= 1 and local not in defs:
        return {(local, (), ())}
    if depth > 24 or local in seen:
        return set()
    seen = seen | {local}
    out = set()
    ds = defs.get(local, [])
    if not ds:
        if 1 <= local <= body["argc"]:
            return {(local, (), ())}
        return {("other", (), ())}
    for kind, d, bi in ds:
        if kind == "rv":
            k = d["k"]
            if k in ("use", "cast"):
                out |= chains_of(prog, body, defs, d["o"], depth + 1, seen)
            elif k in ("ref", "rawptr"):
                out |= chains_of(prog, body, defs, {"k": "copy", "p": d["p"]}, depth + 1, seen)
            elif k == "agg" and d["ak"]["k"] == "tuple":
                for o in d["ops"]:
                    out |= chains_of(prog, body, defs, o, depth + 1, seen)
            elif k == "discr":
                out.add(("other", (), ()))
            else:
                out.add(("other", (), ()))
        else:
            t = d
            f = t["f"]
            if f.get("indirect"):
                out.add(("other", ("<indirect>",), ()))
                continue
            r = f.get("resolved")
            # trait methods are identified by the trait's method (IntoIterator::into_iter, Iterator::next,
            # Deref::deref ..): adapters show up as their own calls in the chain; inherent methods by def path
            if f.get("trait"):
                name = canon(norm(f["def"]))
            else:
                name = canon(norm(r["def"]) if r and r["ik"] == "Item" else norm(f["def"]))
            if not t["args"]:
                out.add(("other", (name,), ()))
                continue
            for (root, acc, fl) in chains_of(prog, body, defs, t["args"][0], depth + 1, seen):
                # the projection that follows a splitting accessor selects one of its parts: mark where it starts
                out.add((root, acc + (name,), fl + ((("split", name),) if name in SPLITTING_ACCESSORS else ())))
    if 1 <= local <= body["argc"]:
        out.add((local, (), ()))
    return out


def trace_sites(prog, body, root=1, depth=0):
    """Trace calls of a body, and - through crate-local helper functions that receive a value derived from
    parameter `root` - the trace calls of those helpers, re-expressed in the caller's terms (helper summaries)."""
    defs = _defs(body)
    sites = []
    for bi, bb in enumerate(body["blocks"]):
        t = bb["t"]
        if not t or t["k"] != "call" or t["f"].get("indirect"):
            continue
        dn = canon(norm(t["f"]["def"]))
        if dn in CLOSURE_CONSUMERS:
            sites += _closure_sites(prog, body, defs, bi, t, root, depth, dn)
            continue
        if dn not in TRACE_FNS:
            sites += _helper_sites(prog, body, defs, bi, t, root, depth)
            continue
        kind = TRACE_FNS[dn]
        gargs = t["f"].get("args", [])
        if kind == "generic":
            ty = gargs[-1] if gargs else {}
            val = t["args"][1]
        elif kind == "direct":
            ty = gargs[0] if gargs else {}
            val = t["args"][0]
        elif kind == "dyn":
            ty = gargs[0] if gargs else {}
            val = t["args"][0]
        else:
            ty = {}
            val = t["args"][1]
        ty_s = prog.ty_s(ty["ty"]) if "ty" in ty else None
        ch = chains_of(prog, body, defs, val)
        sites.append(Site(bi, kind, ty_s, ch, None, t["l"], t))
    return sites


# iterator consumers that call their closure on every element the iterator yields (total, like a `for` loop)
CLOSURE_CONSUMERS = {"core::iter::traits::iterator::Iterator::for_each": "core::iter::traits::iterator::Iterator::for_each"}


def _closure_of(body, defs, op, depth=0):
    if depth > 6 or op.get("k") not in ("copy", "move") or op["p"]["p"]:
        return None
    for kind, d, _bi in defs.get(op["p"]["l"], []):
        if kind == "rv" and d["k"] == "agg" and d["ak"]["k"] == "closure":
            return d["ak"]["def"]
        if kind == "rv" and d["k"] in ("use", "cast"):
            c = _closure_of(body, defs, d["o"], depth + 1)
            if c:
                return c
    return None


def _closure_sites(prog, body, defs, bi, t, root, depth, consumer):
    """`iter.for_each(|x| cc.trace(x))`: the closure's trace calls, with its element parameter standing for every
    element the (self-derived) iterator yields."""
    if depth > 3 or len(t["args"]) < 2:
        return []
    ch = chains_of(prog, body, defs, t["args"][0])
    if not any(rt == root for (rt, _, _) in ch):
        return []
    cdef = _closure_of(body, defs, t["args"][1])
    keys = prog.seed_n.get(norm(cdef)) if cdef else None
    if not keys:
        return [Site(bi, "generic", None, {("other", (consumer + "(<unknown closure>)",), ())}, None, t["l"], t)]
    cbody = prog.bodies[keys[0]]
    k = 2           # closure bodies: local 1 is the environment, local 2 the element
    csites = trace_sites(prog, cbody, root=k, depth=depth + 1)
    cprobs = loop_problems(prog, cbody, csites) + conditional_problems(prog, cbody, csites, root=k)
    out = []
    for cs in csites:
        comp = set()
        for (r0, acc0, fl0) in ch:
            for (r1, acc1, fl1) in cs.chain:
                if r1 == k:
                    comp.add((r0, acc0 + (consumer,) + acc1, fl0 + fl1))
                elif r1 == "const":
                    comp.add(("const", (), ()))
                else:
                    comp.add(("other", acc1, fl1))
        out.append(Site(bi, cs.kind, cs.ty_s, comp, None, t["l"], t, via=norm(cdef),
                        probs=["in the closure passed to for_each: %s" % p_ for p_ in (cprobs + cs.probs)]))
        cprobs = []
    return out


def _helper_sites(prog, body, defs, bi, t, root, depth):
    """A call to a crate-local function that is handed a value derived from `root`: its own trace calls (found by
    analysing the helper with that parameter as the root) count as trace calls of the caller. The helper must be
    total by the same rules (accessors, loops, conditions); whatever it skips is reported at the call."""
    f = t["f"]
    r = f.get("resolved")
    if depth > 3 or not f.get("local") or not r or r.get("ik") != "Item":
        return []
    name = norm(r["def"])
    keys = prog.seed_n.get(name)
    if not keys:
        return []
    hbody = prog.bodies[keys[0]]
    out = []
    for ai, a in enumerate(t["args"]):
        ch = chains_of(prog, body, defs, a)
        if not any(rt == root for (rt, _, _) in ch):
            continue
        k = ai + 1
        hsites = trace_sites(prog, hbody, root=k, depth=depth + 1)
        if not hsites:
            continue
        hprobs = loop_problems(prog, hbody, hsites) + conditional_problems(prog, hbody, hsites, root=k)
        subst = _generic_subst(prog, name, f)
        for hs in hsites:
            comp = set()
            for (r0, acc0, fl0) in ch:
                for (r1, acc1, fl1) in hs.chain:
                    if r1 == k:
                        comp.add((r0, acc0 + acc1, fl0 + fl1))
                    elif r1 == "const":
                        comp.add(("const", (), ()))
                    else:
                        comp.add(("other", acc1, fl1))
            ty_s = _subst_ty(hs.ty_s, subst) if hs.ty_s else None
            out.append(Site(bi, hs.kind, ty_s, comp, None, t["l"], t, via=name,
                            probs=["in helper `%s`: %s" % (name, p_) for p_ in (hprobs + hs.probs)]))
        hprobs = []
    return out


def _generic_subst(prog, name, f):
    """helper's generic parameter name -> the caller's type string, from the call's generic arguments."""
    recs = prog.fn_n.get(name) or []
    if not recs:
        return None
    gens = recs[0].get("generics") or []
    gargs = f.get("args", [])
    if len(gens) != len(gargs):
        return None
    m = {}
    for g, a in zip(gens, gargs):
        if g.get("kind") == "type" and "ty" in a:
            m[g["name"]] = prog.ty_s(a["ty"])
    return m


def _subst_ty(ty_s, subst):
    if subst is None:
        return None
    return re.sub(r"[A-Za-z_][A-Za-z0-9_]*", lambda m: subst.get(m.group(0), m.group(0)), ty_s)


def loop_problems(prog, body, sites):
    """Every iterator loop that feeds a trace call visits every element: the trace calls of the loop are
    on every path from the Some-branch back to `next`, and the loop is left only through the None-branch."""
    probs = []
    nexts = []
    for bi, bb in enumerate(body["blocks"]):
        t = bb["t"]
        if t and t["k"] == "call" and not t["f"].get("indirect") and norm(t["f"]["def"]) == "core::iter::traits::iterator::Iterator::next":
            nexts.append(bi)
    for nb in nexts:
        t = body["blocks"][nb]["t"]
        sw_b = t["t"]
        # find the switch on the discriminant of next()'s result
        sb = body["blocks"][sw_b]
        if not sb["t"] or sb["t"]["k"] != "switch":
            probs.append("iterator loop at line %s: result of next() is not matched directly" % t["l"])
            continue
        sw = sb["t"]
        none_t = None
        some_t = None
        for v, tg in zip(sw["vals"], sw["targets"]):
            if v == 0:
                none_t = tg
            if v == 1:
                some_t = tg
        if some_t is None:
            some_t = sw["otherwise"]
        if none_t is None:
            none_t = sw["otherwise"]
        region = cfg.reach_from(body, [some_t], unwind=False)
        mine = [s for s in sites if s.bb in region and any("core::iter::traits::iterator::Iterator::next" in a for (_, a, _) in s.chain)]
        if not mine:
            continue
        # (a) from the Some-branch every normal path comes back to next()
        seen = set()
        work = [some_t]
        escapes = False
        while work:
            b = work.pop()
            if b in seen or b == nb:
                continue
            seen.add(b)
            tt = body["blocks"][b]["t"]
            if tt["k"] == "return":
                escapes = True
            if tt["k"] == "call" and tt.get("t") is None:
                continue
            for n in cfg.normal_succs(body["blocks"][b]):
                work.append(n)
        if escapes:
            probs.append("iterator loop at line %s can be left after an element (break/return inside the loop): later "
                         "elements are not traced" % t["l"])
        # (b) every trace call of the loop lies on every Some-branch -> next() path
        for s in mine:
            if not _must_pass(body, some_t, nb, s.bb):
                probs.append("iterator loop at line %s: an element can be skipped without reaching the trace call at "
                             "line %s" % (t["l"], s.line))
    return probs


def _must_pass(body, start, target, via):
    if start == via:
        return True
    seen = {start}
    work = [start]
    while work:
        b = work.pop()
        if b == target:
            return False
        for n in cfg.normal_succs(body["blocks"][b]):
            if n == via or n in seen:
                continue
            seen.add(n)
            work.append(n)
    return True


def conditional_problems(prog, body, sites, root=1):
    probs = []
    defs = _defs(body)
    rets = set(cfg.return_blocks(body))
    nblocks = len(body["blocks"])

    def can_return_avoiding(start, avoid):
        seen = {start}
        work = [start]
        if start == avoid:
            return False
        while work:
            b = work.pop()
            if b in rets:
                return True
            for n in cfg.normal_succs(body["blocks"][b]):
                if n != avoid and n not in seen:
                    seen.add(n)
                    work.append(n)
        return False

    def can_reach(start, target):
        return target in cfg.reach_from(body, [start], unwind=False)
    for s in sites:
        B = s.bb
        if not can_return_avoiding(0, B):
            continue
        # deciding switches
        A = set()
        work = [0]
        while work:
            b = work.pop()
            if b in A or b == B:
                continue
            A.add(b)
            for n in cfg.normal_succs(body["blocks"][b]):
                work.append(n)
        for w in sorted(A):
            t = body["blocks"][w]["t"]
            if not t or t["k"] != "switch":
                continue
            succs = cfg.normal_succs(body["blocks"][w])
            avoid = [x for x in succs if can_return_avoiding(x, B)]
            hit = [x for x in succs if x == B or can_reach(x, B)]
            if not avoid or not hit or set(avoid) == set(hit) and len(set(succs)) == 1:
                continue
            if all(x in avoid for x in succs) and all(x in hit for x in succs):
                # both outcomes can reach and can avoid (loop head re-tests): decided elsewhere
                continue
            if not _allowed_condition(prog, body, defs, t["o"], root=root):
                probs.append("trace call at line %s is conditional on a test (line %s) that is neither a variant test of "
                             "a value derived from `self` nor a NEEDS_TRACE guard: the value can be skipped" % (s.line, t["l"]))
    return probs


def _allowed_condition(prog, body, defs, op, depth=0, root=1):
    if op.get("k") == "const":
        return "uneval" in op and op["uneval"]["s"].endswith("::NEEDS_TRACE")
    if op.get("k") not in ("copy", "move") or op["p"]["p"]:
        return False
    ok_any = False
    for kind, d, _ in defs.get(op["p"]["l"], []):
        if kind == "rv" and d["k"] == "discr":
            ch = chains_of(prog, body, defs, {"k": "copy", "p": d["p"]})
            roots = {r for (r, a, f) in ch}
            if any(x in FALLIBLE_ACCESSORS for (r, a, f) in ch for x in a):
                return False        # a failed borrow is not an empty container: skipping on it loses the value
            if roots and roots <= {root}:
                ok_any = True
            else:
                return False
        elif kind == "rv" and d["k"] == "use" and depth < 4:
            if _allowed_condition(prog, body, defs, d["o"], depth + 1, root=root):
                ok_any = True
            else:
                return False
        else:
            return False
    return ok_any


def guard_consts(prog, body):
    """Switches on `<X as Collect>::NEEDS_TRACE`: list of (block, X type string, true-target)."""
    out = []
    defs = _defs(body)
    for bi, bb in enumerate(body["blocks"]):
        t = bb["t"]
        if not t or t["k"] != "switch":
            continue
        op = t["o"]
        cands = []
        if op.get("k") == "const" and "uneval" in op:
            cands.append(op["uneval"])
        elif op.get("k") in ("copy", "move") and not op["p"]["p"]:
            for kind, d, _ in defs.get(op["p"]["l"], []):
                if kind == "rv" and d["k"] == "use" and d["o"].get("k") == "const" and "uneval" in d["o"]:
                    cands.append(d["o"]["uneval"])
        for u in cands:
            if u["s"].endswith("::NEEDS_TRACE"):
                m = re.match(r"^<(.*) as (?:gc_arena::)?collect::Collect(<.*>)?>::NEEDS_TRACE$", u["s"])
                x = m.group(1) if m else u["s"]
                true_t = t["otherwise"] if t["vals"] == [0] else None
                out.append((bi, x, true_t))
    return out


def collect_params(prog, im):
    """Type parameters of an impl carrying a Collect bound (their type ids and names)."""
    out = {}
    for p in im["predicates"]:
        if p["k"] == "trait" and canon(p["trait"]) == "collect::Collect":
            out[p["self_s"]] = p["self"]
    return out


def analyse_trace(prog, im, key):
    """Returns (problems, info) for one impl's trace body."""
    body = prog.bodies[key]
    probs = []
    sites = trace_sites(prog, body)
    self_s = im["self_s"]
    params = collect_params(prog, im)
    # 1. every traced value derives from self through total accessors only
    for s in sites:
        roots = {r for (r, a, f) in s.chain}
        if not roots or roots - {1}:
            bad = sorted(str(r) for r in roots - {1})
            if not (roots & {1}) or "other" in bad:
                probs.append("trace call at line %s: the traced value does not derive from `self` (sources: %s)" % (s.line, sorted(map(str, roots))))
        probs += s.probs
        for (r, acc, fl) in s.chain:
            for a in acc:
                if a in SPLITTING_ACCESSORS:
                    continue
                if a not in TOTAL_ACCESSORS:
                    hint = " (a partial traversal)" if a.split("::")[-1] in PARTIAL_HINT else " (not in the reviewed table of total accessors)"
                    probs.append("trace call at line %s reaches its value through `%s`%s" % (s.line, a, hint))
    # 1a. an accessor that splits its receiver into parts is total only if every part reaches a trace call
    for a, n in SPLITTING_ACCESSORS.items():
        parts = set()
        used = False
        for s in sites:
            for (r, acc, fl) in s.chain:
                if a in acc:
                    used = True
                    after = fl[fl.index(("split", a)) + 1:] if ("split", a) in fl else fl
                    idx = [p_[1] for p_ in after if p_[0] == "f"]
                    if idx:
                        parts.add(idx[0])
        if used and parts != set(range(n)):
            probs.append("`%s` yields %d parts, only part(s) %s are traced: the elements in the others are skipped" % (
                a, n, sorted(parts)))
    # 1b. a trace call may be conditional only on variant tests of self-derived values (enum arms, Option
    #     results of total accessors, iterator exhaustion) or on NEEDS_TRACE guards
    probs += conditional_problems(prog, body, sites)
    # 2. parameter coverage
    traced_types = {s.ty_s for s in sites if s.ty_s}
    for pname in params:
        if not any(_mentions(t, pname) for t in traced_types):
            probs.append("type parameter `%s` (Collect-bounded) is never traced" % pname)
    # 3. loops are total
    probs += loop_problems(prog, body, sites)
    # 4. early-outs only under an implied-false guard
    doms = cfg.dominators(body, unwind=False)
    for (gb, gx, true_t) in guard_consts(prog, body):
        if true_t is None:
            probs.append("NEEDS_TRACE guard with an unexpected shape")
            continue
        for s in sites:
            if true_t in doms[s.bb]:
                if gx != self_s and not (s.ty_s and s.ty_s == gx):
                    probs.append("trace of `%s` at line %s is skipped when `%s::NEEDS_TRACE` is false, which does not "
                                 "imply that it holds no pointers" % (s.ty_s, s.line, gx))
    return probs, {"sites": len(sites), "traced_types": sorted(t for t in traced_types if t),
                   "accessors": sorted({a for s in sites for (_, acc, _) in s.chain for a in acc})}


def _mentions(ty_s, pname):
    return re.search(r"(^|[^A-Za-z0-9_])%s($|[^A-Za-z0-9_])" % re.escape(pname), ty_s or "") is not None


# ------------------------------------------------------------------------------------------------ NEEDS_TRACE

def needs_trace_outcomes(prog, key):
    """Explore the NEEDS_TRACE const body with every `<P as Collect>::NEEDS_TRACE` a free boolean.
    Returns list of (assignment dict, result) or raises."""
    ip = Interp(prog, strict=True)
    ip.lenient_std = True
    outs = ip.run(key, [], State())
    res = []
    for o in outs:
        if o.kind != "return":
            continue
        asg = {}
        for p in o.path:
            if p[0] == "branch":
                name, val = p[1], p[2]
                asg[str(name)] = (val != 0) if val is not None else True
        v = o.value
        r = None
        if v[0] == "i":
            r = bool(v[1])
        elif v[0] == "sym":
            r = ("sym", v[1])
        res.append((asg, r))
    return res
