"""Contracts of the hand-modelled primitive layer (DESIGN.md §3.2): the typestate engine treats
`GcPtr::drop_in_place`, `GcPtr::trace_value` and `GcPtr::dealloc` as the events "value destructed", "value
traced", "block released". That is only right if each of them forwards, on every path, to its GcVtable slot and
the closure stored in the slot does the work for the allocated type. These rules decide that from the MIR:

  A  every normal return of the primitive is dominated by the indirect call through its own slot, or the slot
     is optional and the bypass is exactly the `None` case of that slot;
  B  an optional slot is `None` only under a `needs_drop::<X>()` / equivalent constant decision taken for the
     very type X the slot's closure works on (a decision taken for another type skips destructors that exist);
  C  the closure stored in the slot reaches the expected operation for the allocated type on every path."""
from gcv import cfg
from gcv.model import norm, _local_defs, _vtable_field_of_call

VT = "gc_ptr::GcVtable"
PRIMS = {
    "gc_ptr::GcPtr::drop_in_place": ("drop_value", ("core::ptr::drop_in_place", "core::ptr::mut_ptr::<impl *mut T>::drop_in_place"),
                                     "destructor", "a value whose destructor is skipped is never destructed"),
    "gc_ptr::GcPtr::trace_value": ("trace_value", ("collect::Collect::trace", "collect::Trace::trace"),
                                   "trace", "an object that is blackened without its value being traced loses its children"),
    "gc_ptr::GcPtr::dealloc": ("dealloc", ("alloc::alloc::dealloc",), "release", "a block that is never released leaks"),
}


def _slot_index(prog, name):
    a = prog.adts.get(VT)
    if not a:
        return None
    for i, f in enumerate(a["variants"][0]["fields"]):
        if f["name"] == name:
            return i
    return None


def _slot_is_optional(prog, idx):
    f = prog.adts[VT]["variants"][0]["fields"][idx]
    return f.get("ty_s", "").startswith("core::option::Option<")


def check(chk, prog, which=None, config="default"):
    slots, inits = prog.vtable_slots()
    n = 0
    for fn, (slot, ops, what, why) in PRIMS.items():
        if which and fn not in which:
            continue
        if not chk.anchor(fn, fn in prog.seed_n, "(config %s)" % config):
            continue
        idx = _slot_index(prog, slot)
        if not chk.anchor("%s.%s" % (VT, slot), idx is not None, "(config %s)" % config):
            continue
        n += 1
        b = prog.bodies[prog.seed_n[fn][0]]
        calls = [i for i, bb in enumerate(b["blocks"]) if bb["t"] and bb["t"]["k"] == "call" and bb["t"]["f"].get("indirect")
                 and _vtable_field_of_call(prog, b, bb["t"]) == idx]
        dom = cfg.dominators(b, unwind=False)
        rets = [r for r in cfg.return_blocks(b) if not b["blocks"][r].get("c")]
        bypass = [r for r in rets if not any(c in dom[r] for c in calls)]
        ok = bool(calls) and not bypass
        detail = ""
        if not calls:
            detail = "`%s` never calls the vtable's `%s` slot" % (fn, slot)
        elif bypass:
            if _slot_is_optional(prog, idx):
                okb, detail = _optional_slot_justified(prog, idx, slots)
                ok = okb
                detail = ("`%s` skips the %s call when the `%s` slot is None; " % (fn, what, slot)) + detail
            else:
                detail = "`%s` can return without calling the vtable's `%s` slot (%s)" % (fn, slot, why)
        chk.inst("primitive-forwards-to-slot", "%s[%s]" % (fn, config), ok, detail=detail,
                 sample={"primitive": fn, "slot": slot, "slot_calls": len(calls), "returns": len(rets)})
        # C: the stored closure performs the operation on every path
        clo = slots.get(idx)
        if not chk.anchor("closure stored in %s.%s" % (VT, slot), clo is not None, "(config %s)" % config):
            continue
        reached = _must_reach(prog, clo, ops)
        chk.inst("slot-closure-does-the-work", "%s.%s[%s]" % (VT, slot, config), reached,
                 detail="the closure stored in the `%s` slot (%s) does not reach %s on every path: %s" % (slot, clo, ops[0], why),
                 sample={"slot": slot, "closure": clo, "operation": ops[0]})
    chk.floor("primitive-contracts[%s]" % config, n, 1 if which else 2)


def _must_reach(prog, fn, ops, depth=0):
    """every normal return of `fn` is dominated by a call that is (or, through local callees, must reach) one of ops."""
    keys = prog.seed_n.get(fn)
    if not keys or depth > 6:
        return False
    b = prog.bodies[keys[0]]
    good = []
    for i, bb in enumerate(b["blocks"]):
        t = bb["t"]
        if not t or t["k"] != "call" or t["f"].get("indirect"):
            continue
        n = norm((t["f"].get("resolved") or t["f"])["def"])
        n0 = norm(t["f"]["def"])
        if n in ops or n0 in ops:
            good.append(i)
        elif n in prog.seed_n and n != fn and _must_reach(prog, n, ops, depth + 1):
            good.append(i)
    dom = cfg.dominators(b, unwind=False)
    rets = [r for r in cfg.return_blocks(b) if not b["blocks"][r].get("c")]
    return bool(good) and all(any(g in dom[r] for g in good) for r in rets)


def _optional_slot_justified(prog, idx, slots):
    """The initialiser stores None in the slot only under a constant decision `needs_drop::<X>()` with X the type
    the slot's closure destructs."""
    init = None
    for d, key in prog.seed.items():
        b = prog.bodies[key]
        if any(s["k"] == "assign" and s["r"]["k"] == "agg" and s["r"]["ak"].get("def") == VT for bb in b["blocks"] for s in bb["s"]):
            init = b
    if init is None:
        return False, "no initialiser of GcVtable found"
    # the constant(s) the initialiser branches on
    decided_for = set()
    for bb in init["blocks"]:
        t = bb["t"]
        if t and t["k"] == "switch":
            decided_for |= _needs_drop_types(prog, init, t.get("o"))
    clo = slots.get(idx)
    works_on = set()
    if clo and clo in prog.seed_n:
        cb = prog.bodies[prog.seed_n[clo][0]]
        for bb in cb["blocks"]:
            t = bb["t"]
            if t and t["k"] == "call" and not t["f"].get("indirect") and norm(t["f"]["def"]).startswith("core::ptr::drop_in_place"):
                for a in t["f"].get("args", []):
                    if "ty" in a:
                        works_on.add(prog.ty(a["ty"])["s"])
    if not decided_for:
        return False, "the initialiser leaves the slot empty under a condition that is not a needs_drop decision"
    if decided_for != works_on:
        return False, ("the slot is left empty according to needs_drop::<%s>() but its closure destructs `%s`: values of "
                       "that type that do have a destructor are skipped (never destructed)" % (
                           ", ".join(sorted(decided_for)), ", ".join(sorted(works_on)) or "?"))
    return True, "None exactly when needs_drop::<%s>() is false (accepted)" % ", ".join(sorted(decided_for))


def _needs_drop_types(prog, body, op, depth=0):
    """Types X such that the switch operand derives from a constant defined as needs_drop::<X>()."""
    out = set()
    if op is None or depth > 6:
        return out
    if op.get("k") == "const" and "uneval" in op:
        k = op["uneval"]["def"]
        for key, b in prog.bodies.items():
            if b.get("def") == k or norm(b.get("def", "")) == norm(k):
                for bb in b["blocks"]:
                    t = bb["t"]
                    if t and t["k"] == "call" and not t["f"].get("indirect") and norm(t["f"]["def"]).endswith("mem::needs_drop"):
                        for a in t["f"].get("args", []):
                            if "ty" in a:
                                out.add(prog.ty(a["ty"])["s"])
                break
        return out
    if op.get("k") in ("copy", "move") and not op["p"]["p"]:
        for kind, d in _local_defs(body).get(op["p"]["l"], []):
            if kind == "rv" and d["k"] in ("use", "cast", "unop"):
                out |= _needs_drop_types(prog, body, d.get("o"), depth + 1)
            if kind == "call" and norm(d["f"]["def"]).endswith("mem::needs_drop"):
                for a in d["f"].get("args", []):
                    if "ty" in a:
                        out.add(prog.ty(a["ty"])["s"])
    return out
