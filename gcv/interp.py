"""E2: abstract interpreter over the MIR dump (finite typestate domain, DESIGN.md §3).

Explicit-stack machine over immutable tuple values. Nondeterminism (unknown branch conditions,
opaque user code that may return or unwind, ordering-domain comparisons) forks the state; every
fork-free run ends in an *outcome* (normal return / unwinding out of the root frame / abort).
No gc-arena code is executed: the machine runs on abstract values only (object ids with a colour /
live / needs-trace record, enum variants, references to abstract places, opaque symbols)."""
import os
import sys
import collections

from gcv.model import norm

TOP = ("top",)
UNIT = ("adt", "()", 0, ())
UNINIT = ("uninit",)


def I(n):
    return ("i", int(n))


def adt(defp, variant, fields=()):
    return ("adt", defp, variant, tuple(fields))


def ref(alloc, path=()):
    return ("ref", alloc, tuple(path))


def is_int(v):
    return isinstance(v, tuple) and v and v[0] == "i"


def is_concrete(v):
    return isinstance(v, tuple) and v and v[0] in ("i", "adt", "ref", "obj", "f", "vec", "fn")


class Unmodelled(Exception):
    pass


class InterpError(Exception):
    pass


class Frame:
    __slots__ = ("key", "body", "bb", "si", "base", "dest", "ret_bb", "unwind", "kind", "extra", "unwinding")

    def __init__(self, key, body, base, dest=None, ret_bb=None, unwind=None, kind="fn", extra=None):
        self.key = key
        self.body = body
        self.bb = 0
        self.si = 0
        self.base = base
        self.dest = dest
        self.ret_bb = ret_bb
        self.unwind = unwind
        self.kind = kind
        self.extra = extra
        self.unwinding = False

    def copy(self):
        f = Frame(self.key, self.body, self.base, self.dest, self.ret_bb, self.unwind, self.kind,
                  list(self.extra) if isinstance(self.extra, list) else self.extra)
        f.bb = self.bb
        f.si = self.si
        f.unwinding = self.unwinding
        return f


class State:
    def __init__(self):
        self.mem = {}
        self.frames = []
        self.objs = {}
        self.ev = []
        self.path = []
        self.cons = {}  # ordering-domain constraints: (x, y) -> frozenset of '<','=','>'
        self.steps = 0
        self.g = {}
        self.nalloc = 0

    def fork(self):
        s = State()
        s.mem = dict(self.mem)
        s.frames = [f.copy() for f in self.frames]
        s.objs = {k: dict(v) for k, v in self.objs.items()}
        s.ev = list(self.ev)
        s.path = list(self.path)
        s.cons = dict(self.cons)
        s.steps = self.steps
        s.g = dict(self.g)
        s.nalloc = self.nalloc
        return s

    def event(self, *e):
        self.ev.append(tuple(e))

    def new_alloc(self, tag, value):
        self.nalloc += 1
        a = (tag, self.nalloc)
        self.mem[a] = value
        return a

    def key(self):
        """Hashable canonical form (for loop detection)."""
        fr = tuple((f.key, f.bb, f.si, f.base, f.unwinding, f.kind, _freeze(f.extra)) for f in self.frames)
        mem = frozenset(self.mem.items())
        objs = frozenset((k, frozenset(v.items())) for k, v in self.objs.items())
        g = frozenset((k, v) for k, v in self.g.items() if not k.startswith("_"))
        return (fr, mem, objs, g, frozenset(self.cons.items()))


class Outcome:
    def __init__(self, kind, value, st):
        self.kind = kind  # 'return' | 'unwind' | 'abort' | 'diverge'
        self.value = value
        self.st = st
        self.ev = st.ev
        self.path = st.path

    def __repr__(self):
        return "<%s %r ev=%r>" % (self.kind, self.value, self.ev)


PANIC_PREFIXES = (
    "core::panicking::", "std::panicking::", "core::option::expect_failed", "core::option::unwrap_failed",
    "core::result::unwrap_failed", "std::rt::begin_panic", "core::panicking::assert_failed",
    "alloc::alloc::handle_alloc_error", "core::slice::index::slice_", "core::str::slice_error_fail",
    "core::cell::panic_already", "alloc::raw_vec::capacity_overflow",
)


class Interp:
    def __init__(self, prog, prims=None, opaque_call=None, max_steps=20000, strict=True):
        self.prog = prog
        self.prims = dict(BASE_PRIMS)
        if prims:
            self.prims.update(prims)
        self.opaque_call = opaque_call
        self.max_steps = max_steps
        self.strict = strict
        self.const_mem = {}
        self._prom = {}
        self.unmodelled = collections.Counter()
        self.loop_cut = True
        self.lenient_std = False
        self.header_read = None       # (ip, st, oid, path) -> value: a model's view of raw reads of an object header
        self.header_write = None      # (ip, st, oid, path, value)
        self.opaque_crates = {"tracing", "tracing_core"}
        import os
        self.trace = bool(os.environ.get("GCV_TRACE"))

    # ------------------------------------------------------------------ ADT helpers
    def adt_info(self, defp):
        return self.prog.all_adts.get(defp)

    def variant_of_discr(self, defp, d):
        a = self.adt_info(defp)
        if not a:
            return d
        for v in a["variants"]:
            if v.get("discr", v["idx"]) == d:
                return v["idx"]
        return None

    def discr_of_variant(self, defp, vi):
        a = self.adt_info(defp)
        if not a or a["kind"] != "enum":
            return vi
        return a["variants"][vi].get("discr", vi)

    def nfields(self, defp, vi):
        a = self.adt_info(defp)
        if not a:
            return 0
        return len(a["variants"][vi]["fields"])

    def field_index(self, defp, name, variant=0):
        a = self.adt_info(defp)
        for i, f in enumerate(a["variants"][variant]["fields"]):
            if f["name"] == name:
                return i
        raise KeyError("%s.%s" % (defp, name))

    def variant_index(self, defp, name):
        a = self.adt_info(defp)
        for v in a["variants"]:
            if v["name"] == name:
                return v["idx"]
        raise KeyError("%s::%s" % (defp, name))

    def enum(self, defp, name, fields=()):
        return adt(defp, self.variant_index(defp, name), fields)

    # ------------------------------------------------------------------ memory
    def read(self, st, alloc, path):
        if alloc in st.mem:
            v = st.mem[alloc]
        elif alloc in self.const_mem:
            v = self.const_mem[alloc]
        elif alloc[0] == "H":
            if self.header_read is not None:
                return self.header_read(self, st, alloc[1], tuple(path))
            v = ("hdrval", alloc[1])
        elif alloc[0] == "T":
            v = ("app", "deref", (alloc[1],))
        else:
            raise InterpError("read of unknown allocation %r" % (alloc,))
        for step in path:
            v = self.project(v, step)
        return v

    def project(self, v, step):
        k = v[0]
        if k == "adt":
            try:
                return v[3][step]
            except IndexError:
                raise InterpError("field %r out of range in %r" % (step, v))
        if k == "vec":
            return v[1][step]
        if k == "top":
            return TOP
        if k in ("sym", "app"):
            # keep uninterpreted terms through projections (sibling term agreement, C04/C17)
            return ("app", ".%s" % step, (v,))
        if k in ("ref", "obj", "addr"):
            # transparent pointer newtypes (Box/Unique/NonNull/GcPtr/Cell<*const _>): projecting yields the pointer itself
            return v
        if k == "uninit":
            return UNINIT
        if k == "hdrval":
            return TOP
        raise InterpError("cannot project %r from %r" % (step, v))

    def write(self, st, alloc, path, val, hint=None):
        if alloc not in st.mem:
            if alloc in self.const_mem:
                raise InterpError("write to constant memory")
            if alloc[0] == "H":
                if self.header_write is not None:
                    self.header_write(self, st, alloc[1], tuple(path), val)
                    return
                raise InterpError("raw write into a GcHeader (only accessors are modelled)")
            if alloc[0] == "T":
                st.event("write_term", alloc[1], path, val)
                return
            st.mem[alloc] = UNINIT
        st.mem[alloc] = self._write(st.mem[alloc], path, val, hint)

    def _write(self, cur, path, val, hint):
        if not path:
            return val
        step = path[0]
        k = cur[0]
        if k == "adt":
            fields = list(cur[3])
            while len(fields) <= step:
                fields.append(UNINIT)
            fields[step] = self._write(fields[step], path[1:], val, None)
            return ("adt", cur[1], cur[2], tuple(fields))
        if k == "vec":
            items = list(cur[1])
            items[step] = self._write(items[step], path[1:], val, None)
            return ("vec", tuple(items))
        if k in ("uninit", "top"):
            fields = [UNINIT if k == "uninit" else TOP] * (step + 1)
            fields[step] = self._write(fields[step], path[1:], val, None)
            return ("adt", "?", 0, tuple(fields))
        if k in ("ref", "obj"):
            return cur
        if k in ("addr", "sym", "app", "i", "f"):
            # scalar stored in a transparent wrapper (Cell<usize> modelled as the usize itself)
            return self._write(val, path[1:], val, None) if False else val
        raise InterpError("cannot write through %r" % (cur,))

    def frame_alloc(self, fr, local):
        return ("L", fr.base, local)

    def _static_step(self, tid, pr):
        """Static type after one projection step (None when unknown)."""
        if tid is None:
            return None
        ty = self.prog.types[tid]
        k = ty.get("k")
        if pr[0] == "d":
            if k in ("ref", "ptr"):
                return ty["ty"]
            if k == "adt" and ty["def"].endswith("boxed::Box") and ty.get("args"):
                return ty["args"][0].get("ty")
            return None
        if pr[0] == "f":
            if k == "adt":
                a = self.prog.all_adts.get(ty["def"])
                if not a or a["kind"] != "struct":
                    return None
                try:
                    return a["variants"][0]["fields"][pr[1]].get("ty")
                except IndexError:
                    return None
            if k == "tuple":
                return ty["elems"][pr[1]]
            return None
        if pr[0] in ("o",):
            return tid
        return None

    def resolve_place(self, st, fr, pl):
        alloc = self.frame_alloc(fr, pl["l"])
        path = ()
        tid = fr.body["locals"][pl["l"]] if pl["p"] else None
        for pr in pl["p"]:
            k = pr[0]
            if k == "f" and tid is not None:
                # pointer-transmuted repr(transparent) wrappers (&Context viewed as &Mutation): the
                # wrapper's field projection is the identity on the underlying value
                ty = self.prog.types[tid]
                if ty.get("k") == "adt":
                    a = self.prog.all_adts.get(ty["def"])
                    if a and a.get("repr_transparent") and alloc[0] != "V":
                        try:
                            cur = self.read(st, alloc, path)
                        except InterpError:
                            cur = None
                        if cur is not None and cur[0] == "adt" and cur[1] != ty["def"] and cur[1] != "?":
                            tid = self._static_step(tid, pr)
                            continue
                        if cur is not None and cur[0] in ("sym", "app", "i", "f", "addr"):
                            # scalar modelled without its transparent wrapper (Cell<usize> as the usize itself)
                            tid = self._static_step(tid, pr)
                            continue
            tid = self._static_step(tid, pr)
            if k == "d":
                v = self.read(st, alloc, path)
                if v[0] == "ref":
                    alloc, path = v[1], v[2]
                elif v[0] == "obj":
                    alloc, path = ("V", v[1]), ()
                elif v[0] in ("sym", "app", "addr"):
                    # symbolic pointer: a term place (reads give deref terms, `&*p` gives p back)
                    alloc, path = ("T", v), ()
                elif v[0] == "valref":
                    # reference into the (opaque) value of a known object: reads are unknown, the owner is kept
                    alloc, path = ("V", v[1]), ()
                elif v[0] == "top":
                    # pointer to opaque data (string constants, user values): reads are unknown
                    alloc, path = ("V", "?"), ()
                else:
                    raise InterpError("deref of non-reference %r in %s" % (v, fr.key))
            elif k == "f":
                path = path + (pr[1],)
            elif k == "v":
                pass
            elif k == "i":
                iv = self.read(st, self.frame_alloc(fr, pr[1]), ())
                if not is_int(iv):
                    raise InterpError("symbolic index")
                path = path + (iv[1],)
            elif k == "ci":
                path = path + (pr[1],)
            elif k == "o":
                pass
            else:
                raise InterpError("projection %r" % (pr,))
        return alloc, path

    def read_place(self, st, fr, pl):
        alloc, path = self.resolve_place(st, fr, pl)
        if alloc[0] == "V":
            return TOP
        return self.read(st, alloc, path)

    def write_place(self, st, fr, pl, val):
        alloc, path = self.resolve_place(st, fr, pl)
        if alloc[0] == "V":
            st.event("write_value", alloc[1])
            return
        self.write(st, alloc, path, val)

    # ------------------------------------------------------------------ constants / operands
    def const(self, st, fr, op):
        if "fn" in op:
            return ("fn", _freeze(op["fn"]))
        if "v" in op:
            return self.const_value(op["v"], op["ty"])
        if "uneval" in op:
            u = op["uneval"]
            if "promoted" in u:
                return self.promoted(st, fr, u["promoted"])
            return ("sym", u["s"])
        if "tyconst" in op:
            return ("sym", op["tyconst"])
        return TOP

    def const_value(self, v, tid):
        if "int" in v:
            if "float" in v:
                return ("f", float(v["float"]))
            if "sint" in v:
                return I(v["sint"])
            return I(v["int"])
        if v.get("zst"):
            t = self.prog.ty(tid)
            if t.get("k") == "adt":
                return adt(t["def"], 0, ())
            if t.get("k") == "fndef":
                return ("fn", None)
            return UNIT
        if "variant" in v:
            t = self.prog.ty(tid)
            d = t.get("def", "(tuple)") if t.get("k") == "adt" else "(tuple)"
            fields = []
            ftys = v.get("tys") or [tid] * len(v["fields"])
            for f, ft in zip(v["fields"], ftys):
                fields.append(self.const_value(f, ft) if ("int" in f or "variant" in f or f.get("zst") or "rawint" in f) else TOP)
            return adt(d, v["variant"] if v["variant"] is not None else 0, fields)
        if "static" in v:
            return ("sym", "static:" + v["static"])
        if "rawint" in v:
            # a scalar-represented newtype the compiler would not take apart (NonZero's inner): its bits
            return I(v["rawint"])
        return TOP

    def inline_const_key(self, r):
        """Body key of the inline constant an rvalue `use(const {..})` evaluates, when the dump has its body."""
        if r.get("k") != "use":
            return None
        o = r["o"]
        if o.get("k") != "const" or "uneval" not in o:
            return None
        u = o["uneval"]
        if "promoted" in u or "{constant#" not in u.get("def", ""):
            return None
        idx = getattr(self.prog, "_inline_consts", None)
        if idx is None:
            idx = {}
            for k, b in self.prog.bodies.items():
                if "{constant#" in b.get("def", "") and "promoted[" not in k:
                    idx.setdefault(b["def"], k)
            self.prog._inline_consts = idx
        return idx.get(u["def"])

    def promoted(self, st, fr, idx):
        key = fr.key + "::promoted[%d]" % idx
        if key in self._prom:
            return self._prom[key]
        body = self.prog.bodies.get(key)
        if body is None:
            return TOP
        # run the promoted body in a private state; its frame memory becomes constant memory
        sub = State()
        sub.nalloc = 10 ** 6 + len(self._prom) * 1000
        base = ("P", key)
        f = Frame(key, body, base)
        sub.frames.append(f)
        outs = self.explore(sub)
        if len(outs) != 1 or outs[0].kind != "return":
            return TOP
        for a, v in outs[0].st.mem.items():
            self.const_mem[a] = v
        val = outs[0].value
        self._prom[key] = val
        return val

    def operand(self, st, fr, op):
        k = op["k"]
        if k in ("copy", "move"):
            return self.read_place(st, fr, op["p"])
        if k == "const":
            return self.const(st, fr, op)
        return TOP

    # ------------------------------------------------------------------ rvalues
    def int_width(self, tid):
        t = self.prog.ty(tid)
        n = t.get("n", "")
        k = t.get("k")
        if k == "bool":
            return 1, False
        if k == "char":
            return 32, False
        if k in ("int", "uint"):
            bits = 64 if n.endswith("size") else int(n[1:])
            return bits, k == "int"
        return None, False

    def binop(self, st, op, a, b, tid):
        base = op.replace("WithOverflow", "").replace("Unchecked", "")
        with_ov = op.endswith("WithOverflow")
        cmp_ops = {"Eq": lambda x, y: x == y, "Ne": lambda x, y: x != y, "Lt": lambda x, y: x < y,
                   "Le": lambda x, y: x <= y, "Gt": lambda x, y: x > y, "Ge": lambda x, y: x >= y}
        if (is_int(a) and is_int(b)) or (a[0] == "f" and b[0] == "f"):
            x, y = a[1], b[1]
            if base in cmp_ops:
                return I(1 if cmp_ops[base](x, y) else 0)
            if base == "Cmp":
                return adt("core::cmp::Ordering", 0 if x < y else (1 if x == y else 2), ())
            if a[0] == "f":
                try:
                    r = {"Add": x + y, "Sub": x - y, "Mul": x * y, "Div": x / y if y else float("inf")}[base]
                except KeyError:
                    return TOP
                return ("f", r)
            bits, signed = self.int_width(tid)
            try:
                r = {"Add": lambda: x + y, "Sub": lambda: x - y, "Mul": lambda: x * y,
                     "BitAnd": lambda: x & y, "BitOr": lambda: x | y, "BitXor": lambda: x ^ y,
                     "Shl": lambda: x << y, "Shr": lambda: x >> y,
                     "Div": lambda: x // y if y else 0, "Rem": lambda: x % y if y else 0}[base]()
            except KeyError:
                return TOP
            ov = False
            if bits:
                lo, hi = (-(1 << (bits - 1)), (1 << (bits - 1)) - 1) if signed else (0, (1 << bits) - 1)
                if r < lo or r > hi:
                    ov = True
                    r = (r - lo) % (1 << bits) + lo
            if with_ov:
                return adt("(tuple)", 0, (I(r), I(1 if ov else 0)))
            return I(r)
        if a[0] == "addr" or b[0] == "addr":
            r = self.addr_binop(base, a, b, tid)
            if r is not None:
                return r
        if a == TOP or b == TOP:
            if with_ov:
                return adt("(tuple)", 0, (TOP, TOP))
            return TOP
        if base in ("Eq", "Ne"):
            # identity comparison of abstract objects / references / variants
            if a[0] in ("obj", "ref", "adt") and b[0] == a[0] and not _has_top(a) and not _has_top(b):
                eq = a == b
                return I(1 if (eq if base == "Eq" else not eq) else 0)
        if base in cmp_ops or base == "Cmp":
            return ("cmp", base, a, b)
        if with_ov:
            return adt("(tuple)", 0, (("app", base, (a, b)), ("app", "overflow:" + base, (a, b))))
        return ("app", base, (a, b))

    def addr_binop(self, op, a, b, tid):
        """('addr', base, low): an integer/pointer base+low where base is a multiple of 16 and 0 <= low < 16."""
        M = (1 << 64) - 1
        if a[0] == "addr" and is_int(b):
            base, low, m = a[1], a[2], b[1] & M
            if op == "BitAnd":
                if m < 16:
                    return I(low & m)
                if (m | 15) == M:
                    return ("addr", base, low & m & 15)
                return TOP
            if op == "BitOr" and m < 16:
                return ("addr", base, low | m)
            if op in ("Eq", "Ne") and m == 0 and False:
                return None
        if b[0] == "addr" and is_int(a):
            if op in ("BitAnd", "BitOr"):
                return self.addr_binop(op, b, a, tid)
        if a[0] == "addr" and b[0] == "addr" and op in ("Eq", "Ne"):
            eq = a == b
            return I(1 if (eq if op == "Eq" else not eq) else 0)
        return None

    def rvalue(self, st, fr, r):
        k = r["k"]
        if k == "use":
            return self.operand(st, fr, r["o"])
        if k in ("ref", "rawptr"):
            alloc, path = self.resolve_place(st, fr, r["p"])
            if alloc[0] == "V":
                return ("valref", alloc[1])
            if alloc[0] == "T":
                return alloc[1] if not path else ("app", "field_addr", (alloc[1], path))
            return ref(alloc, path)
        if k == "cast":
            v = self.operand(st, fr, r["o"])
            ck = r["ck"]
            if ck.startswith("IntToInt"):
                if is_int(v):
                    bits, signed = self.int_width(r["ty"])
                    if bits:
                        x = v[1] & ((1 << bits) - 1)
                        if signed and x >= (1 << (bits - 1)):
                            x -= 1 << bits
                        return I(x)
                return v
            if ck.startswith(("IntToFloat",)):
                if is_int(v):
                    return ("f", float(v[1]))
                t_ = ("app", "as_f64", (v,))
                if "from" in r and self.prog.ty(r["from"]).get("k") == "uint":
                    NONNEG_TERMS.add(t_)        # the float image of an unsigned integer is never negative
                return t_
            if ck.startswith(("FloatToInt", "FloatToFloat")):
                return v if v[0] == "f" else ("app", ck, (v,))
            if ck.startswith("Coerce:ClosureFnPointer") or ck.startswith("Coerce:ReifyFnPointer"):
                return v
            return v
        if k == "binop":
            a = self.operand(st, fr, r["a"])
            b = self.operand(st, fr, r["b"])
            return self.binop(st, r["op"], a, b, r["ty"])
        if k == "unop":
            v = self.operand(st, fr, r["o"])
            if r["op"] == "Not":
                is_bool = "ty" not in r or self.prog.ty(r["ty"]).get("k") == "bool"
                if is_int(v) and v[1] in (0, 1) and is_bool:
                    return I(1 - v[1])
                if v[0] == "cmp":
                    inv = {"Eq": "Ne", "Ne": "Eq", "Lt": "Ge", "Ge": "Lt", "Gt": "Le", "Le": "Gt"}
                    if v[1] in inv:
                        return ("cmp", inv[v[1]], v[2], v[3])
                if v[0] == "top":
                    return TOP
                if is_int(v) and "ty" in r:
                    bits, signed = self.int_width(r["ty"])
                    if bits and not signed:
                        return I(((1 << bits) - 1) ^ v[1])
                    if bits and signed:
                        return I(~v[1])
                return ("app", "Not", (v,))
            if r["op"] == "Neg":
                if is_int(v) or v[0] == "f":
                    return (v[0], -v[1])
            return ("app", r["op"], (v,))
        if k == "discr":
            alloc, path = self.resolve_place(st, fr, r["p"])
            v = self.read(st, alloc, path) if alloc[0] != "V" else TOP
            t = self.prog.ty(r["ty"])
            if v[0] == "adt" and t.get("k") == "adt":
                return I(self.discr_of_variant(t["def"], v[2]))
            if v[0] == "adt":
                return I(v[2])
            if t.get("k") == "adt":
                return ("discr_of", alloc, path, t["def"])
            return TOP
        if k == "agg":
            ops = tuple(self.operand(st, fr, o) for o in r["ops"])
            ak = r["ak"]
            if ak["k"] == "adt":
                if ak.get("active") is not None:
                    return TOP
                return adt(ak["def"], ak["variant"], ops)
            if ak["k"] == "tuple":
                return adt("(tuple)", 0, ops)
            if ak["k"] == "closure":
                return adt("closure:" + ak["def"] + "\0" + ak.get("key", ""), 0, ops)
            if ak["k"] == "array":
                return ("vec", ops)
            if ak["k"] == "rawptr":
                return ops[0]
            return TOP
        if k == "repeat":
            return TOP
        if k == "tlref":
            st.event("thread_local", r["def"])
            return TOP
        return TOP

    # ------------------------------------------------------------------ control
    def truth(self, st, v):
        """Decide an abstract condition: returns list of (bool, constraint-update) alternatives."""
        if is_int(v):
            return [(v[1] != 0, None)]
        if v[0] == "cmp":
            return self.decide_cmp(st, v)
        return [(True, None), (False, None)]

    def decide_cmp(self, st, v):
        _, op, a, b = v
        key = (a, b)
        flip = False
        if (b, a) in st.cons:
            key = (b, a)
            flip = True
        cur = st.cons.get(key)
        if cur is None:
            # the same pure term on both sides denotes the same value
            cur = frozenset("=") if a == b else frozenset("<=>") & _lattice_fact(key[0], key[1])
        sat = {"Eq": "=", "Ne": "<>", "Lt": "<", "Le": "<=", "Gt": ">", "Ge": ">="}[op]
        if flip:
            sat = sat.translate(str.maketrans("<>", "><"))
        t = cur & frozenset(sat)
        f = cur - frozenset(sat)
        out = []
        if t:
            out.append((True, (key, t)))
        if f:
            out.append((False, (key, f)))
        return out

    def step_budget(self, st):
        st.steps += 1
        if st.steps > self.max_steps:
            raise InterpError("step budget exceeded")

    def explore(self, st0):
        """Run all paths from st0 until the bottom frame finishes. Returns list of Outcome."""
        outcomes = []
        work = [st0]
        seen = set()
        floor = len(st0.frames) - 1
        total = 0
        cap = self.max_steps * TOTAL_STEPS_FACTOR
        while work:
            st = work.pop()
            while True:
                if len(st.frames) <= floor:
                    break
                fr = st.frames[-1]
                self.step_budget(st)
                total += 1
                if total > cap:
                    # every single path is within its budget but their number is not: a fork per iteration of a loop
                    # that never closes (fail closed - the caller reports "could not interpret")
                    raise InterpError("step budget exceeded (all paths of one run together)")
                if total > MAX_TOTAL_SEEN[0]:
                    MAX_TOTAL_SEEN[0] = total
                if fr.kind == "glue":
                    nxt = self.step_glue(st, fr, floor, outcomes)
                else:
                    nxt = self.step(st, fr, floor, outcomes)
                if nxt is None:
                    break
                if isinstance(nxt, list):
                    work.extend(nxt[1:])
                    if not nxt:
                        break
                    st = nxt[0]
                # loop detection at block starts
                fr2 = st.frames[-1] if st.frames else None
                if fr2 is not None and fr2.si == 0 and fr2.kind == "fn" and self.loop_cut:
                    if fr2.body.get("_loophead") is None:
                        fr2.body["_loophead"] = _loop_heads(fr2.body)
                    if fr2.bb in fr2.body["_loophead"]:
                        k = st.key()
                        if k in seen:
                            st.event("loop_closed", fr2.key, fr2.bb)
                            outcomes.append(Outcome("loop", None, st))
                            break
                        seen.add(k)
        return outcomes

    def finish_frame(self, st, value, floor, outcomes, unwinding=False):
        fr = st.frames.pop()
        # release frame locals
        if not isinstance(fr.base, tuple):
            for a in [a for a in st.mem if a[0] == "L" and a[1] == fr.base]:
                del st.mem[a]
        if len(st.frames) <= floor:
            outcomes.append(Outcome("unwind" if unwinding else "return", value, st))
            return None
        caller = st.frames[-1]
        if unwinding:
            return self.unwind_into(st, caller, fr.unwind, floor, outcomes)
        if fr.dest is not None:
            self.write(st, fr.dest[0], fr.dest[1], value)
        if fr.ret_bb is None:
            # call was declared diverging but returned: treat as abort
            outcomes.append(Outcome("abort", None, st))
            return None
        if caller.kind == "glue":
            return st
        if isinstance(fr.ret_bb, tuple):
            caller.bb, caller.si = fr.ret_bb[1], fr.ret_bb[2]
            return st
        caller.bb = fr.ret_bb
        caller.si = 0
        return st

    def unwind_into(self, st, caller, action, floor, outcomes):
        """Continue unwinding in `caller` according to the unwind action of its pending terminator."""
        if caller.kind == "glue":
            # unwinding out of a destructor called by drop glue: the remaining fields are still dropped
            # (rustc's drop ladders); continue with the glue's unwind action afterwards
            caller.unwinding = True
            return st
        if isinstance(action, int):
            caller.bb = action
            caller.si = 0
            caller.unwinding = True
            return st
        if action == "cont" or action is None:
            return self.finish_frame(st, None, floor, outcomes, unwinding=True)
        if action == "const-fail":
            return None
        st.event("abort", caller.key)
        outcomes.append(Outcome("abort", None, st))
        return None

    def panic_here(self, st, fr, t, floor, outcomes, what):
        st.event("panic", what, t.get("xo") or t.get("x") or "", norm(fr.body["def"]))
        return self.unwind_into(st, fr, t.get("u"), floor, outcomes)

    def step(self, st, fr, floor, outcomes):
        bb = fr.body["blocks"][fr.bb]
        stmts = bb["s"]
        while fr.si < len(stmts):
            s = stmts[fr.si]
            fr.si += 1
            k = s["k"]
            if k == "assign":
                ck = self.inline_const_key(s["r"])
                if ck is not None:
                    # `const { .. }`: evaluated per instantiation; interpreted in place like a call without arguments,
                    # so that what it compares becomes a fact of this path (a failing const assertion is a compile
                    # error of that instantiation, not a runtime path)
                    dest = self.resolve_place(st, fr, s["p"])
                    self.push_call(st, ck, [], dest, ("resume", fr.bb, fr.si), "const-fail")
                    return st
                v = self.rvalue(st, fr, s["r"])
                self.write_place(st, fr, s["p"], v)
            elif k == "setdiscr":
                alloc, path = self.resolve_place(st, fr, s["p"])
                cur = self.read(st, alloc, path)
                if cur[0] == "adt":
                    self.write(st, alloc, path, ("adt", cur[1], s["v"], cur[3]))
            elif k == "copy_nonoverlapping":
                st.event("copy_nonoverlapping", self.operand(st, fr, s["src"]), self.operand(st, fr, s["dst"]),
                         self.operand(st, fr, s["count"]))
        t = bb["t"]
        k = t["k"]
        if k == "goto":
            fr.bb, fr.si = t["t"], 0
            return st
        if k == "switch":
            v = self.operand(st, fr, t["o"])
            return self.do_switch(st, fr, t, v)
        if k == "return":
            val = self.read(st, self.frame_alloc(fr, 0), ()) if self.frame_alloc(fr, 0) in st.mem else UNIT
            return self.finish_frame(st, val, floor, outcomes)
        if k == "resume":
            return self.finish_frame(st, None, floor, outcomes, unwinding=True)
        if k == "unreachable":
            st.event("unreachable_reached", norm(fr.body["def"]), t["l"])
            outcomes.append(Outcome("abort", None, st))
            return None
        if k == "abort":
            st.event("abort", fr.key)
            outcomes.append(Outcome("abort", None, st))
            return None
        if k == "assert" and t["msg"] in ("MisalignedPointerDereference", "NullPointerDereference"):
            # compiler-inserted raw-pointer UB checks of debug builds: not program logic
            fr.bb, fr.si = t["t"], 0
            return st
        if k == "assert":
            c = self.operand(st, fr, t["c"])
            alts = self.truth(st, c)
            res = []
            for val, upd in alts:
                s2 = st if len(alts) == 1 else st.fork()
                f2 = s2.frames[-1]
                if upd:
                    s2.cons[upd[0]] = upd[1]
                if val == t["e"]:
                    f2.bb, f2.si = t["t"], 0
                    res.append(s2)
                else:
                    s2.path.append(("assert-fail", t["msg"], t["l"]))
                    r = self.panic_here(s2, f2, t, floor, outcomes, "assert:" + t["msg"])
                    if r is not None:
                        res.append(r)
            return res
        if k == "drop":
            return self.do_drop(st, fr, t, floor, outcomes)
        if k == "call":
            return self.do_call(st, fr, t, floor, outcomes)
        raise InterpError("terminator %s" % k)

    def do_switch(self, st, fr, t, v):
        if is_int(v):
            tgt = t["otherwise"]
            bits, _sg = self.int_width(t["ty"])
            x = v[1]
            if x < 0 and bits:
                x = x & ((1 << bits) - 1)
            for val, b in zip(t["vals"], t["targets"]):
                if val == x:
                    tgt = b
                    break
            fr.bb, fr.si = tgt, 0
            return st
        if v[0] == "cmp":
            res = []
            alts = self.decide_cmp(st, v)
            for val, upd in alts:
                s2 = st if len(alts) == 1 else st.fork()
                f2 = s2.frames[-1]
                s2.cons[upd[0]] = upd[1]
                tgt = t["otherwise"]
                for sv, b in zip(t["vals"], t["targets"]):
                    if sv == (1 if val else 0):
                        tgt = b
                s2.path.append(("cmp", v[1], _short(v[2]), _short(v[3]), val, t["l"]))
                f2.bb, f2.si = tgt, 0
                res.append(s2)
            return res
        # unknown discriminant / boolean: fork over all targets, refining the scrutinee when possible
        res = []
        choices = list(zip(t["vals"], t["targets"])) + [(None, t["otherwise"])]
        # skip `otherwise` if it is an unreachable block and all variants are listed
        ob = fr.body["blocks"][t["otherwise"]]
        if ob["t"] and ob["t"]["k"] == "unreachable" and not ob["s"]:
            choices = choices[:-1]
        elif v[0] == "discr_of":
            a = self.adt_info(v[3])
            if a:
                listed = set(t["vals"])
                rest = [vv for vv in a["variants"] if vv.get("discr", vv["idx"]) not in listed]
                choices = choices[:-1] + [(("variant", vv["idx"]), t["otherwise"]) for vv in rest]
        elif self.prog.ty(t["ty"]).get("k") == "bool" and len(t["vals"]) == 1:
            choices = [(t["vals"][0], t["targets"][0]), (1 - t["vals"][0], t["otherwise"])]
        for i, (val, b) in enumerate(choices):
            s2 = st if i == len(choices) - 1 else st.fork()
            f2 = s2.frames[-1]
            if v[0] == "discr_of" and val is not None:
                vi = val[1] if isinstance(val, tuple) else self.variant_of_discr(v[3], val)
                if vi is not None:
                    nf = self.nfields(v[3], vi)
                    try:
                        self.write(s2, v[1], v[2], adt(v[3], vi, [TOP] * nf))
                    except InterpError:
                        pass
            s2.path.append(("branch", _short(v), val if not isinstance(val, tuple) else val[1], t["l"]))
            f2.bb, f2.si = b, 0
            res.append(s2)
        res.reverse()
        return res

    # ------------------------------------------------------------------ drops
    def drop_plan(self, tid, depth=0):
        """Static drop glue for a type: ordered list of ('impl', drop_impl_def, path) steps (own Drop
        impl first, then fields in declaration order). Only ADTs with local Drop impls matter here."""
        out = []
        ty = self.prog.ty(tid)
        k = ty.get("k")
        if depth > 6:
            return out
        if k == "adt":
            a = self.adt_info(ty["def"])
            if a is None:
                return out
            if a.get("drop_impl"):
                out.append(("impl", a["drop_impl"], ()))
            if ty["def"].endswith("boxed::Box") and ty.get("args"):
                inner = ty["args"][0].get("ty")
                if inner is not None:
                    for (kk, d, p) in self.drop_plan(inner, depth + 1):
                        out.append((kk, d, ("*",) + p))
                return out
            if ty["def"].endswith("mem::ManuallyDrop") or ty["def"].endswith("manually_drop::ManuallyDrop"):
                return []
            if a["kind"] == "struct":
                for i, f in enumerate(a["variants"][0]["fields"]):
                    if "ty" in f:
                        for (kk, d, p) in self.drop_plan(f["ty"], depth + 1):
                            out.append((kk, d, (i,) + p))
        elif k == "tuple":
            for i, e in enumerate(ty["elems"]):
                for (kk, d, p) in self.drop_plan(e, depth + 1):
                    out.append((kk, d, (i,) + p))
        elif k == "closure":
            for i, e in enumerate(ty.get("upvars", [])):
                for (kk, d, p) in self.drop_plan(e, depth + 1):
                    out.append((kk, d, (i,) + p))
        return out

    def do_drop(self, st, fr, t, floor, outcomes):
        plan = [p for p in self.drop_plan(t["ty"]) if norm(p[1]) in self.prog.seed_n or norm(p[1]) in self.prims]
        tys = self.prog.ty(t["ty"])
        if tys.get("k") == "param" or (tys.get("k") == "alias"):
            # dropping a caller-supplied value: opaque user destructor
            st.event("drop_opaque", tys["s"])
        if not plan:
            fr.bb, fr.si = t["t"], 0
            return st
        alloc, path = self.resolve_place(st, fr, t["p"])
        g = Frame("<glue>", None, None, kind="glue", extra=[(alloc, path), list(plan), t["t"], t.get("u")])
        g.unwinding = False
        st.frames.append(g)
        return st

    def step_glue(self, st, g, floor, outcomes):
        (alloc, path), plan, target, unwind = g.extra
        if not plan:
            st.frames.pop()
            fr = st.frames[-1]
            if g.unwinding:
                return self.unwind_into(st, fr, unwind, floor, outcomes)
            fr.bb, fr.si = target, 0
            return st
        kind, impl, sub = plan.pop(0)
        # resolve sub path ('*' = box deref)
        a, p = alloc, path
        for s in sub:
            if s == "*":
                v = self.read(st, a, p)
                if v[0] != "ref":
                    return st
                a, p = v[1], v[2]
            else:
                p = p + (s,)
        arg = ref(a, p)
        n = norm(impl)
        if n in self.prims:
            res = self.prims[n](self, st, [arg], {"def": n, "line": 0})
            if res is not NotImplemented:
                return self._after_prim(st, g, res, None, None, "cont", floor, outcomes, glue=True)
        key = self.prog.seed_n[n][0]
        self.push_call(st, key, [arg], dest=None, ret_bb=-1, unwind="cont")
        return st

    # ------------------------------------------------------------------ calls
    def push_call(self, st, key, args, dest, ret_bb, unwind, untuple=False):
        body = self.prog.bodies[key]
        if untuple and len(args) == 2 and args[1][0] == "adt" and args[1][1] in ("(tuple)", "()"):
            args = [args[0]] + list(args[1][3])
        st.nalloc += 1
        base = st.nalloc
        f = Frame(key, body, base, dest, ret_bb, unwind)
        argc = body["argc"]
        spread = body.get("spread")
        if len(args) != argc:
            # closure call ABI: (env, (a, b, ..)) -> env, a, b, ..
            if len(args) == 2 and args[1][0] == "adt" and args[1][1] == "(tuple)" and 1 + len(args[1][3]) == argc:
                args = [args[0]] + list(args[1][3])
            elif spread is not None and len(args) > argc:
                pass
            else:
                raise InterpError("arity mismatch calling %s: %d vs %d" % (key, len(args), argc))
        for i, a in enumerate(args[:argc]):
            st.mem[("L", base, i + 1)] = a
        st.frames.append(f)
        return f

    def callee_body_key(self, f):
        r = f.get("resolved")
        if r:
            if r["key"] in self.prog.bodies:
                return r["key"]
            n = norm(r["def"])
            if r["ik"] in ("Item", "ClosureOnceShim") and n in self.prog.seed_n and r["local"]:
                return self.prog.seed_n[n][0]
        return None

    def do_call(self, st, fr, t, floor, outcomes):
        f = t["f"]
        args = [self.operand(st, fr, a) for a in t["args"]]
        dest = self.resolve_place(st, fr, t["d"]) if t.get("t") is not None else None
        if dest is not None and dest[0][0] == "V":
            dest = None
        info = {"term": t, "line": t["l"], "caller": fr}
        if f.get("indirect"):
            fv = self.operand(st, fr, f["op"])
            info["def"] = "<indirect>"
            h = self.prims.get("<indirect>")
            if h is None:
                raise Unmodelled("indirect call in %s:%s" % (fr.key, t["l"]))
            res = h(self, st, [fv] + args, info)
            return self._after_prim(st, fr, res, dest, t.get("t"), t.get("u"), floor, outcomes)
        r = f.get("resolved")
        declared = norm(f["def"])
        resolved = norm(r["def"]) if r else None
        info["def"] = resolved or declared
        info["declared"] = declared
        info["f"] = f
        if self.trace:
            print("  " * len(st.frames), "CALL", resolved or declared, [_short(a) if a[0] != "adt" else a for a in args][:4],
                  "line", t["l"])
        names = (resolved, declared) if resolved != declared else (resolved,)
        for name in names:
            if name and name in self.prims:
                res = self.prims[name](self, st, args, info)
                if res is NotImplemented:
                    continue
                return self._after_prim(st, fr, res, dest, t.get("t"), t.get("u"), floor, outcomes)
        nm = resolved or declared
        if nm.endswith("::precondition_check"):
            # debug-build check of an unsafe function's precondition (assert_unsafe_precondition!): violating it is
            # undefined behaviour in every build, it is not a panic path of the program
            return self._after_prim(st, fr, [(st, "ret", UNIT)], dest, t.get("t"), t.get("u"), floor, outcomes)
        if nm.startswith(("core::fmt::", "<core::fmt::", "alloc::fmt::")):
            # message formatting on panic paths: pure, value irrelevant
            return self._after_prim(st, fr, [(st, "ret", TOP)], dest, t.get("t"), t.get("u"), floor, outcomes)
        # panicking entry points
        if nm.startswith(PANIC_PREFIXES) or (t.get("t") is None and (nm.startswith("core::") or nm.startswith("std::") or nm.startswith("alloc::"))):
            return self.panic_here(st, fr, t, floor, outcomes, nm)
        if f.get("ctor"):
            # tuple-struct / variant constructor used as a function
            return self._after_prim(st, fr, [(st, "ret", TOP)], dest, t.get("t"), t.get("u"), floor, outcomes)
        key = self.callee_body_key(f)
        if key is not None:
            callee_body = self.prog.bodies[key]
            # closure by-value env vs by-ref body (FnOnce shim)
            if r and r["ik"] == "ClosureOnceShim":
                pass
            try:
                # FnOnce::call_once on a closure whose body takes the env by reference
                if callee_body["locals"] and args and declared in (
                        "core::ops::function::FnOnce::call_once",) and args[0][0] == "adt" and str(args[0][1]).startswith("closure:"):
                    envt = self.prog.ty(callee_body["locals"][1])
                    if envt.get("k") == "ref":
                        a = st.new_alloc("env", args[0])
                        args = [ref(a, ())] + args[1:]
                untuple = declared in ("core::ops::function::FnOnce::call_once", "core::ops::function::FnMut::call_mut",
                                       "core::ops::function::Fn::call") and "{closure#" in callee_body["def"]
                self.push_call(st, key, args, dest, t.get("t"), t.get("u"), untuple=untuple)
            except InterpError:
                raise
            return st
        # unresolved trait method on a type parameter / dyn: opaque user code
        if (r is None or r["ik"] == "Virtual") and self.opaque_call is not None:
            res = self.opaque_call(self, st, args, info)
            if res is not NotImplemented:
                return self._after_prim(st, fr, res, dest, t.get("t"), t.get("u"), floor, outcomes)
        if f.get("krate") in self.opaque_crates or any(("<" + c + "::") in (f.get("s") or "") or (f.get("s") or "").startswith(c + "::")
                                                        or (" " + c + "::") in (f.get("s") or "") for c in self.opaque_crates):
            # logging only (tracing spans / events): no arena state involved
            return self._after_prim(st, fr, [(st, "ret", TOP)], dest, t.get("t"), t.get("u"), floor, outcomes)
        self.unmodelled[nm] += 1
        has_fn_arg = any(a[0] == "fn" or (a[0] == "adt" and str(a[1]).startswith("closure:")) for a in args)
        external = not f.get("local") and f.get("krate") in ("core", "alloc", "std")
        if self.strict and not (self.lenient_std and external and not has_fn_arg):
            raise Unmodelled("%s (called from %s:%s)" % (nm, norm(fr.body["def"]), t["l"]))
        return self._after_prim(st, fr, [(st, "ret", ("app", nm, tuple(args)))], dest, t.get("t"), t.get("u"),
                                floor, outcomes)

    def _after_prim(self, st, fr, res, dest, target, unwind, floor, outcomes, glue=False):
        """res: list of (state, 'ret'|'panic'|'call', value). Continue each alternative."""
        out = []
        for (s2, kind, val) in res:
            f2 = s2.frames[-1]
            if kind == "ret":
                if glue:
                    out.append(s2)
                    continue
                if target is None:
                    s2.event("diverged", "")
                    outcomes.append(Outcome("abort", None, s2))
                    continue
                if dest is not None:
                    self.write(s2, dest[0], dest[1], val)
                f2.bb, f2.si = target, 0
                out.append(s2)
            elif kind == "panic":
                s2.event("panic", val, "", "")
                if glue:
                    f2.unwinding = True
                    out.append(s2)
                    continue
                r = self.unwind_into(s2, f2, unwind, floor, outcomes)
                if r is not None:
                    out.append(r)
            elif kind == "call":
                # val = (body key, args): tail into an interpreted body
                key, cargs = val
                if glue:
                    self.push_call(s2, key, cargs, None, -1, "cont")
                else:
                    self.push_call(s2, key, cargs, dest, target, unwind)
                out.append(s2)
        return out

    # ------------------------------------------------------------------ entry
    def run(self, key, args, st=None):
        st = st or State()
        st.frames = []
        body = self.prog.bodies[key]
        st.nalloc += 1
        f = Frame(key, body, st.nalloc)
        for i, a in enumerate(args):
            st.mem[("L", f.base, i + 1)] = a
        st.frames.append(f)
        return self.explore(st)


NONNEG_TERMS = set()
# one run (all its paths together) may take this many times the per-path step budget; the largest run on the
# unchanged tree is printed with GCV_DEBUG_STEPS=1 (measured: see DESIGN.md §10.3, fourth session)
TOTAL_STEPS_FACTOR = 5
MAX_TOTAL_SEEN = [0]
if os.environ.get("GCV_DEBUG_STEPS"):
    import atexit
    atexit.register(lambda: open(os.environ["GCV_DEBUG_STEPS"], "a").write("%d %s\n" % (MAX_TOTAL_SEEN[0], " ".join(sys.argv[1:3]))))


def sign_of(t, depth=0):
    """Possible signs of an arithmetic term, as a subset of '<=>' relative to zero. Sound for finite values (NaN /
    infinities are excluded by the assumptions recorded with the rules that use it): constants, float images of
    unsigned integers, max / min, sums and differences. Anything else may have any sign."""
    ANY = frozenset("<=>")
    if depth > 12 or not isinstance(t, tuple) or not t:
        return ANY
    if t in NONNEG_TERMS:
        return frozenset("=>")
    if t[0] in ("f", "i"):
        return frozenset("=" if t[1] == 0 else (">" if t[1] > 0 else "<"))
    if t[0] != "app":
        return ANY
    op, args = t[1], t[2]
    if op in ("max", "min") and len(args) == 2:
        a, b = sign_of(args[0], depth + 1), sign_of(args[1], depth + 1)
        if op == "max":
            lo = set()
            # max is at least each argument: it can be negative only if both can, zero only if neither is surely positive
            if "<" in a and "<" in b:
                lo.add("<")
            if ("=" in a or "<" in a) and ("=" in b or "<" in b) and ("=" in a or "=" in b):
                lo.add("=")
            if ">" in a or ">" in b:
                lo.add(">")
            return frozenset(lo) or ANY
        hi = set()
        if ">" in a and ">" in b:
            hi.add(">")
        if ("=" in a or ">" in a) and ("=" in b or ">" in b) and ("=" in a or "=" in b):
            hi.add("=")
        if "<" in a or "<" in b:
            hi.add("<")
        return frozenset(hi) or ANY
    if op in ("Add", "AddUnchecked", "Sub", "SubUnchecked") and len(args) == 2:
        a, b = sign_of(args[0], depth + 1), sign_of(args[1], depth + 1)
        if op.startswith("Sub"):
            b = frozenset({"<": ">", ">": "<", "=": "="}[x] for x in b)
        if a == frozenset("="):
            return b
        if b == frozenset("="):
            return a
        if a <= frozenset("=>") and b <= frozenset("=>"):
            return frozenset("=>") if ("=" in a and "=" in b) else frozenset(">")
        if a <= frozenset("<=") and b <= frozenset("<="):
            return frozenset("<=") if ("=" in a and "=" in b) else frozenset("<")
        return ANY
    if op in ("Mul", "MulUnchecked") and len(args) == 2:
        a, b = sign_of(args[0], depth + 1), sign_of(args[1], depth + 1)
        if a == frozenset("=") or b == frozenset("="):
            return frozenset("=")
        return ANY
    if op == "Neg" and len(args) == 1:
        return frozenset({"<": ">", ">": "<", "=": "="}[x] for x in sign_of(args[0], depth + 1))
    return ANY


def _lattice_fact(a, b):
    """Orderings of (a, b) that the lattice meaning of max / min leaves possible: max(x, c) >= c and min(x, c) <= c
    for a constant c (a float constant is not NaN, and f64::max / min return the other operand for a NaN one)."""
    def is_const(v):
        return isinstance(v, tuple) and v and v[0] in ("f", "i")
    ok = frozenset("<=>")
    if isinstance(a, tuple) and a and a[0] == "app" and a[1] in ("max", "min") and is_const(b) and b in a[2]:
        ok &= frozenset(">=") if a[1] == "max" else frozenset("<=")
    if isinstance(b, tuple) and b and b[0] == "app" and b[1] in ("max", "min") and is_const(a) and a in b[2]:
        ok &= frozenset("<=") if b[1] == "max" else frozenset(">=")
    # comparison with the constant zero: the sign analysis
    if is_const(b) and b[1] == 0:
        ok &= sign_of(a)
    if is_const(a) and a[1] == 0:
        ok &= frozenset({"<": ">", ">": "<", "=": "="}[x] for x in sign_of(b))
    return ok or frozenset("<=>")


def closure_def(v):
    """def path of a closure value ('adt', 'closure:<def>\0<instance key>', 0, upvars)."""
    return str(v[1])[len("closure:"):].split("\0")[0]


def closure_body_key(prog, v):
    parts = str(v[1])[len("closure:"):].split("\0")
    if len(parts) > 1 and parts[1] in prog.bodies:
        return parts[1]
    ks = prog.seed_n.get(norm(parts[0]))
    return ks[0] if ks else None


def _freeze(o):
    if isinstance(o, dict):
        return tuple(sorted((k, _freeze(v)) for k, v in o.items()))
    if isinstance(o, list):
        return tuple(_freeze(x) for x in o)
    return o


def _has_top(v):
    if not isinstance(v, tuple):
        return False
    if v and v[0] in ("top", "sym", "app", "uninit", "cmp", "discr_of"):
        return True
    return any(_has_top(x) for x in v if isinstance(x, tuple))


def _short(v):
    if isinstance(v, tuple):
        if v and v[0] == "discr_of":
            return "discr(%s)" % v[3]
        if v and v[0] == "sym":
            return v[1]
        if v and v[0] == "app":
            return "%s(%s)" % (v[1], ",".join(str(_short(x)) for x in v[2]))
        if v and v[0] == "i":
            return v[1]
        return v[0]
    return v


def _loop_heads(body):
    """Targets of back edges (DFS) — the only places where loop detection hashes the state."""
    from gcv import cfg
    heads = set()
    color = {}
    stack = [(0, iter(cfg.succs(body["blocks"][0])))]
    color[0] = 1
    while stack:
        b, it = stack[-1]
        adv = False
        for n in it:
            if color.get(n, 0) == 0:
                color[n] = 1
                stack.append((n, iter(cfg.succs(body["blocks"][n]))))
                adv = True
                break
            elif color[n] == 1:
                heads.add(n)
        if not adv:
            color[b] = 2
            stack.pop()
    return heads


# ---------------------------------------------------------------------- base primitives (std)

def _ret(st, v):
    return [(st, "ret", v)]


def p_identity(ip, st, args, info):
    return _ret(st, args[0])


def p_unit(ip, st, args, info):
    return _ret(st, UNIT)


def p_cell_get(ip, st, args, info):
    r = args[0]
    if r[0] != "ref":
        return _ret(st, TOP)
    return _ret(st, ip.read(st, r[1], r[2]))


def p_cell_set(ip, st, args, info):
    r = args[0]
    if r[0] == "ref":
        ip.write(st, r[1], r[2], args[1])
    else:
        st.event("cell_store", "Cell::set")
    return _ret(st, UNIT)


def p_cell_replace(ip, st, args, info):
    r = args[0]
    old = ip.read(st, r[1], r[2])
    ip.write(st, r[1], r[2], args[1])
    return _ret(st, old)


def p_option_default_take(ip, st, args, info):
    r = args[0]
    old = ip.read(st, r[1], r[2])
    if old[0] == "adt" and old[1] == "core::option::Option":
        ip.write(st, r[1], r[2], adt("core::option::Option", 0, ()))
    else:
        ip.write(st, r[1], r[2], TOP)
    return _ret(st, old)


def p_mem_replace(ip, st, args, info):
    r = args[0]
    old = ip.read(st, r[1], r[2])
    ip.write(st, r[1], r[2], args[1])
    return _ret(st, old)


def p_forget(ip, st, args, info):
    st.event("forget", _short(args[0]))
    return _ret(st, UNIT)


def p_vec_new(ip, st, args, info):
    return _ret(st, ("vec", ()))


def p_vec_push(ip, st, args, info):
    r = args[0]
    v = ip.read(st, r[1], r[2])
    if v[0] != "vec":
        return _ret(st, UNIT)
    ip.write(st, r[1], r[2], ("vec", v[1] + (args[1],)))
    st.event("vec_push", r[1], r[2], args[1])
    return _ret(st, UNIT)


def p_vec_pop(ip, st, args, info):
    r = args[0]
    v = ip.read(st, r[1], r[2])
    if v[0] != "vec":
        return _ret(st, TOP)
    if not v[1]:
        return _ret(st, adt("core::option::Option", 0, ()))
    ip.write(st, r[1], r[2], ("vec", v[1][:-1]))
    st.event("vec_pop", r[1], r[2], v[1][-1])
    return _ret(st, adt("core::option::Option", 1, (v[1][-1],)))


def p_vec_is_empty(ip, st, args, info):
    r = args[0]
    v = ip.read(st, r[1], r[2])
    if v[0] != "vec":
        return _ret(st, TOP)
    return _ret(st, I(0 if v[1] else 1))


def p_vec_len(ip, st, args, info):
    r = args[0]
    v = ip.read(st, r[1], r[2])
    if v[0] != "vec":
        return _ret(st, TOP)
    return _ret(st, I(len(v[1])))


def p_vec_truncate(ip, st, args, info):
    r = args[0]
    v = ip.read(st, r[1], r[2])
    n = args[1] if len(args) > 1 else I(0)
    if v[0] != "vec":
        return _ret(st, UNIT)
    if not is_int(n):
        raise Unmodelled("Vec::truncate to a length that is not known")
    for x in v[1][n[1]:]:
        st.event("vec_remove", r[1], r[2], x)
    ip.write(st, r[1], r[2], ("vec", v[1][:n[1]]))
    return _ret(st, UNIT)


def p_vec_clear(ip, st, args, info):
    return p_vec_truncate(ip, st, [args[0], I(0)], info)


def p_box_new(ip, st, args, info):
    a = st.new_alloc("box", args[0])
    return _ret(st, ref(a, ()))


def p_opaque(ip, st, args, info):
    return _ret(st, ("app", info["def"], tuple(args)))


def p_top(ip, st, args, info):
    return _ret(st, TOP)


def p_refcell_borrow(ip, st, args, info):
    """RefCell is represented transparently (a RefCell<T> place holds the T value, like Cell / UnsafeCell): a
    borrow of a RefCell in modelled memory is a reference to that place; the borrow flag is not tracked (a guard
    lives for one statement in the code that uses it this way, and a re-entrant borrow would need a callback)."""
    r = args[0]
    if r[0] == "ref" and r[1] in st.mem:
        return _ret(st, r)
    return NotImplemented


def p_refcell_try_borrow(ip, st, args, info):
    r = args[0]
    if r[0] == "ref" and r[1] in st.mem:
        return _ret(st, adt("core::result::Result", 0, (r,)))
    return NotImplemented


def p_guard_deref(ip, st, args, info):
    r = args[0]
    if r[0] == "ref" and r[1] in st.mem:
        v = ip.read(st, r[1], r[2])
        if v[0] == "ref":
            return _ret(st, v)
    return NotImplemented


def p_array_into_iter(ip, st, args, info):
    """`for x in [a, b, c]`: by-value iteration over an array aggregate of known elements."""
    v = args[0]
    if v[0] == "vec":
        return _ret(st, ("arrit", v[1], 0))
    return NotImplemented


def p_array_iter_next(ip, st, args, info):
    r = args[0]
    if r[0] == "ref" and r[1] in st.mem:
        it = ip.read(st, r[1], r[2])
        if it[0] == "arrit":
            if it[2] < len(it[1]):
                ip.write(st, r[1], r[2], ("arrit", it[1], it[2] + 1))
                return _ret(st, adt("core::option::Option", 1, (it[1][it[2]],)))
            return _ret(st, adt("core::option::Option", 0, ()))
    return NotImplemented


BASE_PRIMS = {
    "core::array::iter::<impl core::iter::traits::collect::IntoIterator for [T; N]>::into_iter": p_array_into_iter,
    "<core::array::iter::IntoIter as core::iter::traits::iterator::Iterator>::next": p_array_iter_next,
    "core::cell::RefCell::new": p_identity,
    "core::cell::RefCell::into_inner": p_identity,
    "core::cell::RefCell::borrow": p_refcell_borrow,
    "core::cell::RefCell::borrow_mut": p_refcell_borrow,
    "core::cell::RefCell::try_borrow": p_refcell_try_borrow,
    "core::cell::RefCell::try_borrow_mut": p_refcell_try_borrow,
    "<core::cell::Ref as core::ops::deref::Deref>::deref": p_guard_deref,
    "<core::cell::RefMut as core::ops::deref::Deref>::deref": p_guard_deref,
    "<core::cell::RefMut as core::ops::deref::DerefMut>::deref_mut": p_guard_deref,
    "core::cell::Cell::new": p_identity,
    "core::cell::Cell::get": p_cell_get,
    "core::cell::Cell::set": p_cell_set,
    "core::cell::Cell::replace": p_cell_replace,
    "core::cell::Cell::take": p_option_default_take,
    "core::cell::Cell::into_inner": p_identity,
    "core::cell::UnsafeCell::new": p_identity,
    "core::cell::UnsafeCell::get": p_identity,
    "core::cell::UnsafeCell::into_inner": p_identity,
    "core::ptr::mut_ptr::cast_const": p_identity,
    "core::ptr::const_ptr::cast_mut": p_identity,
    "core::ptr::mut_ptr::cast": p_identity,
    "core::ptr::const_ptr::cast": p_identity,
    "core::ptr::from_ref": p_identity,
    "core::ptr::from_mut": p_identity,
    "core::ptr::non_null::NonNull::from_ref": p_identity,
    "core::ptr::non_null::NonNull::from_mut": p_identity,
    "<core::ptr::non_null::NonNull as core::convert::From<&T>>::from": p_identity,
    "<core::ptr::non_null::NonNull as core::convert::From<&mut T>>::from": p_identity,
    "core::mem::replace": p_mem_replace,
    "core::mem::forget": p_forget,
    "core::option::Option::take": p_option_default_take,
    "alloc::vec::Vec::new": p_vec_new,
    "alloc::vec::Vec::push": p_vec_push,
    "alloc::vec::Vec::pop": p_vec_pop,
    "alloc::vec::Vec::is_empty": p_vec_is_empty,
    "alloc::vec::Vec::len": p_vec_len,
    "alloc::vec::Vec::truncate": p_vec_truncate,
    "alloc::vec::Vec::clear": p_vec_clear,
    "alloc::boxed::Box::new": p_box_new,
    "core::mem::ManuallyDrop::new": p_identity,
    "core::mem::manually_drop::ManuallyDrop::new": p_identity,
    "core::intrinsics::cold_path": p_unit,
    "core::hint::assert_unchecked": p_unit,
    "core::hint::assert_unchecked::precondition_check": p_unit,
    "core::ub_checks::check_language_ub": p_top,
    "core::intrinsics::ub_checks": p_top,
}
