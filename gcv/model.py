"""Indexes over a fact file: types, ADTs, impls, seed bodies, resolved call graph, drop reachability."""
import collections
import re


_norm_cache = {}


def norm(path):
    """Normalise a def path: drop generic argument lists (`::<T>`, `Foo<'a>`), keep `<X as Tr>::m`
    qualifiers. Anchors are written in this form so that renaming a type parameter is not an alarm."""
    if path is None:
        return None
    r = _norm_cache.get(path)
    if r is not None:
        return r
    out = []
    stack = []  # True = kept qualifier bracket, False = dropped generic list
    i = 0
    n = len(path)
    drop = 0
    while i < n:
        c = path[i]
        if c == "<":
            prev = path[i - 1] if i > 0 else ""
            is_generic = prev != "" and (prev.isalnum() or prev in "_:>") and not path.startswith("<impl ", i)
            # `::<` generic list: also remove the `::`
            if is_generic:
                if drop == 0 and len(out) >= 2 and out[-1] == ":" and out[-2] == ":":
                    out.pop()
                    out.pop()
                stack.append(False)
                drop += 1
            else:
                stack.append(True)
                if drop == 0:
                    out.append(c)
        elif c == ">" and (i == 0 or path[i - 1] != "-") and stack:
            kept = stack.pop()
            if kept:
                if drop == 0:
                    out.append(c)
            else:
                drop -= 1
        else:
            if drop == 0:
                out.append(c)
        i += 1
    r = "".join(out)
    _norm_cache[path] = r
    return r


class Edge:
    __slots__ = ("caller", "callee", "declared", "trait", "resolved", "line", "bb", "cleanup", "kind",
                 "key", "args", "file", "term", "caller_raw", "callee_raw")

    def __init__(self, **kw):
        for k in self.__slots__:
            setattr(self, k, kw.get(k))

    def __repr__(self):
        return "%s -> %s @%s:%s" % (self.caller, self.callee, self.file, self.line)


class Program:
    def __init__(self, facts, config="default"):
        self.f = facts
        self.config = config
        self.types = facts["types"]
        self.bodies = facts["bodies"]
        self.fns = {f["path"]: f for f in facts["fns"]}
        self.fn_n = collections.defaultdict(list)
        for f in facts["fns"]:
            f["n"] = norm(f["path"])
            self.fn_n[f["n"]].append(f)
        self.adts = {a["path"]: a for a in facts["adts"]}
        self.adts_u = {a.get("upath", a["path"]): a for a in facts["adts"]}
        self.all_adts = dict(self.adts)
        for a in facts["ext_adts"]:
            self.all_adts.setdefault(a["path"], a)
        self.impls = facts["impls"]
        self.consts = {c["path"]: c for c in facts["consts"]}
        self.statics = facts["statics"]
        self.traits = {t["path"]: t for t in facts["traits"]}
        # seed bodies: identity-instantiated local items
        self.seed = {}
        for k, b in self.bodies.items():
            if b["depth"] == 0 and "::promoted[" not in k and b["local"]:
                self.seed.setdefault(b["def"], k)
        self.seed_n = collections.defaultdict(list)
        for d, k in self.seed.items():
            self.seed_n[norm(d)].append(k)
        self._edges = None
        self._by_caller = None
        self._by_callee = None
        self._vt = None

    # ------------------------------------------------------------ types
    def ty(self, tid):
        return self.types[tid]

    def ty_s(self, tid):
        return self.types[tid]["s"]

    def adt_of(self, tid):
        t = self.types[tid]
        if t.get("k") == "adt":
            return t["def"]
        return None

    def type_mentions(self, tid, seen=None):
        """All ADT def paths mentioned in the type tree of tid (arguments, pointees, elements, and
        declared field types of every ADT reached)."""
        if seen is None:
            seen = set()
        out = set()
        stack = [tid]
        seen_t = set()
        while stack:
            t = stack.pop()
            if t in seen_t:
                continue
            seen_t.add(t)
            ty = self.types[t]
            k = ty.get("k")
            if k == "adt":
                d = ty["def"]
                for a in ty.get("args", []):
                    if "ty" in a:
                        stack.append(a["ty"])
                if d not in out:
                    out.add(d)
                    adt = self.all_adts.get(d)
                    if adt:
                        for v in adt["variants"]:
                            for f in v["fields"]:
                                if "ty" in f:
                                    stack.append(f["ty"])
            elif k in ("ref", "ptr", "slice", "array"):
                stack.append(ty["ty"])
            elif k == "tuple":
                stack.extend(ty["elems"])
            elif k == "closure":
                stack.extend(ty.get("upvars", []))
        return out

    def drop_impls_of_type(self, tid):
        """Drop::drop impls that dropping a value of this type may run (over-approximation: every
        ADT owned through the type tree; references/raw pointers do not own)."""
        out = set()
        stack = [tid]
        seen_t = set()
        seen_adt = set()
        while stack:
            t = stack.pop()
            if t in seen_t:
                continue
            seen_t.add(t)
            ty = self.types[t]
            k = ty.get("k")
            if k == "adt":
                d = ty["def"]
                for a in ty.get("args", []):
                    if "ty" in a:
                        stack.append(a["ty"])
                if d in seen_adt:
                    continue
                seen_adt.add(d)
                adt = self.all_adts.get(d)
                if adt:
                    if adt.get("drop_impl"):
                        out.add(adt["drop_impl"])
                    for v in adt["variants"]:
                        for f in v["fields"]:
                            if "ty" in f:
                                stack.append(f["ty"])
            elif k in ("slice", "array"):
                stack.append(ty["ty"])
            elif k == "tuple":
                stack.extend(ty["elems"])
            elif k == "closure":
                stack.extend(ty.get("upvars", []))
        return out

    # ------------------------------------------------------------ functions
    def fn_of_closure(self, path):
        """Outermost enclosing fn-like item of a closure / nested fn path."""
        p = path
        while True:
            m = re.match(r"^(.*)::\{closure#\d+\}$", p)
            if m:
                p = m.group(1)
                continue
            return p

    def body_of(self, def_path):
        k = self.seed.get(def_path)
        return self.bodies.get(k) if k else None

    def file_of(self, body):
        return body["span"]["f"]

    # ------------------------------------------------------------ call graph
    def edges(self):
        if self._edges is not None:
            return self._edges
        edges = []
        for d_raw, key in self.seed.items():
            d = norm(d_raw)
            b = self.bodies[key]
            file = b["span"]["f"]
            for bi, bb in enumerate(b["blocks"]):
                t = bb["t"]
                if not t:
                    continue
                if t["k"] == "call":
                    f = t["f"]
                    if f.get("indirect"):
                        edges.append(Edge(caller=d, callee=None, declared=None, kind="indirect", line=t["l"],
                                          bb=bi, cleanup=bb["c"], file=file, term=t, caller_raw=d_raw))
                        continue
                    r = f.get("resolved")
                    callee = r["def"] if r else f["def"]
                    edges.append(Edge(caller=d, callee=norm(callee), declared=norm(f["def"]), trait=f.get("trait"),
                                      resolved=bool(r), kind=(r["ik"] if r else "unresolved"), line=t["l"],
                                      bb=bi, cleanup=bb["c"], key=(r["key"] if r else None), args=f.get("s"),
                                      file=file, term=t, caller_raw=d_raw, callee_raw=callee))
                elif t["k"] == "drop":
                    for di in sorted(self.drop_impls_of_type(t["ty"])):
                        edges.append(Edge(caller=d, callee=norm(di), declared=norm(di), kind="drop", line=t["l"], bb=bi,
                                          cleanup=bb["c"], file=file, term=t, resolved=True, caller_raw=d_raw,
                                          callee_raw=di))
                # closures created in this body are potential callees (called through Fn* traits)
                for s in bb["s"]:
                    if s["k"] == "assign" and s["r"]["k"] == "agg" and s["r"]["ak"]["k"] == "closure":
                        edges.append(Edge(caller=d, callee=norm(s["r"]["ak"]["def"]), declared=norm(s["r"]["ak"]["def"]),
                                          kind="closure", line=s["l"], bb=bi, cleanup=bb["c"], file=file,
                                          resolved=True, caller_raw=d_raw, callee_raw=s["r"]["ak"]["def"]))
                # fn items used as values (function pointers, closures→fnptr casts)
                for s in bb["s"]:
                    if s["k"] != "assign":
                        continue
                    for op in _operands_of_rvalue(s["r"]):
                        if op.get("k") == "const" and "fn" in op:
                            fn = op["fn"]
                            r = fn.get("resolved")
                            callee = r["def"] if r else fn["def"]
                            edges.append(Edge(caller=d, callee=norm(callee), declared=norm(fn["def"]), kind="fnref",
                                              line=s["l"], bb=bi, cleanup=bb["c"], file=file,
                                              resolved=bool(r), trait=fn.get("trait"), caller_raw=d_raw,
                                              callee_raw=callee))
        self._edges = edges
        self._by_caller = collections.defaultdict(list)
        self._by_callee = collections.defaultdict(list)
        for e in edges:
            self._by_caller[e.caller].append(e)
            if e.callee:
                self._by_callee[e.callee].append(e)
        return edges

    def calls_from(self, d):
        self.edges()
        return self._by_caller.get(d, [])

    def callers_of(self, d):
        self.edges()
        return self._by_callee.get(d, [])

    def arena_drop_walker(self):
        """The destructor that releases every object when the collector context is dropped (`DropAll` today): found
        by shape, not by path - a local `Drop::drop` other than the block builder's that calls GcPtr::dealloc and is
        reachable from `<Context as Drop>::drop` (it may be nested in that function or live at module level)."""
        if getattr(self, "_walker", None) is not None:
            return self._walker
        self.edges()
        ctx_drop = "<context::Context as core::ops::drop::Drop>::drop"
        reach = self.reachable_from([ctx_drop]) if ctx_drop in self.seed_n else {}
        cands = sorted({e.caller for e in self.callers_of("gc_ptr::GcPtr::dealloc")
                        if e.caller.endswith("as core::ops::drop::Drop>::drop") and not e.caller.startswith("<gc::GcBuilder ")
                        and (e.caller in reach or e.caller == ctx_drop)})
        self._walker = cands[0] if len(cands) == 1 else "<<context::Context as core::ops::drop::Drop>::drop::DropAll as core::ops::drop::Drop>::drop"
        return self._walker

    def arena_drop_walkers(self):
        """Every function that releases blocks on behalf of the context's destructor: the crate functions that call
        GcPtr::dealloc, are reachable from `<Context as Drop>::drop` (or are it) and are reachable from nowhere else
        except through it - a guard type's Drop today, possibly a plain helper function plus a small resume guard."""
        self.edges()
        ctx_drop = "<context::Context as core::ops::drop::Drop>::drop"
        if ctx_drop not in self.seed_n:
            return [self.arena_drop_walker()]
        reach = self.reachable_from([ctx_drop])
        # functions that can only run on behalf of the context's destructor: every caller is the destructor or
        # another such function (least fixpoint). A guard type shared with the sweep (its Drop releases the block on
        # the unwinding path too) is NOT one of them - it stays an unanalysed helper below its callers.
        # (greatest fixpoint: a walker and its resume guard may call each other.) Not "only": whatever has a caller
        # outside the destructor's reach, is externally callable, or has a caller that is not "only".
        try:
            from gcv.props import C03 as _c03
            entry = {f["n"] for f in _c03.entry_points(self)}
        except Exception:
            entry = set()
        notonly = set()
        for n in reach:
            if n == ctx_drop:
                continue
            cs = {x.caller for x in self.callers_of(n)} - {n}
            if n in entry or not cs or any(c != ctx_drop and c not in reach for c in cs):
                notonly.add(n)
        grew = True
        while grew:
            grew = False
            for n in reach:
                if n in notonly or n == ctx_drop:
                    continue
                cs = {x.caller for x in self.callers_of(n)} - {n}
                if any(c in notonly for c in cs):
                    notonly.add(n)
                    grew = True
        only = (set(reach) - notonly) | {ctx_drop}
        out = set()
        for tgt in ("gc_ptr::GcPtr::dealloc", "gc_ptr::GcPtr::drop_in_place"):
            for e in self.callers_of(tgt):
                c = self.fn_of_closure(e.caller)
                if c.startswith("<gc::GcBuilder "):
                    continue
                if c in only or c == ctx_drop:
                    out.add(c)
        return sorted(out) or [self.arena_drop_walker()]

    def collector_trace_impl(self):
        """The collector's own `impl Trace` (what user Collect impls call into): the implementor is the context
        itself or a reference to it. Returns {"trace_gc": def, "trace_gc_weak": def, "by_ref": bool} or None."""
        for im in self.impls:
            if im.get("trait") != "collect::Trace":
                continue
            t = self.ty(im["self"])
            by_ref = False
            if t.get("k") == "ref":
                by_ref = True
                t = self.ty(t["ty"])
            if t.get("k") == "adt" and t.get("def") == "context::Context":
                items = {i["name"]: norm(i["path"]) for i in im["items"]}
                if "trace_gc" in items and "trace_gc_weak" in items:
                    return {"trace_gc": items["trace_gc"], "trace_gc_weak": items["trace_gc_weak"], "by_ref": by_ref}
        return None

    def vtable_slots(self):
        """Map GcVtable field index -> closure def stored there by the (single) initialiser
        `VtableFor::VTABLE`. Returns (slots, initialisers)."""
        if self._vt is not None:
            return self._vt
        slots = {}
        inits = []
        for d, key in self.seed.items():
            b = self.bodies[key]
            for bb in b["blocks"]:
                for s in bb["s"]:
                    if s["k"] == "assign" and s["r"]["k"] == "agg" and s["r"]["ak"].get("def") == "gc_ptr::GcVtable":
                        inits.append(norm(d))
                        # trace operands back to closure→fnptr casts within the body
                        defs = _local_defs(b)
                        for i, op in enumerate(s["r"]["ops"]):
                            c = _trace_closure(b, defs, op)
                            if c:
                                slots[i] = norm(c)
        self._vt = (slots, inits)
        return self._vt

    def reachable_from(self, roots, follow_indirect=True, stop=None):
        """Forward reachability over resolved call edges (incl. drop edges, closure creation, fn refs,
        and vtable slots for indirect calls through GcVtable fields). Returns dict def -> predecessor edge."""
        self.edges()
        slots, _ = self.vtable_slots()
        pred = {}
        work = list(roots)
        for r in roots:
            pred[r] = None
        while work:
            d = work.pop()
            if stop and d in stop:
                continue
            for e in self._by_caller.get(d, []):
                tgts = []
                if e.kind == "indirect":
                    if follow_indirect:
                        fld = _vtable_field_of_call(self, self.body_of(e.caller_raw), e.term)
                        if fld is not None and fld in slots:
                            tgts.append(slots[fld])
                        elif fld is None:
                            tgts.append("<indirect>")
                elif e.callee:
                    tgts.append(e.callee)
                for t in tgts:
                    if t not in pred:
                        pred[t] = e
                        work.append(t)
        return pred

    def path_to(self, pred, target):
        out = []
        cur = target
        while cur is not None and pred.get(cur) is not None:
            e = pred[cur]
            out.append("%s (%s:%s)" % (e.caller, e.file, e.line))
            cur = e.caller
        out.reverse()
        out.append(target)
        return out


def _operands_of_rvalue(r):
    k = r["k"]
    if k in ("use", "cast", "unop", "repeat"):
        return [r["o"]]
    if k == "binop":
        return [r["a"], r["b"]]
    if k == "agg":
        return r["ops"]
    return []


def _local_defs(b):
    """local -> list of (kind, payload) definitions (assign statements / call destinations)."""
    defs = collections.defaultdict(list)
    for bi, bb in enumerate(b["blocks"]):
        for s in bb["s"]:
            if s["k"] == "assign" and not s["p"]["p"]:
                defs[s["p"]["l"]].append(("rv", s["r"]))
        t = bb["t"]
        if t and t["k"] == "call" and not t["d"]["p"]:
            defs[t["d"]["l"]].append(("call", t))
    return defs


def _trace_closure(b, defs, op, depth=0):
    """The closure - or named function - whose address flows into operand `op` (through moves, fn-pointer casts and
    Some(..))."""
    if depth > 8:
        return None
    if op.get("k") == "const" and op.get("fn") and op["fn"].get("local"):
        return op["fn"]["def"]
    if op.get("k") in ("copy", "move") and not op["p"]["p"]:
        for kind, d in defs.get(op["p"]["l"], []):
            if kind != "rv":
                continue
            if d["k"] == "agg" and d["ak"]["k"] == "closure":
                return d["ak"]["def"]
            if d["k"] == "agg" and d["ak"]["k"] == "adt" and d["ak"].get("def") == "core::option::Option" and d["ops"]:
                # an optional slot: Some(closure as fn pointer)
                c = _trace_closure(b, defs, d["ops"][0], depth + 1)
                if c:
                    return c
            if d["k"] in ("use", "cast"):
                c = _trace_closure(b, defs, d["o"], depth + 1)
                if c:
                    return c
    return None


def _vtable_field_of_call(prog, body, term):
    """For an indirect call `(*vt).f(..)`: the field index f if the function operand is a field of a
    GcVtable value, else None."""
    if body is None:
        return None
    op = term["f"].get("op")
    if not op or op.get("k") not in ("copy", "move"):
        return None
    defs = _local_defs(body)

    def field_of_place(pl, depth=0):
        # walk projections: looking for [..., deref, field i] on a GcVtable-typed base
        projs = pl["p"]
        # any field projection whose base is a GcVtable value (the slot may be unwrapped further, e.g. an
        # Option-typed slot matched as Some(f))
        for i in range(len(projs) - 1, -1, -1):
            if projs[i][0] == "f":
                base_ty = _place_ty(prog, body, {"l": pl["l"], "p": projs[:i]})
                if base_ty is not None and prog.adt_of(base_ty) == "gc_ptr::GcVtable":
                    return projs[i][1]
        if not projs and depth < 6:
            for kind, d in defs.get(pl["l"], []):
                if kind == "rv" and d["k"] == "use" and d["o"].get("k") in ("copy", "move"):
                    r = field_of_place(d["o"]["p"], depth + 1)
                    if r is not None:
                        return r
        return None

    return field_of_place(op["p"])


def _place_ty(prog, body, pl):
    t = body["locals"][pl["l"]]
    for pr in pl["p"]:
        ty = prog.types[t]
        k = ty.get("k")
        if pr[0] == "d":
            if k in ("ref", "ptr"):
                t = ty["ty"]
            elif k == "adt" and ty["def"].endswith("boxed::Box"):
                t = ty["args"][0]["ty"]
            else:
                return None
        elif pr[0] == "f":
            if k == "adt":
                adt = prog.all_adts.get(ty["def"])
                if not adt:
                    return None
                v = adt["variants"][0]
                f = v["fields"][pr[1]]
                if "ty" not in f:
                    return None
                t = f["ty"]  # declared (uninstantiated) type: adequate for non-generic ADTs
            elif k == "tuple":
                t = ty["elems"][pr[1]]
            else:
                return None
        else:
            return None
    return t
