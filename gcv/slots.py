"""C14: slot-table transition tables of dynamic_roots::Slots::{add,inc,dec}, extracted by interpreting
their MIR over all well-formed short slot vectors, and handle pairing (stash / Clone / Drop / fetch)."""
import itertools

from gcv import interp
from gcv.interp import Interp, State, TOP, UNIT, adt, ref, I

SLOT = "dynamic_roots::Slot"
SLOTS = "dynamic_roots::Slots"
NULL = (1 << 64) - 1
OPT = "core::option::Option"


def vacant(nf):
    return adt(SLOT, 0, (I(nf),))


def occupied(p, rc):
    return adt(SLOT, 1, (p, I(rc)))


def prims():
    def index_mut(ip, st, args, info):
        r, i = args[0], args[1]
        v = ip.read(st, r[1], r[2])
        if v[0] != "vec" or i[0] != "i":
            raise interp.InterpError("symbolic Vec index")
        if i[1] >= len(v[1]):
            return [(st, "panic", "index out of bounds")]
        return [(st, "ret", ref(r[1], r[2] + (i[1],)))]

    def checked_add(ip, st, args, info):
        a, b = args
        if a[0] == "i" and b[0] == "i":
            r = a[1] + b[1]
            if r > NULL:
                return [(st, "ret", adt(OPT, 0, ()))]
            return [(st, "ret", adt(OPT, 1, (I(r),)))]
        return [(st, "ret", TOP)]
    def nz_int(v):
        # NonZero<usize> is read as the integer it wraps (constants arrive as NonZero(Inner(n)))
        while isinstance(v, tuple) and v and v[0] == "adt" and len(v[3]) == 1:
            v = v[3][0]
        return v

    def nz_get(ip, st, args, info):
        return [(st, "ret", nz_int(args[0]))]

    def nz_new(ip, st, args, info):
        n = nz_int(args[0])
        if n[0] != "i":
            return [(st, "ret", TOP)]
        return [(st, "ret", adt(OPT, 1, (n,)) if n[1] != 0 else adt(OPT, 0, ()))]

    def nz_sat_add(ip, st, args, info):
        a, b = nz_int(args[0]), nz_int(args[1])
        if a[0] == "i" and b[0] == "i":
            return [(st, "ret", I(min(a[1] + b[1], NULL)))]
        return [(st, "ret", TOP)]

    def nz_checked_add(ip, st, args, info):
        a, b = nz_int(args[0]), nz_int(args[1])
        if a[0] == "i" and b[0] == "i":
            return [(st, "ret", adt(OPT, 1, (I(a[1] + b[1]),)) if a[1] + b[1] <= NULL else adt(OPT, 0, ()))]
        return [(st, "ret", TOP)]

    def checked_sub(ip, st, args, info):
        a, b = args
        if a[0] == "i" and b[0] == "i":
            return [(st, "ret", adt(OPT, 1, (I(a[1] - b[1]),)) if a[1] >= b[1] else adt(OPT, 0, ()))]
        return [(st, "ret", TOP)]

    def vec_clear(ip, st, args, info):
        r = args[0]
        ip.write(st, r[1], r[2], ("vec", ()))
        return [(st, "ret", UNIT)]

    def vec_truncate(ip, st, args, info):
        r, n = args[0], args[1]
        v = ip.read(st, r[1], r[2])
        if v[0] != "vec" or n[0] != "i":
            raise interp.InterpError("symbolic truncate")
        ip.write(st, r[1], r[2], ("vec", v[1][:n[1]]))
        return [(st, "ret", UNIT)]

    def unmodelled_vec(ip, st, args, info):
        raise interp.Unmodelled("Vec method %s is not modelled by the slot-table analysis" % info["def"])
    extra = {}
    for m in ("remove", "swap_remove", "insert", "drain", "retain", "resize", "resize_with", "append", "split_off",
              "dedup", "extend_from_slice", "set_len", "shrink_to_fit", "shrink_to", "reserve", "retain_mut"):
        extra["alloc::vec::Vec::" + m] = unmodelled_vec
    extra["alloc::vec::Vec::shrink_to_fit"] = lambda ip, st, args, info: [(st, "ret", UNIT)]
    extra["alloc::vec::Vec::reserve"] = lambda ip, st, args, info: [(st, "ret", UNIT)]
    return {
        **extra,
        "alloc::vec::Vec::clear": vec_clear,
        "alloc::vec::Vec::truncate": vec_truncate,
        "<alloc::vec::Vec as core::ops::index::IndexMut>::index_mut": index_mut,
        "<alloc::vec::Vec as core::ops::index::Index>::index": index_mut,
        "core::ops::index::IndexMut::index_mut": index_mut,
        "core::ops::index::Index::index": index_mut,
        "core::num::<impl usize>::checked_add": checked_add,
        "core::num::<impl usize>::checked_sub": checked_sub,
        "core::num::nonzero::NonZero::get": nz_get,
        "core::num::nonzero::NonZero::new": nz_new,
        "core::num::nonzero::NonZero::new_unchecked": nz_get,
        "core::num::nonzero::NonZero::saturating_add": nz_sat_add,
        "core::num::nonzero::NonZero::checked_add": nz_checked_add,
    }


def well_formed_states(maxlen=3):
    """(slots tuple, next_free): every Vacant slot is on the free list exactly once."""
    P = [("obj", 10 + i) for i in range(maxlen + 1)]
    out = []
    for n in range(maxlen + 1):
        for kinds in itertools.product(("V", "O0", "O1", "O2"), repeat=n):
            vac = [i for i, k in enumerate(kinds) if k == "V"]
            for order in itertools.permutations(vac):
                nxt = {}
                for a, b in zip(order, list(order[1:]) + [NULL]):
                    nxt[a] = b
                slots = []
                for i, k in enumerate(kinds):
                    if k == "V":
                        slots.append(vacant(nxt[i]))
                    else:
                        slots.append(occupied(P[i], int(k[1])))
                out.append((tuple(slots), order[0] if order else NULL))
    return out


def mk(slots, nf):
    st = State()
    st.mem[("slots",)] = adt(SLOTS, 0, (("vec", tuple(slots)), I(nf)))
    return st


def read(st):
    v = st.mem[("slots",)]
    return v[3][0][1], v[3][1][1]


def explore(chk, prog, depth=7, max_live=3, max_handles=3):
    """Reachability exploration from Slots::new(): every sequence of add / inc / dec (as performed by stash /
    clone / drop of handles) up to `depth` operations with at most `max_live` occupied slots, interpreted from
    MIR, compared after every step with a ghost model of the live handles: a live handle's slot is Occupied and
    holds the pointer that was stashed; add never returns the index of a live handle."""
    ip = Interp(prog, prims=prims(), strict=True)
    ip.lenient_std = True
    for fn in ("new", "add", "inc", "dec"):
        if not chk.anchor("dynamic_roots::Slots::" + fn, ("dynamic_roots::Slots::" + fn) in prog.seed_n):
            return
    k = {fn: prog.seed_n["dynamic_roots::Slots::" + fn][0] for fn in ("new", "add", "inc", "dec")}
    names = [f["name"] for f in prog.all_adts[SLOTS]["variants"][0]["fields"]]
    if "slots" not in names:
        chk.violation("ANCHOR-MISSING", "dynamic_roots::Slots.slots", "field `slots` not found")
        return
    si = names.index("slots")
    try:
        outs = [o for o in ip.run(k["new"], [], State()) if o.kind == "return"]
        init = outs[0].value
    except (interp.Unmodelled, interp.InterpError, IndexError) as e:
        chk.inst("slot-reachability", "Slots::new", False, detail="could not be analysed: %s" % e)
        return
    seen = set()
    work = [(init, (), ())]   # (slots value, ghost tuple of (idx, ptr, handles), op trail)
    nstates = 0
    ntrans = 0
    probs = {}
    fresh = [("obj", 100 + i) for i in range(depth + 1)]

    def check(val, ghost, trail):
        vec = val[3][si]
        items = vec[1] if vec[0] == "vec" else ()
        for (idx, ptr, h, _tok) in ghost:
            # representation-independent: the slot at the handle's index is a variant that holds the stashed pointer
            ok = idx < len(items) and items[idx][0] == "adt" and ptr in items[idx][3]
            if not ok:
                what = items[idx] if idx < len(items) else "missing (table has %d slots)" % len(items)
                holds_ptr = isinstance(what, tuple) and any(isinstance(x, tuple) and x and x[0] == "obj" for x in what[3])
                probs.setdefault("a live handle (index %d, %d handle(s)) no longer resolves to its stashed pointer: slot is %s" % (
                    idx, h, ("another pointer" if holds_ptr else "vacant") if isinstance(what, tuple) else what),
                    trail)
    while work:
        val, ghost, trail = work.pop()
        key = (val, ghost)
        if key in seen:
            continue
        seen.add(key)
        nstates += 1
        if len(trail) >= depth:
            continue
        ops = []
        if len(ghost) < max_live:
            ops.append(("add", None))
        for (idx, ptr, h, tok) in ghost:
            if h < max_handles:
                ops.append(("inc", idx))
            ops.append(("dec", idx))
        toks = {idx: tok for (idx, _p, _h, tok) in ghost}
        for (op, idx) in ops:
            st = State()
            st.mem[("slots",)] = val
            try:
                if op == "add":
                    p = fresh[len(trail)]
                    outs = ip.run(k["add"], [ref(("slots",), ()), p], st)
                else:
                    outs = ip.run(k[op], [ref(("slots",), ()), toks[idx]], st)
            except (interp.Unmodelled, interp.InterpError, IndexError) as e:
                probs.setdefault("could not be analysed: %s" % e, trail + ((op, idx),))
                continue
            ntrans += 1
            t2 = trail + ((op, idx),)
            rets = [o for o in outs if o.kind == "return"]
            if len(rets) != 1 or len(outs) != 1:
                probs.setdefault("%s panics / diverges in a state reachable by handle operations" % op, t2)
                continue
            o = rets[0]
            nv = o.st.mem[("slots",)]
            g = list(ghost)
            if op == "add":
                tok = o.value
                # the slot the token stands for: where the freshly stashed (unique) pointer sits
                vec = nv[3][si]
                at = [i for i, it in enumerate(vec[1] if vec[0] == "vec" else ()) if it[0] == "adt" and fresh[len(trail)] in it[3]]
                ni = at[0] if len(at) == 1 else None
                if ni is None or any(i == ni or tk == tok for (i, _, _, tk) in g):
                    probs.setdefault("add returned the index of a live handle (%s): slot reuse changes what a live handle "
                                     "resolves to" % (ni if ni is not None else _short_tok(tok)), t2)
                    continue
                g.append((ni, fresh[len(trail)], 1, tok))
            elif op == "inc":
                g = [(i, p_, h + 1, tk) if i == idx else (i, p_, h, tk) for (i, p_, h, tk) in g]
            else:
                g = [(i, p_, h - 1, tk) if i == idx else (i, p_, h, tk) for (i, p_, h, tk) in g]
                g = [x for x in g if x[2] > 0]
            g = tuple(sorted(g))
            check(nv, g, t2)
            work.append((nv, g, t2))
    for text, trail in sorted(probs.items())[:6]:
        chk.inst("slot-reachability", text[:120], False,
                 detail="%s; operation sequence from an empty table: %s" % (text, " ; ".join(
                     "%s(%s)" % (o, "" if i is None else i) for (o, i) in trail)))
    if not probs:
        chk.inst("slot-reachability", "all-reachable-slot-tables", True,
                 sample={"states": nstates, "transitions": ntrans, "depth": depth, "max_live_slots": max_live})
    chk.extra["slot_reachability"] = {"states": nstates, "transitions": ntrans, "depth": depth}


def _short_tok(t):
    return str(t)[:60]


def run_tables(chk, prog, config="default", maxlen=3):
    names = [f["name"] for f in prog.all_adts[SLOTS]["variants"][0]["fields"]]
    shape = [(v["name"], [f.get("ty_s") for f in v["fields"]]) for v in prog.all_adts[SLOT]["variants"]]
    link_ty = [f.get("ty_s") for f in prog.all_adts[SLOTS]["variants"][0]["fields"]][-1]
    reviewed = (names == ["slots", "next_free"] and link_ty in ("usize", "dynamic_roots::Index")
                and [n for n, _ in shape] == ["Vacant", "Occupied"] and shape[0][1] in (["usize"], ["dynamic_roots::Index"])
                and len(shape[1][1]) == 2 and shape[1][1][1] == "usize")
    if not reviewed:
        # the table constructor below builds states by hand for the reviewed representation (a Vec of
        # Vacant{next: usize} / Occupied{root, count: usize} and a usize free-list head); any other representation
        # is covered by the reachability exploration (slots.explore), which builds its states by running the code
        chk.note("Slots / Slot have the shape %s %s: hand-built slot tables skipped, reachability exploration applies" % (names, shape))
        return
    ip = Interp(prog, prims=prims(), strict=True)
    ip.lenient_std = False
    keys = {}
    for fn in ("add", "inc", "dec"):
        n = "dynamic_roots::Slots::" + fn
        if not chk.anchor(n, n in prog.seed_n):
            return
        keys[fn] = prog.seed_n[n][0]
    states = well_formed_states(maxlen)
    newp = ("obj", 99)
    nrows = 0
    for (slots, nf) in states:
        label = "[%s|free=%s]" % (",".join("V" if s[2] == 0 else "O%d" % s[3][1][1] for s in slots), "-" if nf == NULL else nf)
        # ---- add
        nrows += 1
        probs = []
        try:
            outs = ip.run(keys["add"], [ref(("slots",), ()), newp], mk(slots, nf))
        except (interp.Unmodelled, interp.InterpError) as e:
            chk.inst("slot-table:add", label, False, detail="could not be analysed: %s" % e)
            continue
        if len(outs) != 1 or outs[0].kind != "return":
            probs.append("add has outcomes %s on a well-formed table" % [(o.kind, [e for e in o.ev if e[0] == 'panic']) for o in outs])
        else:
            o = outs[0]
            s2, nf2 = read(o.st)
            idx = o.value[1] if o.value[0] == "i" else None
            if nf != NULL:
                want_idx = nf
                if idx != want_idx:
                    probs.append("add returned index %s, the free-list head is %s" % (idx, nf))
                elif s2[idx] != occupied(newp, 0):
                    probs.append("slot %s holds %s after add" % (idx, s2[idx]))
                if nf2 != slots[nf][3][0][1]:
                    probs.append("free-list head not advanced to the vacated slot's successor")
                if len(s2) != len(slots):
                    probs.append("table grew although a free slot existed")
            else:
                if idx != len(slots) or len(s2) != len(slots) + 1 or s2[-1] != occupied(newp, 0):
                    probs.append("add with an empty free list must push Occupied(p, 0) and return its index")
                if nf2 != NULL:
                    probs.append("free list changed")
            for i, s in enumerate(slots):
                if idx is not None and i != idx and i < len(s2) and s2[i] != s:
                    probs.append("add changed slot %d (%s): a live handle now resolves to something else" % (i, "occupied" if s[2] else "vacant"))
                if s[2] == 1 and i < len(s2) and s2[i] != s:
                    probs.append("add overwrote the occupied slot %d" % i)
        chk.inst("slot-table:add", label, not probs, detail="; ".join(sorted(set(probs))[:3]),
                 sample={"op": "add", "pre": label, "post": str(read(outs[0].st)) if outs else None} if nrows in (2, 30) else None)
        # ---- inc / dec on every index
        for i, s in enumerate(slots):
            for op in ("inc", "dec"):
                nrows += 1
                probs = []
                try:
                    outs = ip.run(keys[op], [ref(("slots",), ()), I(i)], mk(slots, nf))
                except (interp.Unmodelled, interp.InterpError) as e:
                    chk.inst("slot-table:" + op, "%s@%d" % (label, i), False, detail="could not be analysed: %s" % e)
                    continue
                if s[2] == 0:
                    # vacant: unreachable while the handle invariant holds; must not silently corrupt
                    if any(o.kind == "return" for o in outs):
                        probs.append("%s on a vacant slot returns normally" % op)
                else:
                    rc = s[3][1][1]
                    if len(outs) != 1 or outs[0].kind != "return":
                        probs.append("%s on an occupied slot: outcomes %s" % (op, [(o.kind) for o in outs]))
                    else:
                        s2, nf2 = read(outs[0].st)
                        if op == "inc":
                            want = occupied(s[3][0], rc + 1)
                            if s2[i] != want or nf2 != nf:
                                probs.append("inc must turn Occupied(rc=%d) into rc=%d and leave the free list alone" % (rc, rc + 1))
                        else:
                            if rc == 0:
                                if s2[i] != vacant(nf) or nf2 != i:
                                    probs.append("dec of the last handle must vacate the slot and push it on the free list "
                                                 "(slot=%s, head=%s)" % (s2[i], nf2))
                            else:
                                if s2[i] != occupied(s[3][0], rc - 1) or nf2 != nf:
                                    probs.append("dec with other handles alive (rc=%d) must only decrement (slot=%s)" % (rc, s2[i]))
                        for j, t in enumerate(slots):
                            if j != i and s2[j] != t:
                                probs.append("%s changed another slot" % op)
                chk.inst("slot-table:" + op, "%s@%d" % (label, i), not probs, detail="; ".join(sorted(set(probs))[:3]))
    chk.extra["slot_table_rows"] = nrows
    chk.extra["slot_table_states"] = len(states)
    chk.floor("slot-table-rows", nrows, 200)
