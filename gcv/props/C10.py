"""C10 — metrics are truthful (DESIGN.md §4 C10). Typestate credit invariant S4 on the automaton,
credit consistency on every table, count pairing by who-may-call, sign/shape analysis of
Metrics::allocation_debt."""
from gcv import typestate, cfg
from gcv.model import norm


def run_config(chk, tier, cfgname):
    prog, T = typestate.engine(cfgname)
    chk.explain("C10: (S4) on the per-object typestate automaton extracted from the MIR of the collector, "
                "`mark_gc_untraced` may only fire for an object holding an outstanding trace credit and "
                "`mark_gc_traced` only for one that holds none (no underflow of traced_gcs for any reachable "
                "colour/phase/needs-trace state, incl. barriers on non-tracing objects); every primitive's "
                "credits match the work it did (marked once per object leaving White, untraced once per "
                "Black->Gray re-queue); count pairing: mark_gc_allocated exactly once per link and only there, "
                "mark_gc_freed after every dealloc of a linked object; subtraction sites are confined; the debt "
                "formula, interpreted on opaque symbols, is clamped at zero on every path, zero for an empty arena (the "
                "first decision), non-decreasing in allocations and artificial debt (unit coefficient) and "
                "non-increasing in the five work counters; each mark_gc_* helper adds/subtracts its argument on the "
                "named counters only; adjust_debt adds its argument to artificial_debt and touches nothing else.")
    chk.not_decided += ["overflow of usize counters by addition (needs > 2^64 events)",
                        "finiteness of the debt under adjust_debt(+-inf/NaN)",
                        "equality of total_gc_count with an allocator-side count on concrete histories"]
    # credit consistency is part of every mutator-side spec: evaluate the tables that credit work
    for t in ("trace", "trace_weak", "resurrect", "backward_barrier", "backward_barrier_weak", "forward_barrier",
              "forward_barrier_weak", "mark_one", "sweep_one", "link", "drop_all"):
        typestate.apply(chk, "credits-match-work:" + t, t, aspects=("credits", "credits-over", "credits-under", "count", "panic"))
    typestate.report_automaton(chk, ["S4", "PANIC"])
    from gcv import rules_metrics, rules_debt
    rules_metrics.run(chk, prog)
    # debt is clamped / zero for an empty arena / monotone in its inputs; helper and adjust_debt shapes
    rules_debt.check_formula(chk, prog, for_c10=True)
    rules_debt.check_helpers(chk, prog)


def run(chk, tier):
    from gcv import heap_check
    heap_check.report(chk, tier, owns=("H6", "PANIC-mutator"))
    cfgs = typestate.configs(tier)
    chk.extra["feature_configs"] = cfgs
    for c in cfgs:
        chk.cfg = c
        n_expl = len(chk.explanation)
        nd = len(chk.not_decided)
        run_config(chk, tier, c)
        if c != cfgs[0]:
            del chk.explanation[n_expl:]
            del chk.not_decided[nd:]
    chk.cfg = None
