"""C13 — safe code cannot adopt a pointer without a barrier (DESIGN.md §4 C13): enumerate every way
safe code can obtain a &Write<T> or an unlocked cell and check each against a reviewed table."""
import re
from gcv import facts, model, witness
from gcv.props import common, C03 as c03
from gcv.model import norm

WRITE = "barrier::Write"
# R13.2: DerefWrite implementors. criterion: the pointee is owned exclusively by the pointer value, or 'static.
DEREF_EXCLUSIVE = {"alloc::boxed::Box": "owns its pointee exclusively", "alloc::vec::Vec": "owns its buffer exclusively"}
DEREF_SHARED_STATIC = {"alloc::rc::Rc": "shared ownership: sound only for 'static pointees",
                       "alloc::sync::Arc": "shared ownership: sound only for 'static pointees"}
# R13.3: IndexWrite implementors: owning std/alloc/hashbrown containers indexed by std index types
INDEX_SELF = {"slice", "array", "alloc::vec::Vec", "alloc::collections::vec_deque::VecDeque",
              "alloc::collections::btree::map::BTreeMap", "std::collections::hash::map::HashMap", "hashbrown::map::HashMap"}
UNLOCKERS = {"lock::Lock", "lock::RefLock", "lock::OnceLock"}
CELL_MUTATORS = ("core::cell::Cell::set", "core::cell::Cell::replace", "core::cell::Cell::take", "core::cell::Cell::swap",
                 "core::cell::Cell::update", "core::cell::Cell::as_array_of_cells",
                 "core::cell::Cell::as_slice_of_cells", "core::cell::RefCell::borrow_mut_unguarded", "core::cell::RefCell::try_borrow_unguarded",
                 "core::cell::RefCell::update", "core::cell::once::OnceCell::get_mut_or_init", "core::cell::once::OnceCell::get_mut_or_try_init",
                 "core::cell::RefCell::borrow_mut", "core::cell::RefCell::try_borrow_mut", "core::cell::RefCell::replace",
                 "core::cell::RefCell::take", "core::cell::RefCell::swap", "core::cell::RefCell::replace_with",
                 "core::cell::once::OnceCell::set", "core::cell::once::OnceCell::get_or_init",
                 "core::cell::once::OnceCell::take", "core::cell::once::OnceCell::try_insert",
                 "core::cell::once::OnceCell::get_or_try_init")
CELL_READERS = {"core::cell::Cell::get", "core::cell::Cell::as_ptr", "core::cell::Cell::new", "core::cell::Cell::into_inner",
                "core::cell::Cell::get_mut", "core::cell::RefCell::borrow", "core::cell::RefCell::try_borrow",
                "core::cell::RefCell::as_ptr", "core::cell::RefCell::new", "core::cell::RefCell::into_inner",
                "core::cell::RefCell::get_mut", "core::cell::once::OnceCell::get", "core::cell::once::OnceCell::new",
                "core::cell::once::OnceCell::into_inner", "core::cell::once::OnceCell::get_mut"}
TAKE_EXCEPTIONS = {"lock::Lock::take": "stores Default::default(), which cannot produce a branded pointer (lifetime parametricity)",
                   "lock::RefLock::take": "stores Default::default(), which cannot produce a branded pointer (lifetime parametricity)"}


def run(chk, tier):
    configs = ["default", "all"] if tier == "quick" else ["default", "nodefault", "all"]
    fx = facts.load_many(configs)
    chk.explain("C13: R13.1 the only producers of a Write reference are the reviewed transmute sites in barrier.rs; "
                "assume/__from_ref_and_ptr are unsafe, from_static demands T: 'static, from_mut takes &mut; Write is "
                "non_exhaustive + repr(transparent). R13.2 every DerefWrite implementor either owns its pointee "
                "exclusively or is restricted to 'static pointees. R13.3 every IndexWrite implementor is an owning "
                "std container with a std index type. R13.4 Unlock implementors = {Lock, RefLock, OnceLock}; raw "
                "cell accessors are unsafe. R13.5 every function in lock.rs reaching a mutating cell method is "
                "unsafe, takes &mut/self, goes through a barrier (C06 table), or is a reviewed Default-take. R13.6 no "
                "Collect impl for an interior-mutability type without 'static. R13.7 witnesses incl. the three "
                "use-after-free exploit programs (must be rejected). R13.8 every exported macro whose expansion "
                "contains `unsafe` and deals in Write / barrier items is in the reviewed table (field!), so no new "
                "macro can hand safe code a &Write projection or constructor unreviewed.")
    chk.not_decided += ["the closing meta-theorem 'every safe program satisfies C01' (argued in DESIGN.md §7 from "
                        "R13.1-R13.6)", "accepted probes are not run"]
    chk.extra["feature_configs"] = configs
    for c in configs:
        prog = model.Program(fx[c], c)
        write_producers(chk, prog, c)
        deref_write(chk, prog, c)
        index_write(chk, prog, c)
        unlock(chk, prog, c)
        lock_mutators(chk, prog, c)
        common.unsafe_macros(chk, prog, "C13", c)
    witness.report(chk, "C13", rule="witness", floor=21, tier=tier)


def _mentions_write(prog, tid):
    return "barrier::Write<" in prog.ty_s(tid)


def write_producers(chk, prog, c):
    prog.edges()
    a = prog.adts.get(WRITE)
    if chk.anchor(WRITE, a is not None):
        ne = a["variants"][0].get("non_exhaustive") or a.get("non_exhaustive")
        chk.inst("R13.1-write-shape", "%s[%s]" % (WRITE, c), bool(ne) and a.get("repr_transparent") and len(a["variants"][0]["fields"]) == 1,
                 detail="Write must be #[non_exhaustive] (no struct-literal forging) and repr(transparent) with one field; "
                        "non_exhaustive=%s transparent=%s" % (ne, a.get("repr_transparent")))
    producers = []
    for d_raw, key in prog.seed.items():
        b = prog.bodies[key]
        for bb in b["blocks"]:
            for s in bb["s"]:
                if s["k"] == "assign" and s["r"]["k"] == "cast" and _mentions_write(prog, s["r"]["ty"]) \
                        and not _mentions_write(prog, s["r"]["from"]) and not s["r"]["ck"].startswith("Coerce:Unsize"):
                    producers.append(norm(d_raw))
                if s["k"] == "assign" and s["r"]["k"] == "agg" and s["r"]["ak"].get("def") == WRITE:
                    producers.append(norm(d_raw))
    producers = sorted(set(producers))
    chk.floor("write-producers[%s]" % c, len(producers), 2)
    def guard_of(fn):
        f = (prog.fn_n.get(fn) or [None])[0]
        if f is None:
            return None
        if f.get("unsafe"):
            return "unsafe fn"
        ins = f.get("inputs") or []
        t0 = prog.ty(ins[0]["ty"]) if ins else {}
        if t0.get("k") == "ref" and t0.get("mut"):
            return "takes &mut T (exclusive access implies writability)"
        if t0.get("k") == "ref" and any(pr["k"] == "type_outlives" and pr["lt"] == "'static" and pr.get("ty") == t0.get("ty")
                                         for pr in f.get("predicates", [])):
            return "T: 'static on the referenced type (cannot hold branded pointers)"
        if ins and _mentions_write(prog, ins[0]["ty"]):
            return "receives a &Write on the container (a projection: its steps are R13.9's)"
        if any(x.callee in ("context::Mutation::backward_barrier",) for x in prog.calls_from(fn)):
            return "issues the backward barrier itself"
        return None
    entry = {f_["n"] for f_ in c03.entry_points(prog)}
    for p in producers:
        why = guard_of(p)
        ok = why is not None
        if not ok and p not in entry:
            # a private helper that only wraps the pointer: fine when every way to reach it goes through a guarded function
            allowed = {fn for fn in prog.fn_n if guard_of(fn)}
            if common.escapes(prog, p, allowed, entry) is None and list(prog.callers_of(p)):
                ok, why = True, "private helper reachable only through guarded producers"
        chk.inst("R13.1-write-producer-guarded", "%s[%s]" % (p, c), ok,
                 detail="`%s` manufactures a &Write from a plain reference from safe code without a 'static bound, "
                        "&mut access or an unsafe contract" % p,
                 sample={"producer": p, "guard": why})
    # callers of Write::assume inside the crate: every caller must itself hold a Write on the container, or barrier
    n = 0
    for e in prog.callers_of("barrier::Write::assume"):
        n += 1
        f = (prog.fn_n.get(prog.fn_of_closure(e.caller)) or [None])[0]
        ok = False
        if f is not None:
            ins = f.get("inputs") or []
            takes_write = bool(ins) and _mentions_write(prog, ins[0]["ty"])
            issues_barrier = any(x.callee in ("context::Mutation::backward_barrier",) for x in prog.calls_from(e.caller))
            # the same guards that license a producer license a caller of `assume` (a 'static referent, &mut access)
            ok = takes_write or issues_barrier or f.get("unsafe") or guard_of(prog.fn_of_closure(e.caller)) is not None
        chk.inst("R13.1-assume-callers", "%s[%s]" % (e.caller, c), ok,
                 detail="`%s` calls Write::assume without holding a &Write on the container or issuing a barrier" % e.caller,
                 loc="%s:%s" % (e.file, e.line))
    chk.floor("assume-call-sites[%s]" % c, n, 3)
    projection_steps(chk, prog, c)


# what a safe projection &Write<A> -> &Write<B> may go through besides pattern matching: the Write wrapper's own
# Deref, a Deref / Index step covered by the unsafe marker trait for that very type, and combinators that only
# re-wrap references (they cannot leave the storage owned by A)
PROJECTION_NEUTRAL = {
    "<barrier::Write as core::ops::deref::Deref>::deref", "barrier::Write::assume",
    "core::option::Option::as_ref", "core::option::Option::map", "core::result::Result::as_ref", "core::result::Result::map",
    "core::result::Result::map_err", "core::option::Option::ok_or", "core::option::Option::unwrap_unchecked",
}
CLOSURE_CALLS = ("core::ops::function::FnOnce::call_once", "core::ops::function::FnMut::call_mut", "core::ops::function::Fn::call")


def projection_steps(chk, prog, c):
    """R13.9: a function that turns a `&Write<A>` into a `&Write<B>` (it receives a Write and calls Write::assume without
    issuing a barrier) may reach B only through steps that stay inside storage exclusively owned by A. A `Deref` or
    `Index` step is allowed only under the marker bound `X: DerefWrite` / `X: IndexWrite<I>` for the very type it is
    applied to; std helpers that dereference (`Option::as_deref`, `AsRef`, `Borrow` ...) need the same bound and do not
    have it (seed C13-c: `as_deref_write` with `T: Deref`)."""
    n = 0
    seen = set()
    for e in prog.callers_of("barrier::Write::assume"):
        base = prog.fn_of_closure(e.caller)
        if base in seen:
            continue
        seen.add(base)
        fs = prog.fn_n.get(base) or []
        for f in fs:
            ins = f.get("inputs") or []
            if f.get("unsafe") or not (ins and _mentions_write(prog, ins[0]["ty"])):
                continue
            preds = {p_["s"].replace(" ", "") for p_ in f.get("predicates", [])}
            bad = []
            fns = [base] + sorted(k for k in prog.seed_n if k.startswith(base + "::{closure"))
            for fn in fns:
                for x in prog.calls_from(fn):
                    if x.kind == "drop":
                        continue
                    d = x.declared or x.callee or "<indirect>"
                    cal = x.callee or d
                    if cal in PROJECTION_NEUTRAL or d in PROJECTION_NEUTRAL or d in CLOSURE_CALLS or cal.startswith(base + "::{closure"):
                        continue
                    gargs = [prog.ty_s(a["ty"]).replace(" ", "") for a in x.term["f"].get("args", []) if "ty" in a]
                    if d == "core::ops::deref::Deref::deref" and gargs and ("%s:barrier::DerefWrite" % gargs[0]) in preds:
                        continue
                    if d == "core::ops::index::Index::index" and len(gargs) >= 2 and ("%s:barrier::IndexWrite<%s>" % (gargs[0], gargs[1])) in preds:
                        continue
                    if x.term.get("t") is None or cal.startswith(("core::panicking", "core::fmt")):
                        continue
                    bad.append("%s%s" % (d, ("::<%s>" % ", ".join(gargs)) if gargs else ""))
            n += 1
            chk.inst("R13.9-projection-steps", "%s[%s]" % (f["path"], c), not bad,
                     detail="`%s` projects a &Write through %s, a step that is not covered by a write-projection marker bound "
                            "(DerefWrite / IndexWrite for the very type it is applied to): the projected &Write can point into "
                            "storage that another, unbarriered object owns or shares" % (base, sorted(set(bad))[:3]),
                     sample={"projection": f["path"], "where": sorted(preds)[:6]})
    chk.floor("write-projections[%s]" % c, n, 3)


def _static_on_param(prog, im):
    t = prog.ty(im["self"])
    params = []
    if t.get("k") == "ref":
        params = [t["ty"]]
    elif t.get("k") == "adt":
        params = [a["ty"] for a in t.get("args", []) if "ty" in a][:1]
    return bool(params) and all(any(p["k"] == "type_outlives" and p["lt"] == "'static" and p["ty"] == pt
                                    for p in im["predicates"]) for pt in params)


def deref_write(chk, prog, c):
    n = 0
    for im in prog.impls:
        if im.get("trait") != "barrier::DerefWrite":
            continue
        n += 1
        t = prog.ty(im["self"])
        d = t.get("def") if t.get("k") == "adt" else t.get("k")
        if d in DEREF_EXCLUSIVE:
            ok, why = True, DEREF_EXCLUSIVE[d]
        elif d in DEREF_SHARED_STATIC or d == "ref":
            ok = _static_on_param(prog, im)
            why = "shared/borrowed pointee: requires a 'static pointee"
        else:
            ok, why = False, "unreviewed implementor"
        chk.inst("R13.2-deref-write-impls", "%s[%s]" % (im["self_s"], c), ok,
                 detail="`unsafe impl DerefWrite for %s`: %s — a &Write projected through it reaches storage that "
                        "other, unbarriered objects may share (use-after-free from safe code)" % (im["self_s"], why),
                 loc="%s:%s" % (im["span"]["f"], im["span"]["l"]),
                 sample={"impl": im["self_s"], "criterion": why, "predicates": [p["s"] for p in im["predicates"]]})
    chk.floor("DerefWrite-impls[%s]" % c, n, 2)


def index_write(chk, prog, c):
    n = 0
    for im in prog.impls:
        if im.get("trait") != "barrier::IndexWrite":
            continue
        n += 1
        t = prog.ty(im["self"])
        d = t.get("def") if t.get("k") == "adt" else t.get("k")
        idx = im["trait_args"][1] if len(im["trait_args"]) > 1 else {}
        it = prog.ty(idx["ty"]) if "ty" in idx else {}
        ik = it.get("k")
        idx_ok = ik in ("uint",) or (ik == "adt" and it["def"].startswith("core::ops::range::")) or ik == "ref" \
            or (ik == "param" and any(p["k"] == "trait" and p["trait"] == "barrier::IndexWrite" for p in im["predicates"]))
        why_not = ""
        if ik == "ref":
            # &Q: which `Index<&Q>` impl carries the Write must be pinned to the container's own - by the very relation
            # between key and query type that impl demands (K: Borrow<Q>; hashbrown: Q: Equivalent<K>). A bare
            # `Self: Index<&Q>` defers to *any* impl, and `&LocalType` is local enough for a downstream crate to write one
            # whose body goes through a Gc (seed C13-f)
            ps = [p["s"] for p in im["predicates"]]
            tied = any(re.search(r": core::borrow::Borrow<\w+>$", s_) or re.search(r": hashbrown::Equivalent<\w+>$", s_) for s_ in ps)
            idx_ok = tied
            if not tied:
                why_not = " (the index is a reference and no `K: Borrow<Q>` / `Q: Equivalent<K>` bound pins the container's own Index impl: predicates %s)" % ps
        ok = d in INDEX_SELF and idx_ok
        chk.inst("R13.3-index-write-impls", "%s as IndexWrite<%s>[%s]" % (im["self_s"], it.get("s"), c), ok,
                 detail="unreviewed `unsafe impl IndexWrite<%s> for %s`: Self must be an owning std container and the "
                        "index a std index type (no third-party Index impl may carry a Write)%s" % (it.get("s"), im["self_s"], why_not),
                 loc="%s:%s" % (im["span"]["f"], im["span"]["l"]))
    chk.floor("IndexWrite-impls[%s]" % c, n, 5)


def unlock(chk, prog, c):
    prog.edges()
    impls = sorted(prog.adt_of(im["self"]) or im["self_s"] for im in prog.impls if im.get("trait") == "barrier::Unlock")
    chk.inst("R13.4-unlock-impls", "barrier::Unlock[%s]" % c, set(impls) == UNLOCKERS,
             detail="Unlock implementors are %s, reviewed set is %s" % (impls, sorted(UNLOCKERS)))
    callers = sorted({prog.fn_of_closure(e.caller) for e in prog.edges()
                      if e.declared == "barrier::Unlock::unlock_unchecked" or (e.callee or "").endswith("as barrier::Unlock>::unlock_unchecked")})
    chk.inst("R13.4-unlock_unchecked-callers", "barrier::Unlock::unlock_unchecked[%s]" % c, callers == ["barrier::Write::unlock"],
             detail="unlock_unchecked is called from %s (must be only Write::unlock, which holds a &Write)" % callers)
    for name in ("lock::Lock::as_cell", "lock::RefLock::as_ref_cell"):
        fs = prog.fn_n.get(name) or []
        if chk.anchor(name, bool(fs)):
            chk.inst("R13.4-raw-cell-accessors-unsafe", "%s[%s]" % (name, c), all(f.get("unsafe") for f in fs),
                     detail="%s hands out the raw cell to safe code" % name)
    # any other safe pub fn of lock.rs returning a reference to a core cell type
    for f in prog.f["fns"]:
        if f["kind"] not in ("Fn", "AssocFn") or not f["span"]["f"].endswith("lock.rs"):
            continue
        out = f["output"]["s"]
        if ("&core::cell::" in out or "&'" in out and "core::cell::Cell<" in out or "core::cell::RefCell<" in out and out.startswith("&")) \
                and not f.get("unsafe") and (f.get("reachable") or f.get("exported")):
            t0 = prog.ty(f["inputs"][0]["ty"]) if f.get("inputs") else {}
            via_write = f.get("impl_trait") == "barrier::Unlock"
            chk.inst("R13.4-no-safe-raw-cell", "%s[%s]" % (f["n"], c), via_write or (t0.get("k") == "ref" and t0.get("mut")),
                     detail="safe fn `%s` returns `%s` from a shared reference" % (f["n"], out))


def lock_mutators(chk, prog, c):
    prog.edges()
    n = 0
    for f in prog.f["fns"]:
        if f["kind"] not in ("Fn", "AssocFn") or not f["span"]["f"].endswith("lock.rs"):
            continue
        def is_mut(c):
            # fail closed: every method of the std cell types that is not a reviewed reader counts as a mutator
            if c in CELL_MUTATORS:
                return True
            return bool(c) and c.startswith(("core::cell::Cell::", "core::cell::RefCell::", "core::cell::once::OnceCell::")) \
                and c not in CELL_READERS
        hits = [e for e in prog.calls_from(f["n"]) if is_mut(e.callee)]
        # closures of the function too
        for d in prog.seed_n:
            if d.startswith(f["n"] + "::{closure"):
                hits += [e for e in prog.calls_from(d) if is_mut(e.callee)]
        if not hits:
            continue
        n += 1
        ins = f.get("inputs") or []
        t0 = prog.ty(ins[0]["ty"]) if ins else {}
        reason = None
        if f.get("unsafe"):
            reason = "unsafe fn"
        elif t0.get("k") == "ref" and t0.get("mut"):
            reason = "takes &mut self"
        elif t0.get("k") == "adt" and t0["def"] in UNLOCKERS:
            reason = "takes self by value"
        elif f["n"] in TAKE_EXCEPTIONS:
            reason = "reviewed exception: " + TAKE_EXCEPTIONS[f["n"]]
        else:
            calls = {e.callee for e in prog.calls_from(f["n"])}
            for d in prog.seed_n:
                if d.startswith(f["n"] + "::{closure"):
                    calls |= {e.callee for e in prog.calls_from(d)}
            if "gc::Gc::unlock" in calls or "gc::Gc::write" in calls or "context::Mutation::backward_barrier" in calls:
                reason = "goes through a barrier (semantics decided by the C06 adoption table)"
        chk.inst("R13.5-lock-mutators-guarded", "%s[%s]" % (f["path"] if f["n"].startswith("lock::<impl") else f["n"], c),
                 reason is not None,
                 detail="safe fn `%s` in lock.rs mutates the wrapped cell (%s) through a shared reference without a "
                        "barrier" % (f["n"], hits[0].callee),
                 loc="%s:%s" % (f["span"]["f"], f["span"]["l"]), nontrivial=(reason or "").startswith("goes") or reason is None,
                 sample={"fn": f["n"], "mutator": hits[0].callee, "guard": reason})
    chk.floor("lock-mutator-fns[%s]" % c, n, 4)
