"""C03 — mutation xor collection (DESIGN.md §4 C03). Reachability + signature + ordering rules over
the resolved call graph; nothing is executed."""
from gcv import facts, model, cfg
from gcv.model import norm

K_BASE = [
    "context::Context::do_collection",
    "context::Context::mark_one",
    "context::Context::sweep_one",
    "gc_ptr::GcPtr::drop_in_place",
    "gc_ptr::GcPtr::trace_value",
]   # + the arena-drop walker (DropAll), resolved by shape per analysed program (Program.arena_drop_walker)
K_DEALLOC = "gc_ptr::GcPtr::dealloc"
CTX_DROP = "<context::Context as core::ops::drop::Drop>::drop"
BUILDER_DROP = "<gc::GcBuilder as core::ops::drop::Drop>::drop"
CALLBACK_TRAITS = ("core::ops::function::FnOnce::call_once", "core::ops::function::FnMut::call_mut",
                   "core::ops::function::Fn::call")


def exclusive_arena_sig(prog, f):
    """First parameter is `&mut Arena<_>` or a `MarkedArena<_>` by value (which wraps &mut Arena)."""
    ins = f.get("inputs") or []
    if not ins:
        return False
    t = prog.ty(ins[0]["ty"])
    if t.get("k") == "ref" and t.get("mut"):
        inner = prog.ty(t["ty"])
        return inner.get("k") == "adt" and inner["def"] == "arena::Arena"
    if t.get("k") == "adt" and t["def"] == "arena::MarkedArena":
        return True
    return False


def owns_context(prog, adt_path):
    a = prog.adts.get(adt_path)
    if not a:
        return False
    # own type tree (no refs) contains Context
    for v in a["variants"]:
        for f in v["fields"]:
            if "ty" in f and CTX_DROP_OWNER in _owned(prog, f["ty"]):
                return True
    return adt_path == CTX_DROP_OWNER


CTX_DROP_OWNER = "context::Context"


def _owned(prog, tid):
    out = set()
    stack = [tid]
    seen = set()
    while stack:
        t = stack.pop()
        if t in seen:
            continue
        seen.add(t)
        ty = prog.types[t]
        k = ty.get("k")
        if k == "adt":
            out.add(ty["def"])
            for a in ty.get("args", []):
                if "ty" in a:
                    stack.append(a["ty"])
            adt = prog.all_adts.get(ty["def"])
            if adt:
                for v in adt["variants"]:
                    for f in v["fields"]:
                        if "ty" in f:
                            stack.append(f["ty"])
        elif k in ("slice", "array"):
            stack.append(ty["ty"])
        elif k == "tuple":
            stack.extend(ty["elems"])
    return out


def entry_points(prog):
    out = []
    for f in prog.f["fns"]:
        if f["kind"] not in ("Fn", "AssocFn"):
            continue
        if f.get("impl_trait"):
            if f["impl_trait"] == "core::ops::drop::Drop":
                # a Drop impl is an entry point when safe client code can drop a value of the type
                # while a callback runs: public types that do not own the collector context.
                self_adt = None
                for im in prog.impls:
                    if im["id"] == f.get("impl"):
                        self_adt = prog.adt_of(im["self"])
                a = prog.adts.get(self_adt) if self_adt else None
                if a and a.get("reachable") and not owns_context(prog, self_adt):
                    out.append(f)
                continue
            out.append(f)
        elif f.get("reachable") or f.get("exported") or f.get("pub"):
            out.append(f)
    return out


def run(chk, tier):
    configs = ["default"] if tier == "quick" else ["default", "nodefault", "all"]
    fx = facts.load_many(configs)
    chk.explain("C03: (R1) every externally callable function (exported fn/method or trait-impl method) "
                "from which collection work K = {do_collection, mark_one, sweep_one, drop_in_place, "
                "trace_value, DropAll::drop} is reachable in the resolved call graph (calls, drop glue, "
                "closures, vtable slots) must demand exclusive access to the arena in its signature "
                "(&mut Arena / MarkedArena by value), or reach K only through the drop of the collector "
                "context; (R2) no K-reaching edge may precede or enclose a callback invocation in any "
                "function that invokes a caller-supplied closure; (R3) GcPtr::dealloc is reachable from "
                "other entry points only through GcBuilder's Drop; (R4) Mutation/Finalization/Context are "
                "never built by value outside Context::new and no cast manufactures a &mut Context.")
    chk.not_decided.append("destructors run by user Drop impls of non-arena values (outside the property)")
    chk.extra["feature_configs"] = configs
    total_entries = 0
    for cfgname in configs:
        prog = model.Program(fx[cfgname], cfgname)
        prog.edges()
        K = K_BASE + prog.arena_drop_walkers()
        for a in K + [K_DEALLOC, CTX_DROP, BUILDER_DROP]:
            chk.anchor(a, a in prog.seed_n, "(config %s)" % cfgname)
        eps = entry_points(prog)
        total_entries += len(eps)
        kset = set(K)
        n_reaching = 0
        for f in eps:
            n = f["n"]
            pred = prog.reachable_from([n])
            hit = [k for k in K if k in pred and k != n]
            if not hit:
                chk.inst("R1-entry-reach", "%s[%s]" % (n, cfgname), True, nontrivial=False)
            else:
                n_reaching += 1
                if exclusive_arena_sig(prog, f):
                    chk.inst("R1-entry-reach", "%s[%s]" % (n, cfgname), True,
                             sample={"entry": n, "reaches": hit[0], "allowed_by": "exclusive arena signature",
                                     "path": prog.path_to(pred, hit[0])})
                else:
                    # allowed only if K is reached exclusively through the drop of the context
                    pred2 = prog.reachable_from([n], stop={CTX_DROP})
                    hit2 = [k for k in K if k in pred2 and k != n]
                    ok = not hit2
                    if ok:
                        chk.inst("R1-entry-reach", "%s[%s]" % (n, cfgname), True,
                                 sample={"entry": n, "reaches_only_via": CTX_DROP})
                    else:
                        e = pred2[hit2[0]]
                        # report the culprit edge (the call that enters collection work), once
                        chk.inst("R1-entry-reach", "%s -> %s" % (e.caller, hit2[0]), False,
                                 detail="externally callable `%s` reaches collection work `%s` without requiring "
                                        "exclusive access to the arena: %s" % (
                                            n, hit2[0], " -> ".join(prog.path_to(pred2, hit2[0]))),
                                 loc="%s:%s" % (e.file, e.line))
            # R3 dealloc only through GcBuilder::drop (for entries not allowed to collect)
            if not exclusive_arena_sig(prog, f):
                pred3 = prog.reachable_from([n], stop={BUILDER_DROP, CTX_DROP})
                ok = K_DEALLOC not in pred3 or n == K_DEALLOC
                if ok:
                    chk.inst("R3-dealloc-route", "%s[%s]" % (n, cfgname), True,
                             nontrivial=(K_DEALLOC in prog.reachable_from([n])))
                else:
                    e = pred3[K_DEALLOC]
                    chk.inst("R3-dealloc-route", "%s -> %s" % (e.caller, K_DEALLOC), False,
                             detail="`%s` reaches GcPtr::dealloc other than through GcBuilder::drop / context drop: %s" % (
                                 n, " -> ".join(prog.path_to(pred3, K_DEALLOC))),
                             loc="%s:%s" % (e.file, e.line))
        chk.floor("entries-reaching-K[%s]" % cfgname, n_reaching, 3)

        # R2: ordering inside callback-invoking functions
        n_cb = 0
        for d_raw, key in prog.seed.items():
            b = prog.bodies[key]
            d = norm(d_raw)
            cb_blocks = []
            for bi, bb in enumerate(b["blocks"]):
                t = bb["t"]
                if t and t["k"] == "call" and not t["f"].get("indirect"):
                    if norm(t["f"]["def"]) in CALLBACK_TRAITS and not t["f"].get("resolved"):
                        cb_blocks.append(bi)
            if not cb_blocks:
                continue
            if not d.startswith("arena::"):
                continue
            n_cb += 1
            bad = None
            for e in prog.calls_from(d):
                if e.bb in cb_blocks and e.kind != "drop":
                    continue
                tgt = e.callee
                if tgt is None:
                    continue
                pr = prog.reachable_from([tgt])
                if any(k in pr for k in K):
                    # the edge leads to collection work: it must not be able to reach a callback call
                    r = cfg.reach_from(b, [e.bb], unwind=True, skip_first=(e.kind != "drop"))
                    if e.kind == "drop":
                        r = cfg.reach_from(b, [e.bb], unwind=True, skip_first=True)
                    if any(c in r for c in cb_blocks):
                        bad = e
                        break
            chk.inst("R2-no-collection-before-callback", "%s[%s]" % (d, cfgname), bad is None,
                     detail="in `%s` a call/drop reaching collection work (%s at line %s) can be followed by the "
                            "callback invocation" % (d, bad.callee if bad else "", bad.line if bad else ""),
                     loc="%s:%s" % (b["span"]["f"], bad.line if bad else b["span"]["l"]),
                     sample={"fn": d, "callback_blocks": cb_blocks})
        chk.floor("callback-taking-fns[%s]" % cfgname, n_cb, 4)

        # R4: by-value construction / casts
        ctors = {"context::Mutation": [], "context::Finalization": [], "context::Context": []}
        casts = []
        for d_raw, key in prog.seed.items():
            b = prog.bodies[key]
            for bi, bb in enumerate(b["blocks"]):
                for s in bb["s"]:
                    if s["k"] != "assign":
                        continue
                    r = s["r"]
                    if r["k"] == "agg" and r["ak"].get("def") in ctors:
                        ctors[r["ak"]["def"]].append((norm(d_raw), s["l"]))
                    if r["k"] == "cast" and _is_mut_ctx_ptr(prog, r["ty"]) and not _is_mut_ctx_ptr(prog, r["from"]):
                        casts.append((norm(d_raw), s["l"], prog.ty_s(r["from"]), prog.ty_s(r["ty"])))
        for adt in ("context::Mutation", "context::Finalization"):
            chk.inst("R4-no-by-value-construction", "%s[%s]" % (adt, cfgname), not ctors[adt],
                     detail="%s constructed by value at %s" % (adt, ctors[adt]))
        others = [c for c in ctors["context::Context"] if c[0] != "context::Context::new"]
        chk.inst("R4-context-constructed-only-in-new", "context::Context[%s]" % cfgname,
                 not others and len(ctors["context::Context"]) >= 1,
                 detail="Context aggregate sites: %s" % ctors["context::Context"])
        chk.inst("R4-no-mut-context-cast", "crate[%s]" % cfgname, not casts,
                 detail="cast manufacturing a mutable Context pointer: %s" % casts)
    # positive control for the cast matcher (synthetic type table)
    class _P:
        types = [{"k": "adt", "def": "context::Context", "s": "context::Context"},
                 {"k": "ref", "mut": True, "ty": 0, "s": "&mut context::Context"},
                 {"k": "ref", "mut": False, "ty": 0, "s": "&context::Context"}]

        def ty(self, i):
            return self.types[i]
    chk.control("mut-context-cast-matcher", _is_mut_ctx_ptr(_P(), 1) and not _is_mut_ctx_ptr(_P(), 2))
    chk.extra["functions_analysed"] = total_entries
    # a value handed to an allocation function must be moved into the block, not destructed by that function
    # (it would be a destructor of an arena value running inside a callback)
    from gcv import rules_builder
    rules_builder.value_moved_into_block(chk, model.Program(fx["default"], "default"))
    rules_builder.block_exposed_only_after_disarm(chk, model.Program(fx["default"], "default"))
    chk.extra["K"] = K


def _is_mut_ctx_ptr(prog, tid):
    t = prog.ty(tid)
    if t.get("k") in ("ref", "ptr") and t.get("mut"):
        inner = prog.ty(t["ty"])
        return inner.get("k") == "adt" and inner["def"] == "context::Context"
    return False
