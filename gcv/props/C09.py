"""C09 — pacing (DESIGN.md §4 C09): the structural clauses only; the inequalities are not decided."""
from gcv import typestate, rules_debt
from gcv.props import common


def run_config(chk, tier, cfgname):
    prog, T = typestate.engine(cfgname)
    chk.explain("C09 (structural clauses only): exit structure of the debt-driven calls from the abstract reachability "
                "of do_collection's MIR: the debt is consulted before any phase switch or unit of work (zero debt => no "
                "progress, stays asleep), re-checked after every unit of work, and a PayDebt call returns from "
                "Mark/Sweep only after a debt test that was false or at its documented stop condition; "
                "finish_cycle(reset_debt) receives exactly 'an atomic full cycle was performed'; every unit of work is "
                "credited at most once (credit consistency of every transition table); the debt formula interpreted on "
                "opaque symbols: each work counter enters negatively weighted by its namesake pacing factor, "
                "allocations and artificial debt positively with unit coefficient, the wake-up amount negatively; "
                "finish_cycle zeroes the six cycle counters, stores max(remembered*sleep_factor, min_sleep) (ordering "
                "domain: f64::max as a lattice primitive) and carries debt over iff reset_debt is false.")
    chk.not_decided += ["the bound 'fewer than rho*H/(1-rho) allocations' and 'heap stays within a constant factor' "
                        "(arithmetic over unbounded counters: a proof/solver task, another family)",
                        "that the survivors counted in remembered_gcs are the documented quantity for concrete workloads",
                        "non-finite pacing values (NaN / infinite factors): the sign analysis behind the zero-debt and "
                        "wake-up-threshold clauses assumes finite values, as the pacing documentation does"]
    chk.explain("C09 (finished cycles, decided on terms with a sign analysis): right after a roll-over that forgets the debt - "
                "what the driver does after an atomic full cycle - allocation_debt is zero on every path; with `a` allocations "
                "since and no work done it is exactly max(a - max(survivors * sleep_factor, min_sleep), 0): zero while asleep, "
                "positive once the allocations exceed the wake-up amount.")
    common.protocol_rows(chk, prog, "exit-structure", ["collect_debt", "mark_debt", "cycle_debt"], with_pacing=True, aspects=("pacing",))
    # its own rule name, so that a finding recorded against it cannot mask an exit-structure problem of the same row
    common.protocol_rows(chk, prog, "no-yield-between-last-sweep-step-and-roll-over", ["collect_debt", "cycle_debt"], with_pacing=True,
                         general=False, per_method=False, aspects=("stw",))
    for t in ("trace", "trace_weak", "resurrect", "mark_one", "sweep_one", "backward_barrier", "forward_barrier", "link"):
        typestate.apply(chk, "credited-at-most-once:" + t, t, aspects=("credits", "credits-over", "credits-repeat"))
    rules_debt.check_formula(chk, prog)
    rules_debt.check_predicates(chk, prog)
    rules_debt.check_finish_cycle(chk, prog)
    rules_debt.check_sleep(chk, prog)
    rules_debt.check_helpers(chk, prog)


def run(chk, tier):
    cfgs = typestate.configs(tier)
    chk.extra["feature_configs"] = cfgs
    for c in cfgs:
        chk.cfg = c
        n_expl = len(chk.explanation)
        nd = len(chk.not_decided)
        run_config(chk, tier, c)
        if c != cfgs[0]:
            del chk.explanation[n_expl:]
            del chk.not_decided[nd:]
    chk.cfg = None
