"""C17 — allocation layout integrity (DESIGN.md §4 C17): agreement and no-arithmetic clauses."""
from gcv import facts, model, rules_ptr, layout_terms


def run(chk, tier):
    configs = ["default"] if tier == "quick" else ["default", "nodefault", "all"]
    fx = facts.load_many(configs)
    chk.explain("C17: (1) request/release agreement by sibling term agreement: GcPtr::alloc and the GcVtable dealloc "
                "closure are interpreted on uninterpreted, value-numbered terms; the Layout given to alloc::alloc and "
                "to alloc::dealloc must be the same term, the released address must be value - offset for the same "
                "offset term, the per-value metadata must be read at the address it was written to, the header is "
                "written/read at value - size_of::<GcHeader>(); prefix_header_layout returns Layout::extend "
                "unmodified. (2) flag encoding: the header accessors' own MIR (Cell::update, tagged_ptr helpers and "
                "their closures) is interpreted on an abstract address (opaque base, low 4 bits tracked, alignment "
                "read from GcVtable's layout) for all 16 tag states x 8 setter calls: every getter returns what its "
                "setter stored, the other attributes and the untagged vtable pointer are unchanged. (3) every "
                "conversion between fat/thin/raw representations is free of address arithmetic.")
    chk.not_decided += ["alignment of the returned pointer and disjointness of the value bytes from the header for "
                        "every (size, align): numeric facts about Layout::extend/pad_to_align (trusted std contract)",
                        "stability of the address across collections beyond 'no function writes a GcPtr into an object "
                        "other than list links' (no moving code exists)"]
    chk.extra["feature_configs"] = configs
    for c in configs:
        prog = model.Program(fx[c], c)
        layout_terms.agreement(chk, prog, c)
        layout_terms.meta_written_only_at_allocation(chk, prog, c)
        if c == "default":
            # the per-value metadata is written for the strategy P the builder is made with and read back through the P
            # of the finished Gc: the builder must not change P (or M) in between (F16)
            from gcv import rules_builder
            rules_builder.builders_invariant_in_value_type(chk, prog, rule="builders-invariant-in-metadata-strategy")
        layout_terms.flag_encoding(chk, prog, c)
        layout_terms.value_layouts(chk, prog, c)
        rules_ptr.cast_only(chk, prog, config=c)
