"""C12 — brand isolation (DESIGN.md §4 C12): variance / impl / predicate facts from the type-checked
program, re-branding inventory with dominance, and the escape corpus (compile-fail witnesses with twins)."""
from gcv import facts, model, cfg, witness, rules_roots
from gcv.props import common
from gcv.model import norm

BRANDED = ["gc::Gc", "gc_weak::GcWeak", "context::Mutation", "context::Finalization", "dynamic_roots::DynamicRootSet",
           "gc::GcBuilder", "zst_cache::ZstCache", "slice::GcSliceWithHeaderBuilder",
           "slice::GcSliceWithHeaderSliceBuilder", "slice::GcSliceBuilder", "slice::GcStrBuilder"]
# lifetime parameters that are plain borrows, not brands (one line of reason each)
BORROW_LIFETIMES = {
    ("arena::MarkedArena", "'a"): "borrow of the arena (&'a mut Arena<R>), not a brand",
}
INTERIOR = ("core::cell::Cell", "core::cell::RefCell", "core::cell::UnsafeCell", "core::cell::once::OnceCell",
            "core::cell::lazy::LazyCell", "std::sync::poison::mutex::Mutex", "std::sync::poison::rwlock::RwLock",
            "std::sync::mutex::Mutex", "std::sync::rwlock::RwLock", "std::sync::once_lock::OnceLock")
REBRAND_FNS = {
    "dynamic_roots::DynamicRootSet::stash": "erases the brand of a pointer whose invariant 'gc matches the set's",
    "dynamic_roots::DynamicRootSet::fetch": "re-brands after contains() (dominance checked)",
    "dynamic_roots::DynamicRootSet::try_fetch": "re-brands after contains() (dominance checked)",
    "dynamic_roots::DynamicRootSet::contains": "address comparison only",
    "dynamic_roots::DynamicRoot::as_ptr": "documented unsafe-to-use raw pointer accessor (returns *const)",
}


def run(chk, tier):
    configs = ["default"] if tier == "quick" else ["default", "nodefault", "all"]
    fx = facts.load_many(configs)
    chk.explain("C12: (1) variances_of: every lifetime parameter of every public type of the crate is invariant "
                "(reviewed borrow-lifetime exceptions aside), floor 11 branded types; (2) every Collect impl for a "
                "reference or an interior-mutability type carries a 'static predicate, and every lifetime in the Self type of "
                "any Collect impl is 'static or the brand of a type of this crate (no Collect at a free lifetime for "
                "references or foreign borrowing types such as Cow/Ref); (3) the complete inventory "
                "of lifetime-only transmutes is confined to the reviewed dynamic-root functions; fetch/try_fetch, "
                "interpreted from MIR with contains() answered both ways, hand out the re-branded pointer exactly when "
                "it said yes, and contains(), interpreted on terms, is the identity comparison of the set's Rc with the "
                "handle's Weak slot table; (4) no exported function returns a branded type at "
                "'static or with a lifetime that occurs in none of its inputs (builders, which are unlinked allocations, "
                "and raw pointers aside), and every exported macro whose expansion contains `unsafe` (static_collect!, dyn_collect!, "
                "unsize!; the Write-related ones belong to C13) is in the reviewed table; (5) the escape corpus: each violating client program is rejected by rustc for the "
                "expected reason and its twin (differing only in the offending lines) compiles.")
    chk.not_decided += ["soundness of rustc's lifetime checking (trusted)", "programs using unsafe (outside the property)"]
    chk.extra["feature_configs"] = configs
    for c in configs:
        prog = model.Program(fx[c], c)
        variance(chk, prog, c)
        static_impls(chk, prog, c)
        collect_impl_lifetimes(chk, prog, c)
        rebrand(chk, prog, c)
        static_returns(chk, prog, c)
        free_output_lifetimes(chk, prog, c)
        brand_provenance(chk, prog, c)
        root_collect_bound(chk, prog, c)
        constructors_demand_collect(chk, prog, c)
        arena_not_an_unsizing_target(chk, prog, c)
        common.unsafe_macros(chk, prog, "C12", c)
    res = witness.report(chk, "C12", rule="escape-corpus", floor=80, tier=tier)
    witness.report(chk, "C03", rule="exclusive-access-witness", floor=5, tier=tier)


def variance(chk, prog, c):
    n = 0
    for path, a in sorted(prog.adts.items()):
        if not a.get("reachable"):
            continue
        for g in a["generics"]:
            if g["kind"] != "lifetime":
                continue
            if (path, g["name"]) in BORROW_LIFETIMES:
                chk.inst("variance", "%s<%s>[%s]" % (path, g["name"], c), True, nontrivial=False)
                continue
            n += 1
            chk.inst("variance", "%s<%s>[%s]" % (path, g["name"], c), g["variance"] == "o",
                     detail="lifetime parameter %s of public type %s has variance `%s` (must be invariant `o`): the "
                            "brand can be coerced and pointers of different arenas/callbacks mixed" % (
                                g["name"], path, g["variance"]),
                     loc="%s:%s" % (a["span"]["f"], a["span"]["l"]),
                     sample={"type": path, "param": g["name"], "variance": g["variance"]})
    for b in BRANDED:
        chk.anchor(b, b in prog.adts, "(config %s)" % c)
        a = prog.adts.get(b)
        if a and not any(g["kind"] == "lifetime" for g in a["generics"]):
            chk.inst("variance", "%s[%s]" % (b, c), False, detail="branded type %s lost its brand lifetime" % b)
    chk.floor("invariant-brands[%s]" % c, n, 6)


def static_impls(chk, prog, c):
    n = 0
    for im in prog.impls:
        if im.get("trait") != "collect::Collect":
            continue
        t = prog.ty(im["self"])
        need = None
        if t.get("k") == "ref":
            need = "reference"
            ok_lt = t.get("lt") == "'static"
            inner = prog.ty(t["ty"])
            ok = ok_lt and any(p["k"] == "type_outlives" and p["lt"] == "'static" and p["ty"] == t["ty"]
                               for p in im["predicates"])
        elif t.get("k") == "adt" and (t["def"] in INTERIOR or t["def"] == "static_wrapper::Static"):
            need = t["def"]
            params = [a["ty"] for a in t.get("args", []) if "ty" in a]
            ok = all(any(p["k"] == "type_outlives" and p["lt"] == "'static" and p["ty"] == pt for p in im["predicates"])
                     for pt in params) or any(p["k"] == "type_outlives" and p["lt"] == "'static" and p["ty"] == im["self"]
                                              for p in im["predicates"])
        if need is None:
            continue
        n += 1
        chk.inst("static-only-collect-impl", "%s[%s]" % (im["self_s"], c), ok,
                 detail="`impl Collect for %s` lacks the 'static bound: a %s holding branded pointers would be "
                        "accepted as (untraced / unbarriered) arena data" % (im["self_s"], need),
                 loc="%s:%s" % (im["span"]["f"], im["span"]["l"]),
                 sample={"impl": im["self_s"], "predicates": [p["s"] for p in im["predicates"]]})
    chk.floor("static-only-impls[%s]" % c, n, 2)


def _lifetime_positions(prog, tid, out, seen):
    """(lifetime, position kind, holder) for every lifetime occurring in the type tree of tid."""
    if tid in seen:
        return
    seen.add(tid)
    t = prog.ty(tid)
    k = t.get("k")
    if k == "ref":
        out.append((t.get("lt"), "reference", t["s"]))
        _lifetime_positions(prog, t["ty"], out, seen)
    elif k == "adt":
        for a in t.get("args", []):
            if "lt" in a:
                out.append((a["lt"], "local-adt" if t.get("local") else "foreign-adt", t["def"]))
            elif "ty" in a:
                _lifetime_positions(prog, a["ty"], out, seen)
    elif k in ("ptr", "slice", "array"):
        _lifetime_positions(prog, t["ty"], out, seen)
    elif k == "tuple":
        for e in t.get("elems", []):
            _lifetime_positions(prog, e if isinstance(e, int) else e.get("ty"), out, seen)
    elif k in ("dyn", "alias", "fnptr", "closure"):
        import re as _re
        local_dyn = k == "dyn" and not _re.search(r"dyn (core|alloc|std)::", t["s"])
        for lt in _re.findall(r"'[A-Za-z_][A-Za-z0-9_]*", t["s"]):
            out.append((lt, "local-dyn" if local_dyn else k, t["s"]))


def collect_impl_lifetimes(chk, prog, c):
    """Every lifetime in the Self type of an `impl Collect<'gc>` is 'static (literally or by an outlives
    predicate) or is the brand itself in a type of this crate. A reference, or a foreign type with a
    lifetime parameter (Cow<'a, _>, Ref<'a, _>, slice iterators ...), that is Collect at a free lifetime can
    be instantiated at the brand and smuggles a `&'gc T` (Gc::as_ref) into the root."""
    n = 0
    for im in prog.impls:
        if im.get("trait") != "collect::Collect":
            continue
        brand = [a["lt"] for a in im["trait_args"] if "lt" in a]
        pos = []
        _lifetime_positions(prog, im["self"], pos, set())
        for (lt, kind, holder) in pos:
            n += 1
            static = lt == "'static" or any(p["s"].replace(" ", "") == "%s:'static" % lt for p in im["predicates"])
            is_brand = lt in brand and kind in ("local-adt", "local-dyn")
            chk.inst("collect-impl-lifetimes", "%s:%s[%s]" % (im["self_s"], lt, c), static or is_brand,
                     detail="`impl Collect for %s`: lifetime %s occurs in a %s (%s) and is neither 'static nor the brand of "
                            "a type of this crate: it can be instantiated at the brand, so a `&'gc T` obtained from "
                            "Gc::as_ref can be stored (untraced) in the root and outlive its callback" % (
                                im["self_s"], lt, kind, holder),
                     loc="%s:%s" % (im["span"]["f"], im["span"]["l"]),
                     sample={"impl": im["self_s"], "lifetime": lt, "position": kind})
    chk.floor("collect-impl-lifetimes[%s]" % c, n, 4)


def rebrand_inventory(chk, prog, c, rule="rebrand-inventory"):
    sites = []
    for d_raw, key in prog.seed.items():
        b = prog.bodies[key]
        for bi, bb in enumerate(b["blocks"]):
            for s in bb["s"]:
                if s["k"] == "assign" and s["r"]["k"] == "cast" and s["r"]["ck"].startswith("Transmute") \
                        and s["r"]["from"] == s["r"]["ty"] and not s.get("x"):
                    sites.append((norm(d_raw), bi, key))
    fns = sorted({s[0] for s in sites})
    # a private helper that is reachable only through the reviewed functions is part of them: fetch / try_fetch are
    # interpreted end to end (helpers included) by the fetch-contract rule
    from gcv.props import common
    extra = [f for f in fns if prog.fn_of_closure(f) not in REBRAND_FNS
             and common.escapes(prog, prog.fn_of_closure(f), set(REBRAND_FNS)) is not None]
    chk.inst(rule, "lifetime-only-transmutes[%s]" % c, not extra,
             detail="lifetime-only transmute (re-branding) reachable without going through the reviewed functions: %s" % extra,
             sample={"sites": fns})
    chk.floor("rebrand-sites[%s]" % c, len(sites), 3)
    return sites


def rebrand(chk, prog, c):
    prog.edges()
    rebrand_inventory(chk, prog, c)
    # the brand of a handle's pointer is restored only after contains() said yes, and contains() decides by
    # the identity of the slot table (interpreted from MIR; shared with C14 / C20)
    rules_roots.fetch_rules(chk, prog, c, rule="fetch-contract")
    rules_roots.contains_identity(chk, prog, c, rule="handle-identity-check")


# builder types are *unlinked* allocations: their brand can be chosen freely at construction because completing
# them needs a `&Mutation` of the very same brand (assume_init / write / write_slice_with / copy_*)
FREE_BRAND_OK = ("gc::GcBuilder<", "slice::GcSliceWithHeaderBuilder<", "slice::GcSliceWithHeaderSliceBuilder<",
                 "slice::GcSliceBuilder<", "slice::GcStrBuilder<")


def free_output_lifetimes(chk, prog, c):
    """An exported safe function whose return type carries a lifetime that occurs in none of its inputs lets the
    caller pick that lifetime ('static included): for a branded value or a reference this is an escape hatch."""
    import re as _re
    n = 0
    for f in prog.f["fns"]:
        if f["kind"] not in ("Fn", "AssocFn") or not (f.get("reachable") or f.get("exported")) or f.get("unsafe"):
            continue
        if "out_regions" not in f:
            chk.anchor("fn signature regions from the driver", False, "(config %s)" % c)
            return
        n += 1
        extra = sorted(set(f["out_regions"]) - set(f["in_regions"]))
        if not extra:
            chk.inst("no-free-output-lifetime", "%s[%s]" % (f["n"], c), True, nontrivial=False)
            continue
        out = f["output"]["s"]
        names = [e.split("/")[0] for e in extra]
        # shorter-than-an-input lifetimes are harmless: `'x: 'a` with 'x occurring in an input
        in_names = {e.split("/")[0] for e in f["in_regions"]}
        bounded = {nm for nm in names for p in f["predicates"]
                   if _re.match(r"^\s*(\'\w+)\s*:\s*%s\s*$" % _re.escape(nm), p["s"]) and _re.match(r"^\s*(\'\w+)", p["s"]).group(1) in in_names}
        names = [nm for nm in names if nm not in bounded]
        ok = not names or out.startswith(FREE_BRAND_OK) or out.startswith(("*const ", "*mut "))
        chk.inst("no-free-output-lifetime", "%s[%s]" % (f["n"], c), ok,
                 detail="exported safe fn `%s` returns `%s`: lifetime(s) %s occur in none of its inputs, so the caller "
                        "chooses them freely - a branded value or reference at 'static outlives every callback" % (
                            f["n"], out, names),
                 loc="%s:%s" % (f["span"]["f"], f["span"]["l"]),
                 sample={"fn": f["n"], "output": out, "free": names})
    chk.floor("exported-safe-fns[%s]" % c, n, 80)


def brand_provenance(chk, prog, c):
    """A brand can only come from a brand. In the return type of an exported safe function - and in the argument types
    of its own, not higher-ranked, closure bounds - every lifetime standing in a *brand position* (the invariant
    lifetime argument of Gc / GcWeak / Mutation / Finalization / DynamicRootSet .., or the lifetime of a
    `<R as Rootable<'x>>::Root` projection) must stand in a brand position of an input: then the caller holds a value
    of that brand already. A brand tied to anything else - the borrow of the arena, say - is chosen by the caller,
    and two arenas' borrows unify to one region (`mem::swap(a.root_mut(), b.root_mut())`). Generative brands are the
    bound regions of `for<'gc>` closure bounds; unlinked builders may pick their brand freely (completing them needs
    a `&Mutation` of the same brand)."""
    n = 0
    for f in prog.f["fns"]:
        if f["kind"] not in ("Fn", "AssocFn") or not (f.get("reachable") or f.get("exported")) or f.get("unsafe"):
            continue
        if "out_brands" not in f:
            chk.anchor("fn signature brand regions from the driver", False, "(config %s)" % c)
            return
        n += 1
        have = set(f["in_brands"])
        out = f["output"]["s"]
        free_out = sorted(set(f["out_brands"]) - have)
        if out.startswith(FREE_BRAND_OK) or out.startswith(("*const ", "*mut ")):
            free_out = []
        # bound regions ('^n..) of a higher-ranked closure bound are generative
        free_cb = sorted(r for r in set(f["fn_bound_brands"]) - have if not r.startswith("'^"))
        probs = []
        if free_out:
            probs.append("returns `%s`, whose brand lifetime(s) %s stand in no brand position of an input" % (
                out, [r.split("/")[0] for r in free_out]))
        if free_cb:
            probs.append("passes values branded %s to a closure bound that is not higher-ranked over the brand" % (
                [r.split("/")[0] for r in free_cb],))
        chk.inst("brand-provenance", "%s[%s]" % (f["n"], c), not probs,
                 detail="exported safe fn `%s` %s: the caller chooses the brand (for instance the lifetime of a borrow of the "
                        "arena), so values of two arenas can be given the same brand and exchanged" % (f["n"], "; ".join(probs)),
                 loc="%s:%s" % (f["span"]["f"], f["span"]["l"]),
                 nontrivial=bool(f["out_brands"] or f["fn_bound_brands"]),
                 sample={"fn": f["n"], "output": out, "out_brands": f["out_brands"], "in_brands": f["in_brands"]} if f["out_brands"] else None)
    chk.floor("exported-safe-fns-brand-provenance[%s]" % c, n, 80)


def root_collect_bound(chk, prog, c):
    """The root is stored at the brand 'static inside the arena; what makes an untraced `&'gc T` / `Cell<Gc>` root
    unacceptable is that the collecting methods demand `for<'a> Root<'a>: Collect<'a>` - for EVERY brand, not for
    the one the library happens to instantiate. A bound checked at a single lifetime accepts such roots through
    the 'static-only impls."""
    import re as _re
    n = 0
    for m in ("collect_debt", "mark_debt", "finish_marking", "cycle_debt", "finish_cycle"):
        for f in prog.fn_n.get("arena::Arena::" + m, []):
            n += 1
            hr = [p["s"] for p in f["predicates"]
                  if _re.match(r"^for<(\'\w+)> .*Root: collect::Collect<\1>$", p["s"])]
            chk.inst("collecting-methods-demand-collect-for-every-brand", "arena::Arena::%s[%s]" % (m, c), bool(hr),
                     detail="`Arena::%s` does not require the root to be Collect for every brand (higher-ranked "
                            "`for<'a> Root<'a>: Collect<'a>`); its Collect predicates are %s: a root that is only Collect at "
                            "'static (through the 'static-only impls) is accepted and never traced" % (
                                m, [p["s"] for p in f["predicates"] if "Collect" in p["s"]]),
                     loc="%s:%s" % (f["span"]["f"], f["span"]["l"]))
    chk.floor("collecting-methods[%s]" % c, n, 3)


def constructors_demand_collect(chk, prog, c, rule="constructors-demand-collect-for-every-brand"):
    """Every way to build an Arena (new, try_new, and map_root / try_map_root for the root type they produce) demands
    `for<'a> Root<'a>: Collect<'a>`. A root that is Collect at every brand cannot be a type that is only well-formed at
    the brand 'static (`&'static Gc<'gc, T>`, whose implied bound `'gc: 'static` inside the callbacks lets a
    `Gc<'static, T>` leave `mutate` as `dyn Any`), and can implement Drop only under the `unsafe_drop` promise (the arena
    destructs and frees every allocation before it drops its root). The bound on the collecting methods alone does not
    help: allocating and mutating need no collection."""
    import re as _re
    n = 0
    for m, produced in (("new", "R"), ("try_new", "R"), ("map_root", "R2"), ("try_map_root", "R2")):
        for f in prog.fn_n.get("arena::Arena::" + m, []):
            n += 1
            hr = [p["s"] for p in f["predicates"]
                  if _re.match(r"^for<(\'\w+)> <%s as (?:\w+::)*Rootable<\1>>::Root: (?:\w+::)*Collect<\1>$" % produced, p["s"])]
            chk.inst(rule, "arena::Arena::%s[%s]" % (m, c), bool(hr),
                     detail="`Arena::%s` builds an arena around a root of type `Root<'_, %s>` without requiring it to be "
                            "Collect for every brand (its Collect predicates: %s): a 'static-only root type turns the brand "
                            "into 'static inside the callbacks, and a non-Collect root may have a destructor that runs after "
                            "every allocation has been freed" % (m, produced, [p["s"] for p in f["predicates"] if "Collect" in p["s"]]),
                     loc="%s:%s" % (f["span"]["f"], f["span"]["l"]))
    chk.floor("arena-constructors[%s]" % c, n, 4)


def arena_not_an_unsizing_target(chk, prog, c, rule="arena-is-not-an-unsizing-target"):
    """Built-in struct unsizing applies to a struct whose last field may be unsized and is the only field that depends
    on the type parameter: `Box<Arena<R1>>` then coerces to `Box<Arena<R2>>` whenever the two root types (at the single
    brand the library instantiates, 'static) unsize into each other - a dyn root whose impl exists at 'static only runs
    inside `mutate`, a no-op-traced dyn root stops the arena tracing. The root type parameter must therefore occur in
    a field other than the last one (a PhantomData marker does)."""
    a = prog.adts.get("arena::Arena")
    if not chk.anchor("arena::Arena", a is not None):
        return
    fields = a["variants"][0]["fields"]
    tps = [g["name"] for g in a.get("generics", []) if g.get("kind") == "type"]
    import re as _re
    probs = []
    for tp in tps:
        uses = [i for i, f in enumerate(fields) if _re.search(r"(^|[^A-Za-z0-9_])%s($|[^A-Za-z0-9_])" % _re.escape(tp), f.get("ty_s", ""))]
        if uses and uses == [len(fields) - 1]:
            probs.append("type parameter %s occurs only in the last field `%s: %s`" % (tp, fields[-1]["name"], fields[-1].get("ty_s")))
    chk.inst(rule, "arena::Arena[%s]" % c, not probs,
             detail="%s: Arena<R1> unsize-coerces to Arena<R2> through its root, an obligation checked at the brand 'static "
                    "only" % "; ".join(probs), loc="%s:%s" % (a["span"]["f"], a["span"]["l"]),
             sample={"fields": [(f["name"], f.get("ty_s")) for f in fields]})


def static_returns(chk, prog, c):
    branded = ("gc::Gc<'static", "gc_weak::GcWeak<'static", "context::Mutation<'static", "context::Finalization<'static",
               "dynamic_roots::DynamicRootSet<'static", "barrier::Write<")
    n = 0
    for f in prog.f["fns"]:
        if f["kind"] not in ("Fn", "AssocFn") or not (f.get("reachable") or f.get("exported")):
            continue
        n += 1
        out = f["output"]["s"]
        bad = any(b in out for b in branded[:5])
        if f.get("unsafe"):
            bad = False
        chk.inst("no-static-branded-return", "%s[%s]" % (f["n"], c), not bad,
                 detail="exported safe fn `%s` returns `%s`: a branded value at 'static escapes every callback" % (f["n"], out),
                 nontrivial=bad)
    chk.floor("exported-fns[%s]" % c, n, 80)
