"""C12 — brand isolation (DESIGN.md §4 C12): variance / impl / predicate facts from the type-checked
program, re-branding inventory with dominance, and the escape corpus (compile-fail witnesses with twins)."""
from gcv import facts, model, cfg, witness
from gcv.model import norm

BRANDED = ["gc::Gc", "gc_weak::GcWeak", "context::Mutation", "context::Finalization", "dynamic_roots::DynamicRootSet",
           "gc::GcBuilder", "zst_cache::ZstCache", "slice::GcSliceWithHeaderBuilder",
           "slice::GcSliceWithHeaderSliceBuilder", "slice::GcSliceBuilder", "slice::GcStrBuilder"]
# lifetime parameters that are plain borrows, not brands (one line of reason each)
BORROW_LIFETIMES = {
    ("arena::MarkedArena", "'a"): "borrow of the arena (&'a mut Arena<R>), not a brand",
}
INTERIOR = ("core::cell::Cell", "core::cell::RefCell", "core::cell::UnsafeCell", "core::cell::once::OnceCell",
            "core::cell::lazy::LazyCell", "std::sync::poison::mutex::Mutex", "std::sync::poison::rwlock::RwLock",
            "std::sync::mutex::Mutex", "std::sync::rwlock::RwLock", "std::sync::once_lock::OnceLock")
REBRAND_FNS = {
    "dynamic_roots::DynamicRootSet::stash": "erases the brand of a pointer whose invariant 'gc matches the set's",
    "dynamic_roots::DynamicRootSet::fetch": "re-brands after contains() (dominance checked)",
    "dynamic_roots::DynamicRootSet::try_fetch": "re-brands after contains() (dominance checked)",
    "dynamic_roots::DynamicRootSet::contains": "address comparison only",
    "dynamic_roots::DynamicRoot::as_ptr": "documented unsafe-to-use raw pointer accessor (returns *const)",
}


def run(chk, tier):
    configs = ["default"] if tier == "quick" else ["default", "nodefault", "all"]
    fx = facts.load_many(configs)
    chk.explain("C12: (1) variances_of: every lifetime parameter of every public type of the crate is invariant "
                "(reviewed borrow-lifetime exceptions aside), floor 11 branded types; (2) every Collect impl for a "
                "reference or an interior-mutability type carries a 'static predicate; (3) the complete inventory "
                "of lifetime-only transmutes is confined to the reviewed dynamic-root functions and in "
                "fetch/try_fetch the re-branding transmute is dominated by the true edge of contains(), which "
                "compares Rc::as_ptr with Weak::as_ptr; (4) no exported function returns a branded type at "
                "'static; (5) the escape corpus: each violating client program is rejected by rustc for the "
                "expected reason and its twin (differing only in the offending lines) compiles.")
    chk.not_decided += ["soundness of rustc's lifetime checking (trusted)", "programs using unsafe (outside the property)"]
    chk.extra["feature_configs"] = configs
    for c in configs:
        prog = model.Program(fx[c], c)
        variance(chk, prog, c)
        static_impls(chk, prog, c)
        rebrand(chk, prog, c)
        static_returns(chk, prog, c)
    res = witness.report(chk, "C12", rule="escape-corpus", floor=80, tier=tier)
    witness.report(chk, "C03", rule="exclusive-access-witness", floor=5, tier=tier)


def variance(chk, prog, c):
    n = 0
    for path, a in sorted(prog.adts.items()):
        if not a.get("reachable"):
            continue
        for g in a["generics"]:
            if g["kind"] != "lifetime":
                continue
            if (path, g["name"]) in BORROW_LIFETIMES:
                chk.inst("variance", "%s<%s>[%s]" % (path, g["name"], c), True, nontrivial=False)
                continue
            n += 1
            chk.inst("variance", "%s<%s>[%s]" % (path, g["name"], c), g["variance"] == "o",
                     detail="lifetime parameter %s of public type %s has variance `%s` (must be invariant `o`): the "
                            "brand can be coerced and pointers of different arenas/callbacks mixed" % (
                                g["name"], path, g["variance"]),
                     loc="%s:%s" % (a["span"]["f"], a["span"]["l"]),
                     sample={"type": path, "param": g["name"], "variance": g["variance"]})
    for b in BRANDED:
        chk.anchor(b, b in prog.adts, "(config %s)" % c)
        a = prog.adts.get(b)
        if a and not any(g["kind"] == "lifetime" for g in a["generics"]):
            chk.inst("variance", "%s[%s]" % (b, c), False, detail="branded type %s lost its brand lifetime" % b)
    chk.floor("invariant-brands[%s]" % c, n, 6)


def static_impls(chk, prog, c):
    n = 0
    for im in prog.impls:
        if im.get("trait") != "collect::Collect":
            continue
        t = prog.ty(im["self"])
        need = None
        if t.get("k") == "ref":
            need = "reference"
            ok_lt = t.get("lt") == "'static"
            inner = prog.ty(t["ty"])
            ok = ok_lt and any(p["k"] == "type_outlives" and p["lt"] == "'static" and p["ty"] == t["ty"]
                               for p in im["predicates"])
        elif t.get("k") == "adt" and (t["def"] in INTERIOR or t["def"] == "static_wrapper::Static"):
            need = t["def"]
            params = [a["ty"] for a in t.get("args", []) if "ty" in a]
            ok = all(any(p["k"] == "type_outlives" and p["lt"] == "'static" and p["ty"] == pt for p in im["predicates"])
                     for pt in params) or any(p["k"] == "type_outlives" and p["lt"] == "'static" and p["ty"] == im["self"]
                                              for p in im["predicates"])
        if need is None:
            continue
        n += 1
        chk.inst("static-only-collect-impl", "%s[%s]" % (im["self_s"], c), ok,
                 detail="`impl Collect for %s` lacks the 'static bound: a %s holding branded pointers would be "
                        "accepted as (untraced / unbarriered) arena data" % (im["self_s"], need),
                 loc="%s:%s" % (im["span"]["f"], im["span"]["l"]),
                 sample={"impl": im["self_s"], "predicates": [p["s"] for p in im["predicates"]]})
    chk.floor("static-only-impls[%s]" % c, n, 2)


def rebrand(chk, prog, c):
    prog.edges()
    sites = []
    for d_raw, key in prog.seed.items():
        b = prog.bodies[key]
        for bi, bb in enumerate(b["blocks"]):
            for s in bb["s"]:
                if s["k"] == "assign" and s["r"]["k"] == "cast" and s["r"]["ck"].startswith("Transmute") \
                        and s["r"]["from"] == s["r"]["ty"] and not s.get("x"):
                    sites.append((norm(d_raw), bi, key))
    fns = sorted({s[0] for s in sites})
    extra = [f for f in fns if prog.fn_of_closure(f) not in REBRAND_FNS]
    chk.inst("rebrand-inventory", "lifetime-only-transmutes[%s]" % c, not extra,
             detail="lifetime-only transmute (re-branding) outside the reviewed functions: %s" % extra,
             sample={"sites": fns})
    chk.floor("rebrand-sites[%s]" % c, len(sites), 3)
    for fn in ("dynamic_roots::DynamicRootSet::fetch", "dynamic_roots::DynamicRootSet::try_fetch"):
        if not chk.anchor(fn, fn in prog.seed_n):
            continue
        key = prog.seed_n[fn][0]
        b = prog.bodies[key]
        tb = [bi for (f, bi, k) in sites if f == fn]
        calls = [(i, bb["t"]) for i, bb in enumerate(b["blocks"]) if bb["t"] and bb["t"]["k"] == "call"
                 and not bb["t"]["f"].get("indirect") and norm(bb["t"]["f"]["def"]) == "dynamic_roots::DynamicRootSet::contains"]
        ok = bool(tb) and len(calls) == 1
        if ok:
            ci, ct = calls[0]
            # the switch on contains()' result: true edge must dominate the transmute
            sw = b["blocks"][ct["t"]]["t"]
            ok = sw["k"] == "switch" and sw["vals"] == [0]
            if ok:
                true_bb = sw["otherwise"]
                dom = cfg.dominators(b, unwind=False)
                ok = all(true_bb in dom[x] for x in tb)
        chk.inst("rebrand-dominated-by-contains", "%s[%s]" % (fn, c), ok,
                 detail="in %s the brand of a handle's pointer is restored on a path that did not pass the true "
                        "edge of contains(): a handle of another set/arena would be re-branded" % fn)
    fn = "dynamic_roots::DynamicRootSet::contains"
    if chk.anchor(fn, fn in prog.seed_n):
        b = prog.bodies[prog.seed_n[fn][0]]
        names = [norm(bb["t"]["f"]["def"]) for bb in b["blocks"] if bb["t"] and bb["t"]["k"] == "call" and not bb["t"]["f"].get("indirect")]
        has_rc = "alloc::rc::Rc::as_ptr" in names
        has_weak = "alloc::rc::Weak::as_ptr" in names
        eq = False
        for bb in b["blocks"]:
            for s in bb["s"]:
                if s["k"] == "assign" and s["r"]["k"] == "binop" and s["r"]["op"] == "Eq" and s["p"]["l"] == 0:
                    eq = True
        chk.inst("contains-compares-slot-table-addresses", "%s[%s]" % (fn, c), has_rc and has_weak and eq,
                 detail="contains() does not return the equality of Rc::as_ptr(set.slots) and Weak::as_ptr(handle.slots)")


def static_returns(chk, prog, c):
    branded = ("gc::Gc<'static", "gc_weak::GcWeak<'static", "context::Mutation<'static", "context::Finalization<'static",
               "dynamic_roots::DynamicRootSet<'static", "barrier::Write<")
    n = 0
    for f in prog.f["fns"]:
        if f["kind"] not in ("Fn", "AssocFn") or not (f.get("reachable") or f.get("exported")):
            continue
        n += 1
        out = f["output"]["s"]
        bad = any(b in out for b in branded[:5])
        if f.get("unsafe"):
            bad = False
        chk.inst("no-static-branded-return", "%s[%s]" % (f["n"], c), not bad,
                 detail="exported safe fn `%s` returns `%s`: a branded value at 'static escapes every callback" % (f["n"], out),
                 nontrivial=bad)
    chk.floor("exported-fns[%s]" % c, n, 80)
