"""C11 — panic safety (DESIGN.md §4 C11): decided on the unwind edges of the MIR."""
from gcv import typestate
from gcv.props import common


def run_config(chk, tier, cfgname):
    prog, T = typestate.engine(cfgname)
    chk.explain("C11: every may-unwind call site of the collector is enumerated by the interpreter (opaque user "
                "code forks into return/unwind): unwind rows of mark_one end with the popped object Gray, re-queued "
                "and its trace credit taken back, and the root still flagged; unwind rows of sweep_one leave the "
                "object unlinked (White) or flagged not-live (WhiteWeak) before the destructor runs; DropAll resumes "
                "after a panicking destructor; do_collection keeps the phase protocol on unwinding exits; a panicking "
                "or failing constructor callback drops the boxed context; the slice builder destructs exactly the "
                "initialised prefix.")
    chk.not_decided += ["C01-C05 on the continued history after a caught panic as a behavioural statement (follows "
                        "from the invariants holding at unwinding exits, which is what is checked)",
                        "leaks (not double frees) of the object whose destructor panicked"]
    typestate.apply(chk, "mark_one-unwind-rows", "mark_one", aspects=("safety", "once", "weak", "unwind"))
    typestate.apply(chk, "sweep_one-unwind-rows", "sweep_one", aspects=("safety", "once", "weak", "unwind"))
    typestate.apply(chk, "drop_all-unwind-rows", "drop_all", aspects=("safety", "once", "weak", "unwind"))
    typestate.apply(chk, "callback-unwind-rows", "root_paths", aspects=("safety", "once", "weak", "unwind"))
    nun = sum(1 for name in ("mark_one", "sweep_one", "drop_all", "root_paths") for r in T.get(name)
              for o in r.outs if o.kind == "unwind")
    chk.floor("unwind-outcomes-explored", nun, 20)
    common.protocol_rows(chk, prog, "protocol-on-unwind", ["collect_debt", "finish_marking", "finish_cycle"],
                         per_method=False, aspects=("safety", "walk"))
    typestate.report_automaton(chk, ["S6", "S7"])
    from gcv import rules_ctor
    rules_ctor.run(chk, prog, T)
    from gcv import rules_builder
    rules_builder.slice_builder_unwind(chk, prog)
    # a pointer to a builder's block handed out while the builder can still release it dangles exactly when code run
    # afterwards unwinds (seed C11-f: a new_cyclic constructor that panics after its GcWeak escaped)
    rules_builder.block_exposed_only_after_disarm(chk, prog)


def run(chk, tier):
    from gcv import heap_check
    heap_check.report(chk, tier, owns=(), fault_owns=("H1", "H2", "H3", "H4", "H6", "PANIC"))
    cfgs = typestate.configs(tier)
    chk.extra["feature_configs"] = cfgs
    for c in cfgs:
        chk.cfg = c
        n_expl = len(chk.explanation)
        nd = len(chk.not_decided)
        run_config(chk, tier, c)
        if c != cfgs[0]:
            del chk.explanation[n_expl:]
            del chk.not_decided[nd:]
    chk.cfg = None
