"""C11 — panic safety (DESIGN.md §4 C11): decided on the unwind edges of the MIR."""
from gcv import typestate
from gcv.props import common


def run_config(chk, tier, cfgname):
    prog, T = typestate.engine(cfgname)
    chk.explain("C11: every may-unwind call site of the collector is enumerated by the interpreter (opaque user "
                "code forks into return/unwind): unwind rows of mark_one end with the popped object Gray, re-queued "
                "and its trace credit taken back, and the root still flagged; unwind rows of sweep_one leave the "
                "object unlinked (White) or flagged not-live (WhiteWeak) before the destructor runs; DropAll resumes "
                "after a panicking destructor; do_collection keeps the phase protocol on unwinding exits; a panicking "
                "or failing constructor callback drops the boxed context; the slice builder destructs exactly the "
                "initialised prefix.")
    chk.not_decided += ["C01-C05 on the continued history after a caught panic as a behavioural statement (follows "
                        "from the invariants holding at unwinding exits, which is what is checked)",
                        "leaks (not double frees) of the object whose destructor panicked"]
    typestate.apply(chk, "mark_one-unwind-rows", "mark_one", aspects=("safety", "once", "weak", "unwind"))
    typestate.apply(chk, "sweep_one-unwind-rows", "sweep_one", aspects=("safety", "once", "weak", "unwind"))
    typestate.apply(chk, "drop_all-unwind-rows", "drop_all", aspects=("safety", "once", "weak", "unwind"))
    typestate.apply(chk, "callback-unwind-rows", "root_paths", aspects=("safety", "once", "weak", "unwind"))
    nun = sum(1 for name in ("mark_one", "sweep_one", "drop_all", "root_paths") for r in T.get(name)
              for o in r.outs if o.kind == "unwind")
    chk.floor("unwind-outcomes-explored", nun, 20)
    common.protocol_rows(chk, prog, "protocol-on-unwind", ["collect_debt", "finish_marking", "finish_cycle"],
                         per_method=False, aspects=("safety", "walk"))
    typestate.report_automaton(chk, ["S6", "S7"])
    # the switch to the Sweep phase runs client code when the `tracing` feature is on (the subscriber); if that
    # panics and the panic is caught, the arena must not be left Sweeping without a sweep cursor (the rest of the call
    # and the next cycle would sweep nothing, survivors stay Black, the cycle after frees what they point to): the
    # assignment of the cursor dominates the switch
    from gcv import cfg as _cfg
    from gcv.gcmodel import phase_name as _phase_name
    si = T.m.ctx_index("sweep")
    n_sw = 0
    for d_raw, key in prog.seed.items():
        if "context::" not in d_raw:
            continue
        b = prog.bodies[key]
        sw_blocks = []
        for bi, bb in enumerate(b["blocks"]):
            t = bb["t"]
            if t and t["k"] == "call" and not t["f"].get("indirect") and \
                    __import__("gcv.model", fromlist=["norm"]).norm((t["f"].get("resolved") or t["f"]).get("def", "")) == "context::PhaseGuard::switch" \
                    and len(t["args"]) > 1:
                # the phase argument: a constant, or a local assigned a constant / a variant aggregate just before
                arg = t["args"][1]
                cands = [arg]
                if arg.get("k") in ("copy", "move") and not arg["p"]["p"]:
                    for bb2 in b["blocks"]:
                        for s_ in bb2["s"]:
                            if s_["k"] == "assign" and s_["p"]["l"] == arg["p"]["l"] and not s_["p"]["p"]:
                                if s_["r"]["k"] == "use":
                                    cands.append(s_["r"]["o"])
                                elif s_["r"]["k"] == "agg" and s_["r"]["ak"].get("def") == "context::Phase":
                                    cands.append({"k": "const", "v": {"variant": s_["r"]["ak"].get("variant", s_["r"]["ak"].get("idx"))}})
                nm = None
                for cnd in cands:
                    v = cnd.get("v", {}) if cnd.get("k") == "const" else {}
                    try:
                        if v.get("variant") is not None:
                            nm = prog.all_adts["context::Phase"]["variants"][v["variant"]]["name"]
                    except (KeyError, IndexError, TypeError):
                        pass
                if nm == "Sweep":
                    sw_blocks.append(bi)
        if not sw_blocks:
            continue
        assigns = [bi for bi, bb in enumerate(b["blocks"]) for s_ in bb["s"]
                   if s_["k"] == "assign" and s_["p"]["p"] and s_["p"]["p"][-1] == ["f", si]]
        dom = _cfg.dominators(b, unwind=False)
        for sb in sw_blocks:
            n_sw += 1
            ok = any(ab in dom[sb] for ab in assigns)
            chk.inst("sweep-cursor-set-before-phase-switch", "%s@bb%d" % (__import__("gcv.model", fromlist=["norm"]).norm(d_raw), sb), ok,
                     detail="the phase is switched to Sweep before the sweep cursor is assigned: a panic out of the switch (a "
                            "tracing subscriber) caught by the client leaves the arena Sweeping with no cursor",
                     loc="%s:%s" % (b["span"]["f"], b["blocks"][sb]["t"].get("l")))
    chk.floor("switches-to-sweep", n_sw, 1)
    from gcv import rules_ctor
    rules_ctor.run(chk, prog, T)
    from gcv import rules_builder
    rules_builder.slice_builder_unwind(chk, prog)
    # a pointer to a builder's block handed out while the builder can still release it dangles exactly when code run
    # afterwards unwinds (seed C11-f: a new_cyclic constructor that panics after its GcWeak escaped)
    rules_builder.block_exposed_only_after_disarm(chk, prog)


def run(chk, tier):
    from gcv import heap_check
    heap_check.report(chk, tier, owns=(), fault_owns=("H1", "H2", "H3", "H4", "H6", "PANIC"))
    cfgs = typestate.configs(tier)
    chk.extra["feature_configs"] = cfgs
    for c in cfgs:
        chk.cfg = c
        n_expl = len(chk.explanation)
        nd = len(chk.not_decided)
        run_config(chk, tier, c)
        if c != cfgs[0]:
            del chk.explanation[n_expl:]
            del chk.not_decided[nd:]
    chk.cfg = None
