"""C18 — builders (DESIGN.md §4 C18)."""
from gcv import typestate, cfg, interp, rules_builder
from gcv.interp import Interp, State, TOP, UNIT, adt, ref, I
from gcv.model import norm
from gcv.props import C03 as c03

BUILDER_ADTS = ("gc::GcBuilder", "slice::GcSliceWithHeaderBuilder", "slice::GcSliceWithHeaderSliceBuilder",
                "slice::GcSliceBuilder", "slice::GcStrBuilder")
BUILDER_DROP = c03.BUILDER_DROP
SB_DROP = rules_builder.SB_DROP


def run_config(chk, tier, cfgname):
    prog, T = typestate.engine(cfgname)
    prog.edges()
    chk.explain("C18: (invisible) Drop for GcBuilder reaches GcPtr::dealloc and nothing else of the collector; "
                "GcPtr::alloc and every builder constructor reach no metrics / link: an abandoned builder never "
                "becomes visible to the arena; (single registration) every completing method of every builder kind "
                "funnels into GcBuilder::assume_init, which sets the live flag and links exactly once (T(link) "
                "credits exactly one `allocated`), and no builder value is dropped on a normal path of a completing "
                "method (absent drop terminators after drop elaboration); (partial initialisation) the slice builder's "
                "Drop destructs header + a prefix whose length is data-dependent on init_length only, then releases "
                "the block; init_length is updated after each element write; the header builder has no Drop of its "
                "own; (length check) copy_slice interpreted on the ordering domain of (elements.len(), builder length): "
                "the copy is reached only under equality and the failing edge unwinds through the builder's Drop.")
    chk.not_decided += ["contents equal what was written (value equality)", "allocator-level outstanding blocks"]
    # ---- invisible
    if chk.anchor(BUILDER_DROP, BUILDER_DROP in prog.seed_n):
        pred = prog.reachable_from([BUILDER_DROP])
        bad = sorted(x for x in pred if x and (x.startswith("metrics::Metrics::mark_gc") or x in (
            "gc_ptr::GcPtr::drop_in_place", "context::Context::link", "context::Mutation::link", "gc_ptr::GcHeader::set_live")))
        chk.inst("builder-drop-only-deallocates", BUILDER_DROP, "gc_ptr::GcPtr::dealloc" in pred and not bad,
                 detail="GcBuilder::drop reaches %s (must reach GcPtr::dealloc and no destructor / link / metric)" % (bad or "no dealloc"))
    ctors = ["gc_ptr::GcPtr::alloc", "gc::GcBuilder::new", "gc::GcBuilder::new_with_type_meta", "gc::GcBuilder::new_with_type_and_ptr_meta",
             "slice::GcSliceWithHeaderBuilder::new", "slice::GcSliceWithHeaderBuilder::new_with_type_meta",
             "slice::GcSliceWithHeaderBuilder::write_header", "slice::GcSliceBuilder::new", "slice::GcSliceBuilder::new_with_type_meta",
             "slice::GcStrBuilder::new", "slice::GcStrBuilder::new_with_type_meta"]
    for fn in ctors:
        if not chk.anchor(fn, fn in prog.seed_n):
            continue
        pred = prog.reachable_from([fn], stop={BUILDER_DROP})
        bad = sorted(x for x in pred if x and (x.startswith("metrics::Metrics::mark_gc") or x in (
            "context::Context::link", "context::Mutation::link")))
        chk.inst("constructors-invisible-to-arena", fn, not bad, detail="%s reaches %s before completion" % (fn, bad))
    # ---- completing methods
    completing = []
    for f in prog.f["fns"]:
        if f["kind"] != "AssocFn" or not (f.get("reachable") or f.get("exported")):
            continue
        ins = f.get("inputs") or []
        if not ins:
            continue
        t0 = prog.ty(ins[0]["ty"])
        if t0.get("k") == "adt" and t0["def"] in BUILDER_ADTS:
            completing.append(f)
    chk.floor("builder-consuming-methods", len(completing), 9)
    for f in completing:
        n = f["n"]
        out_s = f["output"]["s"]
        returns_gc = "gc::Gc<" in out_s
        if returns_gc:
            pred = prog.reachable_from([n])
            chk.inst("completion-funnels-into-assume_init", n, "gc::GcBuilder::assume_init" in pred or n == "gc::GcBuilder::assume_init",
                     detail="%s returns a Gc without going through GcBuilder::assume_init (live flag / link / count)" % n)
        # no builder drop on a normal path
        for key in prog.seed_n.get(n, []):
            if prog.bodies[key]["def"] != f["path"]:
                continue
            b = prog.bodies[key]
            bad = []
            for x in cfg.reach_from(b, [0], unwind=False):
                t = b["blocks"][x]["t"]
                if t and t["k"] == "drop" and not b["blocks"][x]["c"] and t.get("needs_drop") and \
                        any(d in prog.type_mentions(t["ty"]) for d in BUILDER_ADTS) and _drops_builder(prog, t["ty"]):
                    bad.append(t["l"])
            chk.inst("no-builder-drop-on-completion", n, not bad,
                     detail="%s drops a builder value on a normal path (line %s): the block handed to the arena / the "
                            "next builder stage would be released" % (n, bad))
    # assume_init: set_live(true) then link, once each
    fn = "gc::GcBuilder::assume_init"
    if chk.anchor(fn, fn in prog.seed_n):
        calls = [e for e in prog.calls_from(fn)]
        sl = [e for e in calls if e.callee == "gc_ptr::GcHeader::set_live"]
        lk = [e for e in calls if e.callee == "context::Mutation::link"]
        fg = [e for e in calls if e.callee == "core::mem::forget"]
        b = prog.body_of(sl[0].caller_raw) if sl else None
        ok = len(sl) == 1 and len(lk) == 1 and b is not None
        if ok:
            dom = cfg.dominators(b, unwind=False)
            rets = cfg.return_blocks(b)
            # both on every normal path (the relative order of forget / set_live / link is not behaviour: none of
            # them can unwind or trigger collection)
            ok = bool(rets) and all(sl[0].bb in dom[r] and lk[0].bb in dom[r] for r in rets)
        chk.inst("assume_init-registers-once", fn, ok,
                 detail="assume_init must set the live flag and link the block exactly once on every normal path")
    typestate.apply(chk, "link-counts-once", "link", aspects=("credits", "credits-over", "credits-under", "safety"))
    # who may complete a builder. `assume_init` is an unsafe promise that everything is initialised; a caller is either
    # unsafe itself (the promise is passed on to its caller) or one of the safe completers whose initialisation argument
    # is decided by a rule of its own (write: value-moved-into-block; write_header; copy_slice: length check;
    # write_slice_with: the slice-builder loop rules) - or a private helper reachable only through them. Any other safe
    # caller is a new way to complete a builder whose initialisation nobody has argued.
    from gcv.props import common
    SAFE_COMPLETERS = {"gc::GcBuilder::write", "slice::GcSliceWithHeaderBuilder::write_header",
                       "slice::GcSliceWithHeaderSliceBuilder::copy_slice", "slice::GcSliceWithHeaderSliceBuilder::write_slice_with"}
    n_ai = 0
    for f in prog.f["fns"]:
        if not (f["n"].endswith("::assume_init") and f.get("unsafe") and f["n"].startswith(tuple(rules_builder.BUILDER_TYPES))):
            continue
        for e in prog.callers_of(f["n"]):
            caller = prog.fn_of_closure(e.caller)
            cf = (prog.fn_n.get(caller) or [{}])[0]
            n_ai += 1
            ok = bool(cf.get("unsafe")) or caller in SAFE_COMPLETERS
            esc = None
            if not ok:
                allowed = SAFE_COMPLETERS | {x["n"] for x in prog.f["fns"] if x.get("unsafe")}
                esc = common.escapes(prog, caller, allowed)
                ok = esc is None and bool(list(prog.callers_of(caller)))
            chk.inst("assume_init-callers", "%s<-%s" % (f["n"], caller), ok,
                     detail="safe function `%s` completes a builder through `%s`, and no rule decides that everything it "
                            "promises to be initialised is: the reviewed safe completers are %s" % (caller, f["n"], sorted(SAFE_COMPLETERS)),
                     loc="%s:%s" % (e.file, e.line), sample={"assume_init": f["n"], "caller": caller, "caller_unsafe": bool(cf.get("unsafe"))})
    chk.floor("assume_init-call-sites", n_ai, 5)
    rules_builder.value_moved_into_block(chk, prog)
    rules_builder.builders_invariant_in_value_type(chk, prog)
    rules_builder.block_exposed_only_after_disarm(chk, prog)
    rules_builder.pointer_range_loops(chk, prog)
    # ---- partial initialisation
    rules_builder.slice_builder_unwind(chk, prog)
    a = prog.adts.get("slice::GcSliceWithHeaderBuilder")
    if chk.anchor("slice::GcSliceWithHeaderBuilder", a is not None):
        chk.inst("header-builder-has-no-drop", "slice::GcSliceWithHeaderBuilder", not a.get("drop_impl"),
                 detail="GcSliceWithHeaderBuilder has a Drop impl: it would destruct a header that was never written")
    il_writers = []
    try:
        il = rules_builder._field_idx(prog, rules_builder.SB, "init_length")
    except (IndexError, KeyError, TypeError):
        chk.anchor(rules_builder.SB + ".init_length", False, "(the slice builder no longer records its initialised length in a field of its own)")
        il = None
    for d_raw, key in prog.seed.items():
        b = prog.bodies[key]
        for bb in b["blocks"]:
            for s in bb["s"]:
                if s["k"] == "assign" and s["p"]["p"] and s["p"]["p"][-1] == ["f", il]:
                    from gcv.model import _place_ty
                    bt = _place_ty(prog, b, {"l": s["p"]["l"], "p": s["p"]["p"][:-1]})
                    if bt is not None and prog.adt_of(bt) == rules_builder.SB:
                        il_writers.append(norm(d_raw))
    # besides write_slice_with (whose discipline has its own rules) only functions whose element type is `Copy` may
    # record a length: such elements have no destructor, so the record cannot make Drop destruct uninitialised memory
    def copy_only(fn):
        f = (prog.fn_n.get(fn) or [None])[0]
        return bool(f) and any(p_["k"] == "trait" and p_["trait"] == "core::marker::Copy" for p_ in f.get("predicates", []))
    extra_w = [w for w in sorted(set(il_writers)) if w != rules_builder.WSW and not copy_only(w)]
    chk.inst("init_length-writers", "slice::GcSliceWithHeaderSliceBuilder.init_length",
             rules_builder.WSW in il_writers and not extra_w,
             detail="init_length is also assigned in %s (only write_slice_with, after each element write, or a function over "
                    "`Copy` elements may record an initialised length)" % extra_w)
    # ---- copy_slice on the ordering domain
    copy_slice(chk, prog)
    for fn, via in (("slice::GcSliceBuilder::copy_slice", "slice::GcSliceWithHeaderSliceBuilder::copy_slice"),
                    ("slice::GcStrBuilder::copy_str", "slice::GcSliceBuilder::copy_slice")):
        if chk.anchor(fn, fn in prog.seed_n):
            calls = {e.callee for e in prog.calls_from(fn)}
            chk.inst("copy-wrappers-delegate", fn, via in calls and not any(
                (c or "").endswith("copy_nonoverlapping") for c in calls),
                detail="%s must delegate to %s (which carries the length check)" % (fn, via))


def _drops_builder(prog, tid):
    return bool(prog.drop_impls_of_type(tid) & {"<gc::GcBuilder<'gc, T, M, P> as core::ops::Drop>::drop",
                                               "<slice::GcSliceWithHeaderSliceBuilder<'gc, H, E, M> as core::ops::Drop>::drop"}) or \
        any("GcBuilder" in d or "SliceBuilder" in d for d in prog.drop_impls_of_type(tid))


def copy_slice(chk, prog):
    fn = "slice::GcSliceWithHeaderSliceBuilder::copy_slice"
    if not chk.anchor(fn, fn in prog.seed_n):
        return

    def slice_ptr(ip, st, args, info):
        return [(st, "ret", ("sym", "slice_ptr"))]

    def blen(ip, st, args, info):
        return [(st, "ret", ("sym", "builder_len"))]

    def elen(ip, st, args, info):
        return [(st, "ret", ("sym", "elements_len"))]

    def copy(ip, st, args, info):
        st.event("copy", args[2] if len(args) > 2 else None, tuple(sorted((str(k), "".join(sorted(v))) for k, v in st.cons.items())))
        return [(st, "ret", UNIT)]

    def assume_init(ip, st, args, info):
        st.event("assume_init")
        return [(st, "ret", ("sym", "gc"))]

    def sb_drop(ip, st, args, info):
        st.event("builder_dropped")
        return [(st, "ret", UNIT)]

    def inner_drop(ip, st, args, info):
        st.event("inner_builder_dropped")
        return [(st, "ret", UNIT)]
    ip = Interp(prog, prims={"<gc::GcBuilder as core::ops::drop::Drop>::drop": inner_drop,
                             "slice::GcSliceWithHeaderSliceBuilder::slice_ptr": slice_ptr,
                             "core::ptr::mut_ptr::<impl *mut [T]>::len": blen, "core::slice::<impl [T]>::len": elen,
                             "core::ptr::copy_nonoverlapping": copy, "core::intrinsics::copy_nonoverlapping": copy,
                             "slice::GcSliceWithHeaderSliceBuilder::assume_init": assume_init,
                             "gc::GcBuilder::assume_init": assume_init,
                             SB_DROP: sb_drop}, strict=True)
    ip.lenient_std = True
    st = State()
    st.mem[("b",)] = adt("slice::GcSliceWithHeaderSliceBuilder", 0, (("sym", "inner"), I(0)))
    try:
        outs = ip.run(prog.seed_n[fn][0], [st.mem[("b",)], ("sym", "mc"), ("sym", "elements")], st)
    except (interp.Unmodelled, interp.InterpError) as e:
        chk.inst("copy_slice-length-check", fn, False, detail="could not be analysed: %s" % e)
        return
    probs = []
    copied = 0
    failed = 0
    for o in outs:
        rel = None
        for (a, b), r in o.st.cons.items():
            names = {a[1] if a[0] == "sym" else None, b[1] if b[0] == "sym" else None}
            if names == {"builder_len", "elements_len"}:
                rel = r
        cp = [e for e in o.ev if e[0] in ("copy", "copy_nonoverlapping")]
        if cp:
            copied += 1
            if rel != frozenset("="):
                probs.append("elements are copied on a path where elements.len() == builder length is not established "
                             "(relation %s): a shorter/longer source is accepted" % (sorted(rel) if rel else None))
            if o.kind == "return" and not any(e[0] == "assume_init" for e in o.ev):
                probs.append("copy without completing the builder")
        else:
            if o.kind == "return":
                # nothing to copy for an empty slice: fine when the path has established that the (equal) lengths are 0
                def mentions_len(v):
                    return "builder_len" in str(v) or "elements_len" in str(v)
                empty = rel == frozenset("=") and any(
                    r == frozenset("=") and ((a == I(0) and mentions_len(b)) or (b == I(0) and mentions_len(a)))
                    for (a, b), r in o.st.cons.items())
                if not (empty and any(e[0] == "assume_init" for e in o.ev)):
                    probs.append("returns without copying")
            if o.kind == "unwind":
                failed += 1
                if not any(e[0] == "builder_dropped" for e in o.ev):
                    if any(e[0] == "inner_builder_dropped" for e in o.ev):
                        probs.append("on the length-mismatch panic only the inner block builder is dropped (the slice "
                                     "builder was dismantled before the check): the block is released but the header "
                                     "already written is never destructed")
                    else:
                        probs.append("the length-mismatch panic does not drop the builder: the block leaks")
    if not copied:
        probs.append("no path copies the elements")
    if not failed:
        probs.append("no path rejects a wrong-length source")
    chk.inst("copy_slice-length-check", fn, not probs, detail="; ".join(sorted(set(probs))[:3]),
             sample={"fn": fn, "paths": len(outs), "copy_paths": copied, "rejecting_paths": failed})


def run(chk, tier):
    cfgs = typestate.configs(tier)
    chk.extra["feature_configs"] = cfgs
    for c in cfgs:
        chk.cfg = c
        n_expl = len(chk.explanation)
        nd = len(chk.not_decided)
        run_config(chk, tier, c)
        if c != cfgs[0]:
            del chk.explanation[n_expl:]
            del chk.not_decided[nd:]
    chk.cfg = None
    from gcv import witness
    witness.report(chk, "C18", rule="witness", floor=1, tier=tier)
