"""C02 — exact, complete reclamation (DESIGN.md §4 C02): marking is exact and root-only, the sweep
is total, per-object sweep outcome equals the spec table, finish_cycle performs whole cycles."""
from gcv import typestate
from gcv.props import common

TABLE_ENTRIES = [
    "context::Context::trace", "context::Context::trace_weak", "context::Context::resurrect",
    "context::Context::mark_one", "context::Context::sweep_one", "context::Context::make_gray_again",
]


def run_config(chk, tier, cfgname):
    prog, T = typestate.engine(cfgname)
    chk.explain("C02: objects leave White/WhiteWeak only through strong/weak tracing and resurrect (colour-move "
                "frame conditions on every extracted table; every set_color call is confined below an analysed "
                "primitive); the sweep is total (cursor := list head when sweeping begins, advanced in every row, "
                "Break only on an empty cursor); per-object sweep outcome equals the specification table "
                "(White: destruct+free, shell: free only, WhiteWeak: destruct once and keep as White shell, Black: "
                "keep and reset to White); a shell is freed by the next sweep that finds it unmarked; finish_cycle "
                "from Sleeping performs exactly one whole cycle and from mid-cycle finishes the current one.")
    chk.not_decided += ["equality 'undestructed set = reachable set' over concrete histories and graph shapes",
                        "total_gc_count arithmetic (C10 covers the pairing)"]
    typestate.apply(chk, "sweep-outcome-table", "sweep_one", aspects=("safety", "reclaim"))
    for t in ("trace", "trace_weak", "resurrect", "backward_barrier", "backward_barrier_weak", "forward_barrier",
              "forward_barrier_weak", "upgrade", "link", "mark_one"):
        typestate.apply(chk, "colour-moves:" + t, t, aspects=("safety", "overmark", "overmark-strong"))
    n = common.confined(chk, prog, "set_color-confined", "gc_ptr::GcHeader::set_color", TABLE_ENTRIES,
                        "colour written outside the analysed primitives")
    chk.floor("set_color-sites", n, 3)
    common.protocol_rows(chk, prog, "finish_cycle-whole-cycles", ["finish_cycle"], aspects=("cycle", "safety"))
    # "destructed" in the tables is the event GcPtr::drop_in_place: it must really run the value's destructor, for every
    # kind of allocation (seed C02-f / C04-b: the vtable's drop slot left empty by a needs_drop decision for another type)
    from gcv import rules_prims
    rules_prims.check(chk, prog, which=("gc_ptr::GcPtr::drop_in_place",), config=cfgname)
    typestate.report_automaton(chk, ["S3", "S3r", "S2", "S2o", "S3o"])
    # shell clause as typestate paths
    A = typestate.auto(cfgname)
    shell_made = [t for t in A.trans if t.op == "collector:sweep_one" and t.src[1] == "WW" and t.src[2] == 1
                  and t.dst not in ("FREED", "UNLINKED") and t.dst[1] == "W" and t.dst[2] == 0]
    shell_freed = [t for t in A.trans if t.op == "collector:sweep_one" and t.src[1] == "W" and t.src[2] == 0
                   and t.dst == "FREED" and not any(e[0] == "dropped" for e in t.events)]
    chk.inst("shell-path", "(WW,live) -sweep-> (W,shell)", bool(shell_made),
             detail="no transition keeps a weakly marked object as a White shell")
    chk.inst("shell-path", "(W,shell) -sweep-> freed without destruct", bool(shell_freed),
             detail="an unmarked shell is never released (or is destructed again)")
    survivors = [t for t in A.trans if t.op == "collector:sweep_one" and t.src[1] == "B"]
    chk.inst("survivor-reset", "(B) -sweep-> (W)", bool(survivors) and all(
        t.dst not in ("FREED", "UNLINKED") and t.dst[1] == "W" for t in survivors),
        detail="a marked object is not reset to White by the sweep")


def run(chk, tier):
    from gcv import heap_check
    heap_check.report(chk, tier, owns=("H4",))
    cfgs = typestate.configs(tier)
    chk.extra["feature_configs"] = cfgs
    for c in cfgs:
        chk.cfg = c
        n_expl = len(chk.explanation)
        nd = len(chk.not_decided)
        run_config(chk, tier, c)
        if c != cfgs[0]:
            del chk.explanation[n_expl:]
            del chk.not_decided[nd:]
    chk.cfg = None
