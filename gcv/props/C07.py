"""C07 — finalization (DESIGN.md §4 C07)."""
from gcv import typestate
from gcv.props import common, C03 as c03


def run_config(chk, tier, cfgname):
    prog, T = typestate.engine(cfgname)
    chk.explain("C07: a MarkedArena is returned exactly when the call ends Marked (protocol rows of mark_debt / "
                "finish_marking: Some iff phase=Mark and no gray work or root trace pending); is_dead == colour in "
                "{White, WhiteWeak} for Gc and GcWeak; resurrect turns a dead undestructed object Gray and queued "
                "(so gray_remaining is true, the arena reports Marking, and by O5 sweeping cannot start before its "
                "closure is marked); GcWeak::resurrect returns None exactly for destructed targets; start_sweeping "
                "ends Sweeping; Finalization handles are only produced for MarkedArena::finalize. Marking is complete when "
                "the MarkedArena is handed out: the marking-side tri-colour obligations (trace, mark_one, the four write "
                "barriers, the root barrier, every sanctioned adoption path) hold on every abstract pre-state.")
    chk.not_decided += ["'is_dead is true exactly for the unreachable objects' on concrete graphs (needs exact user "
                        "traces + the global theorem)"]
    for t in ("gc_is_dead", "weak_is_dead", "resurrect", "weak_resurrect", "gray_remaining"):
        typestate.apply(chk, t + "-table", t, aspects=("safety", "reporting"))
    # "no strongly reachable object reports is_dead when a MarkedArena is handed out" needs marking to be complete at
    # that point: the marking half of the tri-colour obligations (tracing a child never leaves it unmarked, blackening
    # is complete or undone, write / root barriers and the sanctioned adoption paths re-establish the invariant) are
    # premises of this property as much as of C01 (seed C07-c: a strong backward barrier that ignores weakly marked
    # children leaves a stashed, rooted object dead in the eyes of the finalizer)
    for t in ("trace", "mark_one", "backward_barrier", "backward_barrier_weak", "forward_barrier", "forward_barrier_weak",
              "root_barrier"):
        typestate.apply(chk, "marking-complete:" + t, t, aspects=("safety",))
    typestate.apply(chk, "marking-complete:adoption-paths", "adopt", aspects=("safety",))
    typestate.apply(chk, "marking-complete:root-paths", "root_paths", aspects=("safety",))
    common.protocol_rows(chk, prog, "marked-arena-protocol", ["mark_debt", "finish_marking", "start_sweeping"], aspects=("handout",))
    prog.edges()
    # Finalization only for MarkedArena holders
    for f in c03.entry_points(prog):
        pred = prog.reachable_from([f["n"]])
        if "context::Context::finalization_context" in pred:
            ins = f.get("inputs") or []
            t0 = prog.ty(ins[0]["ty"]) if ins else {}
            ok = t0.get("k") == "adt" and t0["def"] == "arena::MarkedArena"
            chk.inst("finalization-only-from-marked-arena", f["n"], ok,
                     detail="`%s` produces a Finalization handle without consuming a MarkedArena" % f["n"])
    n = len([e for e in prog.callers_of("context::Context::finalization_context")])
    chk.floor("finalization_context-callers", n, 1)
    # MarkedArena construction sites
    sites = []
    for d_raw, key in prog.seed.items():
        b = prog.bodies[key]
        for bb in b["blocks"]:
            for s in bb["s"]:
                if s["k"] == "assign" and s["r"]["k"] == "agg" and s["r"]["ak"].get("def") == "arena::MarkedArena":
                    sites.append(prog.fn_of_closure(__import__("gcv.model", fromlist=["norm"]).norm(d_raw)))
    chk.floor("MarkedArena-construction-sites", len(sites), 1)
    # the two protocol-checked methods are interpreted end to end (private helpers below them included), so a
    # construction site is covered when it is reachable only through them
    checked = {"arena::Arena::mark_debt", "arena::Arena::finish_marking"}
    bad = sorted({s for s in sites if common.escapes(prog, s, checked) is not None})
    chk.inst("MarkedArena-constructed-only-by-protocol-checked-methods", "arena::MarkedArena", not bad,
             detail="MarkedArena constructed in %s, reachable from outside mark_debt / finish_marking, whose Some/None "
                    "contract is what the protocol rows cover" % bad)
    # "resurrect returns None exactly for destructed targets" (and is_dead / upgrade likewise) reads the live flag: the
    # flag must track destruction on every exit of the sweep, the unwinding one out of a panicking destructor included
    # (seed C07-f: a shared destruct helper clearing the flag after the destructor call in the weakly-kept arm)
    typestate.apply(chk, "live-flag-tracks-destruction", "sweep_one", only=lambda r: r.pre.get("cursor") == "WW",
                    aspects=("once", "weak"))
    typestate.report_automaton(chk, ["S2", "S7", "S6"])


def run(chk, tier):
    from gcv import heap_check
    heap_check.report(chk, tier, owns=("H5",))
    cfgs = typestate.configs(tier)
    chk.extra["feature_configs"] = cfgs
    for c in cfgs:
        chk.cfg = c
        n_expl = len(chk.explanation)
        nd = len(chk.not_decided)
        run_config(chk, tier, c)
        if c != cfgs[0]:
            del chk.explanation[n_expl:]
            del chk.not_decided[nd:]
    chk.cfg = None
