"""Rules shared by several properties (who-may-call over the resolved call graph etc.)."""
from gcv.model import norm
from gcv.props import C03 as c03


def field_writers(prog, adt_path, field):
    """Functions containing a MIR assignment to `<adt>.field` (through any deref chain)."""
    a = prog.all_adts[adt_path]
    idx = [i for i, f in enumerate(a["variants"][0]["fields"]) if f["name"] == field][0]
    out = []
    from gcv.model import _place_ty
    for d_raw, key in prog.seed.items():
        b = prog.bodies[key]
        for bb in b["blocks"]:
            for s in bb["s"]:
                if s["k"] != "assign":
                    continue
                pl = s["p"]
                pr = pl["p"]
                if pr and pr[-1][0] == "f" and pr[-1][1] == idx:
                    bt = _place_ty(prog, b, {"l": pl["l"], "p": pr[:-1]})
                    if bt is not None and prog.adt_of(bt) == adt_path:
                        out.append((norm(d_raw), s["l"], b["span"]["f"]))
    return out


def phase_writers(chk, prog):
    """Context.phase is written only by code that no callback-side (non-exclusive) entry point reaches."""
    ws = field_writers(prog, "context::Context", "phase")
    fns = sorted({prog.fn_of_closure(w[0]) for w in ws})
    chk.floor("phase-writers", len(fns), 1)
    prog.edges()
    for f in c03.entry_points(prog):
        if c03.exclusive_arena_sig(prog, f):
            continue
        pred = prog.reachable_from([f["n"]], stop={c03.CTX_DROP})
        hit = [w for w in fns if w in pred]
        chk.inst("phase-not-writable-from-callbacks", f["n"], not hit,
                 detail="`%s` (callable while a callback runs) reaches a writer of Context.phase: %s" % (
                     f["n"], " -> ".join(prog.path_to(pred, hit[0])) if hit else ""),
                 nontrivial=False)
    chk.inst("phase-writers-inventory", "context::Context.phase", True,
             sample={"writers": fns})


def collection_call_sites(chk, prog):
    """Informational only: the (run_until, stop) constants each caller passes to do_collection. The verdict on the
    per-method protocol comes from interpreting the Arena methods end to end (helpers that forward the two
    arguments are followed), so a non-constant argument at an intermediate call site is not an alarm."""
    sites = []
    for e in prog.callers_of("context::Context::do_collection"):
        t = e.term
        body = prog.body_of(e.caller_raw)
        consts = [_const_variant(prog, body, a) for a in t["args"][2:4]]
        sites.append({"caller": e.caller, "run_until": consts[0], "stop": consts[1]})
    chk.extra["do_collection_call_sites"] = sites
    chk.anchor("context::Context::do_collection callers", bool(sites))


def _const_variant(prog, body, op):
    if op.get("k") == "const" and "v" in op and "variant" in op["v"]:
        t = prog.ty(op["ty"])
        a = prog.all_adts.get(t.get("def"))
        if a:
            return a["variants"][op["v"]["variant"]]["name"]
    if op.get("k") in ("copy", "move") and not op["p"]["p"]:
        # local assigned once from an aggregate / constant
        l = op["p"]["l"]
        for bb in body["blocks"]:
            for s in bb["s"]:
                if s["k"] == "assign" and s["p"]["l"] == l and not s["p"]["p"]:
                    r = s["r"]
                    if r["k"] == "agg" and r["ak"]["k"] == "adt" and not r["ops"]:
                        a = prog.all_adts.get(r["ak"]["def"])
                        return a["variants"][r["ak"]["variant"]]["name"] if a else None
                    if r["k"] == "use":
                        return _const_variant(prog, body, r["o"])
    return None


def escapes(prog, c, allowed, entry=None):
    """Reverse closure from function `c`, stopping at members of `allowed`: the first externally callable (or
    caller-less) function found outside `allowed`, or None when `c` is only reachable through `allowed`."""
    prog.edges()
    if entry is None:
        entry = {f["n"] for f in c03.entry_points(prog)}
    seen = {c}
    work = [c]
    while work:
        f = work.pop()
        base = prog.fn_of_closure(f)
        if f in allowed or base in allowed:
            continue
        preds = {e.caller for e in prog.callers_of(f)}
        if f != base:
            preds.add(base)
        if f in entry or not preds:
            return f
        for p in preds:
            if p not in seen:
                seen.add(p)
                work.append(p)
    return None


def confined(chk, prog, rule, target, allowed, what):
    """Every direct caller of `target` is one of `allowed` or is reachable (in the reverse call graph,
    not expanding through `allowed`) only from `allowed` functions: no root / externally callable
    function reaches the call except through an analysed primitive. Refactor-tolerant form of a
    who-may-call table: private helpers below the analysed primitives are accepted."""
    prog.edges()
    allowed = set(allowed)
    entry = {f["n"] for f in c03.entry_points(prog)}
    callers = sorted({e.caller for e in prog.callers_of(target)})
    if not callers:
        chk.violation("ANCHOR-MISSING", target, "no call site of `%s` found" % target)
        return 0
    n = 0
    for c in callers:
        n += 1
        bad = escapes(prog, c, allowed, entry)
        chk.inst(rule, "%s<-%s" % (target, c), bad is None,
                 detail="%s: `%s` is called from `%s`, reachable from `%s` which is outside the analysed "
                        "primitives %s" % (what, target, c, bad, sorted(allowed)),
                 sample={"target": target, "direct_caller": c, "confined_to": sorted(allowed)})
    return n


def protocol_rows(chk, prog, rule, methods, with_pacing=False, general=True, per_method=True, aspects=None):
    import re as _re
    from gcv import protocol, spec_protocol
    P = protocol.Protocol(prog)
    n_out = 0
    for method in methods:
        for entry in P.entry_states():
            if method == "start_sweeping" and not (entry[0] == "Mark" and entry[1] == 0):
                continue
            key = "%s(from=%s,pending=%s,cursor=%s,list=%s)" % (method, entry[0], entry[1],
                                                                "some" if entry[2] else "none", "some" if entry[3] else "empty")
            try:
                outs = P.run(method, entry)
            except Exception as e:
                chk.inst(rule, key, False, detail="could not be analysed: %s: %s" % (type(e).__name__, e))
                continue
            probs = []
            for o in outs:
                n_out += 1
                if general:
                    probs += spec_protocol.general(method, entry, o)
                if per_method and o["kind"] in ("return", "unwind"):
                    probs += spec_protocol.per_method(method, entry, o)
                if with_pacing:
                    probs += spec_protocol.pacing_structure(method, entry, o)
            if aspects is not None:
                keep = []
                for p_ in probs:
                    m_ = _re.match(r"^\[([a-z-]+)\] ", p_)
                    if (m_.group(1) if m_ else "walk") in aspects:
                        keep.append(p_)
                probs = keep
            probs = sorted(set(probs))
            chk.inst(rule, key, not probs, detail="; ".join(probs[:4]),
                     sample={"method": method, "entry": entry, "outcomes": len(outs)})
    chk.extra["protocol_outcomes_explored"] = chk.extra.get("protocol_outcomes_explored", 0) + n_out


# ---------------------------------------------------------------------------------------------- exported macros
# An exported macro_rules! whose expansion contains `unsafe` lets client code that never writes `unsafe`
# execute unsafe operations: each such macro is part of the trusted surface and must be reviewed. Reviewed
# entries (one line of reason each; their behaviour is pinned by witness probes, not by their text):
REVIEWED_UNSAFE_MACROS = {
    "barrier::__field": "field projection of a &Write by a destructuring pattern with explicit `&` and `ref` (cannot call Deref, "
                        "cannot pass through a plain reference), __from_ref_and_ptr rejects coerced bindings; probes "
                        "C13/field_through_{gc,box_deref,ref}",
    "collect::static_collect": "emits `unsafe impl Collect` with NEEDS_TRACE = false only under a `$type: 'static` where-clause; "
                               "probe C12/static_collect_branded_root",
    "collect::__dyn_collect": "emits Collect for a trait-object type forwarding to DynCollect::dyn_trace, which only exists when "
                              "the trait has DynCollect<'gc> as a supertrait (type error otherwise)",
    "unsize::unsize": "passes an identity closure `*const T -> *const U` (compiles only for a valid unsizing coercion) to "
                      "__coerce_unchecked, which rebuilds the pointer with the same brand; probes C19/unsize_incompatible, legit_conversions",
}


def _strip_comments(src):
    import re as _re
    src = _re.sub(r"/\*.*?\*/", " ", src, flags=_re.S)
    return _re.sub(r"//[^\n]*", " ", src)


def metavars_in_unsafe(src):
    """Expression-like metavariables (`$x:expr`, `tt`, `block`, `stmt`, `pat`, `item`) that a macro transcribes
    *inside* an `unsafe { .. }` block: the caller's tokens are then type-checked in an unsafe context, so client code
    free of `unsafe` can call unsafe functions through the macro. Returns [(metavariable, fragment kind)]."""
    import re as _re
    body = _strip_comments(src)
    body = _re.sub(r'"(?:\\.|[^"\\])*"', '""', body)
    kinds = dict(_re.findall(r"\$([A-Za-z_][A-Za-z0-9_]*)\s*:\s*([a-z_]+)", body))
    risky = {k for k, v in kinds.items() if v in ("expr", "tt", "block", "stmt", "pat", "pat_param", "item", "expr_2021")}
    out = []
    i = 0
    for m in _re.finditer(r"\bunsafe\s*\{", body):
        j = m.end()
        depth = 1
        while j < len(body) and depth:
            ch = body[j]
            if ch == "{":
                depth += 1
            elif ch == "}":
                depth -= 1
            j += 1
        block = body[m.end():j]
        for mv in _re.findall(r"\$([A-Za-z_][A-Za-z0-9_]*)", block):
            if mv in risky and (mv, kinds[mv]) not in out:
                out.append((mv, kinds[mv]))
    return out


def macro_args_outside_unsafe(chk, prog, c):
    """Every exported macro (whoever owns its review): no expression-like argument is transcribed inside `unsafe { }`."""
    ms = prog.f.get("macros")
    if not chk.anchor("macro inventory from the driver", ms is not None, "(config %s)" % c):
        return
    n = 0
    for m in ms:
        if not m["public"]:
            continue
        n += 1
        leaked = metavars_in_unsafe(m["source"])
        chk.inst("macro-arguments-outside-unsafe", "%s[%s]" % (m["path"], c), not leaked,
                 detail="exported macro `%s` transcribes its argument(s) %s inside an `unsafe { }` block: the caller's expression "
                        "is type-checked in an unsafe context, so client code that never writes `unsafe` can call unsafe functions "
                        "(raw pointer constructors, casts, the unsafe cache allocation) through it" % (
                            m["path"], ", ".join("$%s:%s" % x for x in leaked)),
                 loc="%s:%s" % (m["span"]["f"], m["span"]["l"]), sample={"macro": m["path"]})
    chk.floor("exported-macros[%s]" % c, n, 3)


def unsafe_macros(chk, prog, owner, c):
    """owner 'C13': macros whose expansion deals in Write / barrier items; owner 'C12': all other exported macros."""
    import re as _re
    ms = prog.f.get("macros")
    if not chk.anchor("macro inventory from the driver", ms is not None, "(config %s)" % c):
        return
    n = 0
    for m in ms:
        if not m["public"]:
            continue
        n += 1
        body = _strip_comments(m["source"])
        if not _re.search(r"\bunsafe\b", body):
            chk.inst("unsafe-bearing-exported-macro", "%s[%s]" % (m["path"], c), True, nontrivial=False)
            continue
        group = "C13" if _re.search(r"\bWrite\b|\bbarrier\b|\bunlock", body) else "C12"
        if group != owner:
            continue
        leaked = metavars_in_unsafe(m["source"])
        chk.inst("macro-arguments-outside-unsafe", "%s[%s]" % (m["path"], c), not leaked,
                 detail="exported macro `%s` transcribes its argument(s) %s inside an `unsafe { }` block: the caller's expression "
                        "is type-checked in an unsafe context, so client code that never writes `unsafe` can call unsafe functions "
                        "(raw pointer constructors, casts, the unsafe cache allocation) through it" % (
                            m["path"], ", ".join("$%s:%s" % x for x in leaked)),
                 loc="%s:%s" % (m["span"]["f"], m["span"]["l"]), sample={"macro": m["path"]})
        rev = REVIEWED_UNSAFE_MACROS.get(m["path"])
        chk.inst("unsafe-bearing-exported-macro", "%s[%s]" % (m["path"], c), rev is not None,
                 detail="exported macro `%s` expands to code containing `unsafe` and is not in the reviewed table: client code "
                        "free of `unsafe` can now execute unsafe operations through it (for a projection / constructor of "
                        "&Write this is a way to write without a barrier)" % m["path"],
                 loc="%s:%s" % (m["span"]["f"], m["span"]["l"]),
                 sample={"macro": m["path"], "reviewed": rev})
    chk.floor("exported-macros[%s]" % c, n, 3)
