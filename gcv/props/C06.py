"""C06 — every documented barrier path makes adoption safe (DESIGN.md §4 C06)."""
from gcv import typestate


def run_config(chk, tier, cfgname):
    prog, T = typestate.engine(cfgname)
    chk.explain("C06: the four explicit barriers are run through Mutation's public API on every (phase, parent "
                "colour, parent needs-trace, child colour/liveness, None/alias argument) state and must satisfy the "
                "tri-colour post-condition (no Black parent with a condemned child; general forms keep their "
                "strength) with only colour/queue/credit bookkeeping changing and no panic; the root barrier flags "
                "the root while marking; every sanctioned adoption path (Gc::write/unlock, Gc<Lock>::set, "
                "Gc<RefLock>::borrow_mut/try_borrow_mut, Gc<OnceLock>::set/get_or_init, DynamicRootSet::stash, "
                "Arena::mutate_root/map_root/try_map_root) is abstractly interpreted end-to-end and must leave the "
                "holder un-Black / the root flagged whenever it hands out write access or stores.")
    chk.not_decided += ["survival of the adopted target over the following cycles as a history (O2/O3/O5 composed)",
                        "debt before/after a barrier-only callback (C10 polarity clause)"]
    n = 0
    for t in ("backward_barrier", "backward_barrier_weak", "forward_barrier", "forward_barrier_weak", "root_barrier"):
        n += typestate.apply(chk, t + "-table", t, aspects=("safety", "weak", "panic"))
    na = typestate.apply(chk, "adoption-paths", "adopt", aspects=("safety", "panic"))
    nr = typestate.apply(chk, "root-paths", "root_paths", aspects=("safety", "panic"))
    paths = {r.pre["path"] for r in T.get("adopt")} | {r.pre["path"] for r in T.get("root_paths")
                                                       if r.pre["path"] in ("Arena::mutate_root", "Arena::map_root", "Arena::try_map_root")}
    chk.floor("adoption-path-instances", len(paths), 8)
    typestate.report_automaton(chk, ["PANIC", "S7", "S2"])


def run(chk, tier):
    from gcv import heap_check
    heap_check.report(chk, tier, owns=("PANIC-mutator",))
    cfgs = typestate.configs(tier)
    chk.extra["feature_configs"] = cfgs
    for c in cfgs:
        chk.cfg = c
        n_expl = len(chk.explanation)
        nd = len(chk.not_decided)
        run_config(chk, tier, c)
        if c != cfgs[0]:
            del chk.explanation[n_expl:]
            del chk.not_decided[nd:]
    chk.cfg = None
