"""C04 — every value destructed exactly once, memory returned (DESIGN.md §4 C04)."""
from gcv import typestate, cfg
from gcv.props import common


def run_config(chk, tier, cfgname):
    prog, T = typestate.engine(cfgname)
    chk.explain("C04: exactly-once typestate (S6) on the automaton (a destruct fires only from live=1 and is "
                "followed by live=0 or unlink/free, on normal and unwind exits); Drop for Context destructs every "
                "live value once and frees every block once from every phase over all short list shapes, resuming "
                "after a panicking destructor; nothing is touched after release (use-after-free events in any "
                "table); the live flag is set only at allocation; release layout = request layout by sibling term "
                "agreement (decided in the C17 check, referenced here); the primitives the tables treat as 'destructed' / "
                "'released' (GcPtr::drop_in_place / dealloc) forward to their vtable slot on every path and the slot's "
                "closure destructs / releases the allocated type (an optional slot may be empty only by a needs_drop "
                "decision for that very type).")
    chk.not_decided += ["that the allocator received every block back for concrete histories (needs the all-list "
                        "to contain every allocation: list-shape rule O7 is the structural part)",
                        "purity of user AllocMeta::layout"]
    typestate.apply(chk, "sweep-outcome-table", "sweep_one", aspects=("safety", "once", "leak"))
    typestate.apply(chk, "drop_all-table", "drop_all", aspects=("safety", "count", "once", "leak"))
    typestate.apply(chk, "link-table", "link", aspects=("safety",))
    typestate.report_automaton(chk, ["S6", "S1"])
    # the value handed to an allocation function is moved into the block (otherwise it is destructed at once by the
    # allocating function and a second time by the collector)
    from gcv import rules_builder
    rules_builder.value_moved_into_block(chk, prog)
    # set_live(true) only at allocation: every call passing `true` is followed by linking the same block
    prog.edges()
    n = 0
    for e in prog.callers_of("gc_ptr::GcHeader::set_live"):
        arg = e.term["args"][1]
        val = arg.get("v", {}).get("int") if arg.get("k") == "const" else None
        if val == 1 or val is None:
            n += 1
            body = prog.body_of(e.caller_raw)
            link_blocks = [x.bb for x in prog.calls_from(e.caller) if x.callee in ("context::Mutation::link", "context::Context::link")]
            r = cfg.reach_from(body, [e.bb], unwind=False)
            ok = any(b in r for b in link_blocks)
            chk.inst("live-set-only-at-allocation", e.caller, ok,
                     detail="`%s` sets the live flag (%s) of an object without linking it as a fresh allocation: a "
                            "destructed value could be flagged live again" % (e.caller, "true" if val == 1 else "non-constant"),
                     loc="%s:%s" % (e.file, e.line))
    chk.floor("set_live(true)-sites", n, 1)
    from gcv import rules_layout, rules_prims
    rules_layout.agreement(chk, prog)
    # the events "destructed" / "released" of the tables are the primitives GcPtr::drop_in_place / dealloc: they
    # must forward to their vtable slot on every path and the slot must do the work for the allocated type
    rules_prims.check(chk, prog, which=("gc_ptr::GcPtr::drop_in_place", "gc_ptr::GcPtr::dealloc"), config=cfgname)


def run(chk, tier):
    from gcv import heap_check
    heap_check.report(chk, tier, owns=("H2",))
    cfgs = typestate.configs(tier)
    chk.extra["feature_configs"] = cfgs
    for c in cfgs:
        chk.cfg = c
        n_expl = len(chk.explanation)
        nd = len(chk.not_decided)
        run_config(chk, tier, c)
        if c != cfgs[0]:
            del chk.explanation[n_expl:]
            del chk.not_decided[nd:]
    chk.cfg = None
