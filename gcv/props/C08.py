"""C08 — collection-phase protocol (DESIGN.md §4 C08): abstract reachability of do_collection and
the Arena wrappers, interpreted from MIR, against the per-method table."""
from gcv import typestate, protocol, spec_protocol
from gcv.props import common


def run_config(chk, tier, cfgname):
    prog, T = typestate.engine(cfgname)
    chk.explain("C08: Context::do_collection, PhaseGuard, the derived comparisons on Phase/Stop/RunUntil and the "
                "six Arena/MarkedArena collection methods are interpreted from their MIR over every reachable "
                "abstract entry state (phase x pending-mark-work x sweep cursor x list emptiness) with the debt "
                "read nondeterministic and mark_one/sweep_one replaced by summaries justified by their own "
                "transition tables; every explored outcome (normal, unwinding) is compared with the per-method "
                "protocol table (contiguous Sleep->Mark->Sweep->Sleep walk, Sweep only after marking reported "
                "completion, per-method stop phases, Option-ness of the returned MarkedArena, collection_phase "
                "mapping). Callbacks cannot change the phase: no writer of Context.phase is reachable from a "
                "non-exclusive entry point.")
    P = protocol.Protocol(prog)
    n_out = 0
    for method in ("collect_debt", "mark_debt", "finish_marking", "cycle_debt", "finish_cycle", "start_sweeping"):
        chk.anchor(protocol.METHODS[method], protocol.METHODS[method] in prog.seed_n)
        for entry in P.entry_states():
            if method == "start_sweeping" and not (entry[0] == "Mark" and entry[1] == 0):
                continue
            key = "%s(from=%s,pending=%s,cursor=%s,list=%s)" % (method, entry[0], entry[1],
                                                                "some" if entry[2] else "none", "some" if entry[3] else "empty")
            try:
                outs = P.run(method, entry)
            except Exception as e:
                chk.inst("protocol", key, False, detail="could not be analysed: %s: %s" % (type(e).__name__, e))
                continue
            probs = []
            for o in outs:
                n_out += 1
                probs += spec_protocol.general(method, entry, o)
                if o["kind"] in ("return", "unwind"):
                    probs += spec_protocol.per_method(method, entry, o)
            if not any(o["kind"] == "return" for o in outs):
                probs.append("no terminating path")
            probs = sorted(set(probs))
            chk.inst("protocol", key, not probs, detail="; ".join(probs[:4]),
                     sample={"method": method, "entry": entry, "outcomes": len(outs),
                             "exits": sorted({(o["kind"], o["ret"], o["phase"], o["pending"]) for o in outs}, key=str)[:6]})
    # collection_phase mapping
    want = {("Sleep", 1): "Sleeping", ("Mark", 1): "Marking", ("Mark", 0): "Marked", ("Sweep", 0): "Sweeping"}
    for entry in P.entry_states():
        outs = P.run("collection_phase", entry)
        rets = {o["ret"] for o in outs}
        chk.inst("collection_phase-mapping", "collection_phase(%s,pending=%s)" % (entry[0], entry[1]),
                 rets == {want[(entry[0], entry[1])]}, detail="reports %s, specification says %s" % (rets, want[(entry[0], entry[1])]))
    chk.extra["outcomes_explored"] = n_out
    # gray_remaining is what Marking-vs-Marked is derived from
    typestate.apply(chk, "gray_remaining-table", "gray_remaining")
    # ... and mark_one is what makes the pending work go away: the summary the exploration above replaces it by
    # (Continue: one unit of pending work done; Break: nothing was pending; unwinding: nothing pending is lost) is
    # this property's obligation on mark_one's own rows - "Marked", and with it the start of a sweep, must not be
    # reached by *losing* pending work (a root flag cleared before a root trace that then panics, an interrupted
    # object not requeued)
    import re as _re
    pending_work = _re.compile(r"root flag|root flagged|nothing owed|after tracing the root|must be Gray and queued|"
                               r"could not be analysed")
    typestate.apply(chk, "mark_one-pending-work", "mark_one",
                    specfn=lambda r: [p_ for p_ in typestate.SPECS["mark_one"](r) if pending_work.search(p_)])
    # ... and likewise for sweep_one: Continue while there is an object at the cursor (which then advances), Break - with
    # the predecessor cleared - only at the end of the list, no phase / root-flag / queue change: "ends Sleeping" and
    # "never passes into a new Marking" are stated on exactly this summary
    sweep_progress = _re.compile(r"empty cursor|cursor not advanced|with an object at the cursor|sweep_prev not cleared|"
                                 r"changed phase|could not be analysed")
    typestate.apply(chk, "sweep_one-progress", "sweep_one",
                    specfn=lambda r: [p_ for p_ in typestate.SPECS["sweep_one"](r) if sweep_progress.search(p_)])
    typestate.apply(chk, "phase-table", "phase", specfn=lambda r: [] if (not r.err and all(
        o.ret == r.pre["phase"] for o in r.outs)) else ["Context::phase() does not report the stored phase"])
    common.phase_writers(chk, prog)
    # run_until / stop constants at the call sites (floor 6)
    common.collection_call_sites(chk, prog)


def run(chk, tier):
    cfgs = typestate.configs(tier)
    chk.extra["feature_configs"] = cfgs
    for c in cfgs:
        chk.cfg = c
        n_expl = len(chk.explanation)
        nd = len(chk.not_decided)
        run_config(chk, tier, c)
        if c != cfgs[0]:
            del chk.explanation[n_expl:]
            del chk.not_decided[nd:]
    chk.cfg = None
