"""C01 — no strongly reachable value is dropped or freed (DESIGN.md §4 C01): the local obligations
O1..O8 of the tri-colour argument, each for all abstract pre-states, plus call-site discipline."""
from gcv import typestate
from gcv.props import common

PRIMS = ["context::Context::sweep_one"]      # + the arena-drop walker (DropAll), resolved by shape per program
# collector primitives whose every abstract pre-state is interpreted by a transition table above: a destruct /
# release below one of them is judged by that table's safety spec (it alarms iff the object may be strongly
# reachable), so the who-may-call rule only has to exclude sites that no table covers
TABLED = ["context::Context::" + m for m in (
    "trace", "trace_weak", "upgrade", "resurrect", "backward_barrier", "backward_barrier_weak", "forward_barrier",
    "forward_barrier_weak", "root_barrier", "mark_one", "link", "make_gray_again")]


def run_config(chk, tier, cfgname):
    prog, T = typestate.engine(cfgname)
    chk.explain("C01: the premises of the tri-colour safety induction are machine-checked on transition tables "
                "extracted by abstract interpretation of the current MIR from every abstract pre-state (colour x "
                "live x needs-trace x queue membership x phase, incl. aliasing and None arguments) and on the "
                "per-object typestate automaton: O1 values are destructed/freed only by sweep (White/WhiteWeak "
                "per table) and arena drop; O2 tracing a child never leaves it condemned; O3 blackening is complete "
                "or undone (incl. unwind rows); O4/S7 Gray <=> queued; O5/S2 sweeping starts only fully marked with "
                "cursor = list head; O6 write/root barriers re-establish the invariant; O7 allocation is invisible "
                "to a running sweep; O8/S3 a new cycle starts clean and re-flags the root; every sanctioned adoption "
                "path reaches its barrier. The global theorem follows by the induction in DESIGN.md §7.")
    chk.not_decided += ["the global induction over heap graphs and histories (paper argument, DESIGN.md §7)",
                        "exactness of user Collect::trace impls (C15/C16 cover derived and provided ones)",
                        "Vec-backed queue correctness (trusted)"]
    typestate.apply(chk, "O2-trace-table", "trace", aspects=("safety",))
    typestate.apply(chk, "O3-mark_one-table", "mark_one", aspects=("safety",))
    typestate.apply(chk, "O1-sweep_one-table", "sweep_one", aspects=("safety",))
    typestate.apply(chk, "O1-drop_all-table", "drop_all", aspects=("safety",))
    typestate.apply(chk, "O7-link-table", "link", aspects=("safety",))
    for t in ("backward_barrier", "backward_barrier_weak", "forward_barrier", "forward_barrier_weak", "root_barrier"):
        typestate.apply(chk, "O6-" + t + "-table", t, aspects=("safety",))
    typestate.apply(chk, "O6-adoption-paths", "adopt", aspects=("safety",))
    typestate.apply(chk, "O6-root-paths", "root_paths", aspects=("safety",))
    typestate.report_automaton(chk, ["S1", "S2", "S3", "S7", "ANALYSIS"])
    common.protocol_rows(chk, prog, "O5-O8-protocol", ["collect_debt", "finish_cycle", "start_sweeping", "cycle_debt"],
                         per_method=False, aspects=("safety",))
    # O1 free-site discipline
    PRIMS = globals()["PRIMS"] + prog.arena_drop_walkers()
    n = common.confined(chk, prog, "O1-free-sites", "gc_ptr::GcPtr::drop_in_place", PRIMS + TABLED,
                        "value destructed outside sweep/arena drop and outside every table-analysed primitive")
    n += common.confined(chk, prog, "O1-free-sites", "gc_ptr::GcPtr::dealloc",
                         PRIMS + TABLED + ["<gc::GcBuilder as core::ops::drop::Drop>::drop"],
                         "block released outside sweep/arena drop/builder drop and outside every table-analysed primitive")
    chk.floor("free-sites", n, 3)
    slots, inits = prog.vtable_slots()
    chk.inst("O1-single-vtable-initialiser", "gc_ptr::GcVtable", len(set(inits)) == 1,
             detail="GcVtable is initialised in %s (must be the single const VtableFor::VTABLE)" % sorted(set(inits)))
    # the allocator's release is reached only through the closures stored in the GcVtable slots (helpers below
    # them are fine): nothing else can return a block
    common.confined(chk, prog, "O1-allocator-release-only-in-vtable-slot", "alloc::alloc::dealloc", sorted(set(slots.values())),
                    "the allocator's dealloc is reachable without going through the vtable's dealloc slot")
    # Collect impls of the collector's own pointer-holding types (not the containers of C16's list): Gc, GcWeak,
    # ZstCache, the dynamic-root tables, dyn DynCollect. If one of them under-reports (or claims NEEDS_TRACE =
    # false while holding a pointer) a reachable value is lost without any barrier or sweep rule being broken.
    from gcv.props import C16 as c16
    own = 0
    for im in prog.impls:
        if im.get("trait") != "collect::Collect":
            continue
        t = prog.ty(im["self"])
        d = t.get("def") if t.get("k") == "adt" else ("dyn" if t.get("k") == "dyn" else None)
        # (the lock types are the interior-mutability cells every mutable pointer field lives in: an incomplete trace of
        # theirs hides strongly reachable objects from the marker just as one of Gc's own would - seed C01-f)
        if d in ("gc::Gc", "gc_weak::GcWeak", "zst_cache::ZstCache", "dyn") or (d or "").startswith(("dynamic_roots::", "lock::")):
            own += 1
            c16.check_impl(chk, prog, im, cfgname)
    chk.floor("collector-own-collect-impls", own, 6)
    allocation_state(chk, prog, cfgname)
    # the end of an arena's life: Arena's drop glue drops the context (which destructs and releases every allocation)
    # before the root (the root, possibly unsized, is the last field). Nothing may look at the objects in between: a
    # root type with a destructor of its own could. Either the root is dropped first, or every constructor demands a
    # root that is Collect for every brand - such a type implements Drop only under the unsafe_drop promise.
    a_ = prog.adts.get("arena::Arena")
    if chk.anchor("arena::Arena", a_ is not None):
        fields = a_["variants"][0]["fields"]
        ci = [i for i, f_ in enumerate(fields) if "context::Context" in f_.get("ty_s", "") or "Context" in f_.get("ty_s", "")]
        ri = [i for i, f_ in enumerate(fields) if "Rootable<" in f_.get("ty_s", "")]
        root_first = bool(ci) and bool(ri) and max(ri) < min(ci) and not a_.get("drop_impl")
        from gcv.props import C12 as _c12

        class _Probe:
            def __init__(self): self.ok = True; self.n = 0
            def inst(self, rule, inst, ok, **kw): self.ok = self.ok and bool(ok); self.n += 1
            def floor(self, *a): pass
        pr_ = _Probe()
        _c12.constructors_demand_collect(pr_, prog, cfgname)
        chk.inst("root-destructor-never-sees-freed-objects", "arena::Arena[%s]" % cfgname, root_first or (pr_.ok and pr_.n >= 4),
                 detail="Arena drops its context - destructing and freeing every allocation - before its root (fields %s), and "
                        "its constructors accept roots that are not Collect: such a root's own Drop impl (safe code) can "
                        "dereference Gc pointers to freed memory" % [f_["name"] for f_ in fields],
                 sample={"field_order": [f_["name"] for f_ in fields], "root_dropped_first": root_first,
                         "constructors_demand_collect": pr_.ok})
    initial_collector_state(chk, prog, T, cfgname)
    # the event "value traced" of the mark_one table is GcPtr::trace_value: it must forward to the vtable's
    # trace slot, whose closure calls Collect::trace of the allocated type, on every path
    from gcv import rules_prims
    rules_prims.check(chk, prog, which=("gc_ptr::GcPtr::trace_value",), config=cfgname)
    chk.extra["functions_analysed"] = len(prog.seed)


def run(chk, tier):
    from gcv import heap_check
    heap_check.report(chk, tier, owns=("H1", "PANIC"), fault_owns=("H1",))
    cfgs = typestate.configs(tier)
    chk.extra["feature_configs"] = cfgs
    for c in cfgs:
        chk.cfg = c
        n_expl = len(chk.explanation)
        nd = len(chk.not_decided)
        run_config(chk, tier, c)
        if c != cfgs[0]:
            del chk.explanation[n_expl:]
            del chk.not_decided[nd:]
    chk.cfg = None


def allocation_state(chk, prog, c):
    """The typestate automaton starts every object as (White, live, needs-trace = that of its type). The last
    component is established by the allocation path: every function that obtains a block from GcPtr::alloc must,
    on every path to its return, store into the header's needs-trace flag the constant
    `<T as Collect>::NEEDS_TRACE` of the very type it allocates (or `true`, which is merely conservative). A block
    flagged `false` for a pointer-holding type is blackened without ever being traced: its children are lost."""
    from gcv import cfg as _cfg, layout_terms
    prog.edges()
    allocs = list(prog.callers_of("gc_ptr::GcPtr::alloc"))
    chk.floor("GcPtr::alloc-callers", len(allocs), 1)
    # which functions store their argument into the flag is read off their effect (C17's encoding analysis), so a
    # constructor taking the flag counts as much as the setter does
    est = layout_terms.needs_trace_establishers(prog)
    chk.floor("needs-trace-establishers", len(est), 1)
    chk.extra.setdefault("needs_trace_establishers", {})[c] = sorted(est)

    def judge(x, a_ty, own_param):
        """(good?, problem) for one call of an establisher; the flag argument must be the NEEDS_TRACE constant of the
        allocated type (`a_ty`, or the allocator's own type parameter when the call sits inside GcPtr::alloc)."""
        arg = x.term["args"][est[x.callee]]
        if arg.get("k") == "const" and "uneval" in arg and arg["uneval"]["def"] == "collect::Collect::NEEDS_TRACE":
            t = [a["ty"] for a in arg["uneval"]["args"] if "ty" in a][:1]
            want = own_param if own_param is not None else a_ty
            if t and want is not None and t[0] != want:
                return False, "needs-trace flag taken from `%s`, but the block is allocated for `%s`" % (
                    arg["uneval"]["s"], prog.ty(want)["s"])
            return True, None
        if arg.get("k") == "const" and arg.get("v", {}).get("int") == 1:
            return True, None
        return False, "needs-trace flag set from %s, not from the allocated type's NEEDS_TRACE constant" % (
            arg.get("uneval", {}).get("s") or ("the constant false" if arg.get("k") == "const" else "a computed value"))

    def sites_in(body, fn, a_ty, own_param):
        sets = [x for x in prog.calls_from(fn) if x.callee in est]
        dom = _cfg.dominators(body, unwind=False)
        rets = [r for r in _cfg.return_blocks(body) if not body["blocks"][r].get("c")]
        probs, good = [], []
        for x in sets:
            ok, p = judge(x, a_ty, own_param)
            if ok:
                good.append(x.bb)
            else:
                probs.append(p)
        covered = bool(good) and all(any(g in dom[r] for g in good) for r in rets)
        return sets, probs, covered

    # inside the allocator itself the allocated type is its own first type parameter
    alloc_keys = prog.seed_n.get("gc_ptr::GcPtr::alloc") or []
    inner = ([], [], False)
    if alloc_keys:
        ab = prog.bodies[alloc_keys[0]]
        own = None
        for tid in ab["locals"]:
            t = prog.ty(tid)
            if t.get("k") == "adt" and t.get("def") == "gc_ptr::GcPtr" and t.get("args") and "ty" in t["args"][0]:
                own = t["args"][0]["ty"]
                break
        inner = sites_in(ab, "gc_ptr::GcPtr::alloc", None, own)
    for e in allocs:
        a_ty = None
        for a in e.term["f"].get("args", []):
            if "ty" in a:
                a_ty = a["ty"]
                break
        sets, probs, covered = sites_in(prog.body_of(e.caller_raw), e.caller, a_ty, None)
        if not sets:
            # the caller does not touch the flag: what the allocator itself established stands
            probs, covered = list(inner[1]), inner[2]
        if not probs and not covered:
            probs.append("a path returns the freshly allocated block without setting its needs-trace flag (it stays false)")
        chk.inst("allocation-sets-needs-trace", "%s[%s]" % (e.caller, c), not probs,
                 detail="; ".join(probs) + ": an object of a pointer-holding type flagged needs-trace = false is blackened "
                        "without being traced" if probs else "", loc="%s:%s" % (e.file, e.line),
                 sample={"allocator": e.caller, "flag_sites": len(sets), "flag_sites_in_allocator": len(inner[0])})


def initial_collector_state(chk, prog, T, c):
    """The protocol exploration starts from abstract entry states; a *new* arena must be one of the clean ones:
    Context::new, interpreted from its MIR, returns (phase Sleep, empty list, no cursor, both queues empty, root
    flagged for tracing). With the root flag clear the first cycle would mark nothing and sweep everything."""
    from gcv import interp as _interp, gcmodel
    from gcv.interp import State
    fn = "context::Context::new"
    if not chk.anchor(fn, fn in prog.seed_n, "(config %s)" % c):
        return
    m = T.m
    old = m.ip.lenient_std
    m.ip.lenient_std = True
    probs = []
    try:
        outs = [o for o in m.ip.run(prog.seed_n[fn][0], [], State()) if o.kind == "return"]
        if not outs:
            probs.append("no normal outcome")
        for o in outs:      # several under the `tracing` feature (opaque logging calls fork); all must be clean
            v = o.value
            get = lambda name: v[3][m.ctx_index(name)]
            if gcmodel.phase_name(prog, get("phase")) != "Sleep":
                probs.append("phase %s" % gcmodel.phase_name(prog, get("phase")))
            for f in ("all", "sweep", "sweep_prev"):
                x = get(f)
                if not (x[0] == "adt" and x[2] == 0):
                    probs.append("%s is not None" % f)
            if m.flag_decode(get("root_needs_trace")) != 1:
                probs.append("root_needs_trace is %s: the first cycle would not trace the root" % (get("root_needs_trace"),))
            for q in ("gray", "gray_again"):
                x = get(q)
                if not (x[0] == "adt" and x[3] and x[3][0] == ("vec", ())):
                    probs.append("queue %s not empty" % q)
    except (_interp.Unmodelled, _interp.InterpError, ValueError) as e:
        probs.append("could not be analysed: %s" % e)
    finally:
        m.ip.lenient_std = old
    chk.inst("initial-collector-state", "%s[%s]" % (fn, c), not probs,
             detail="a new arena does not start in the clean sleeping state: " + "; ".join(probs))
