"""C14 — DynamicRootSet (DESIGN.md §4 C14)."""
from gcv import typestate, slots, interp, cfg, rules_roots
from gcv.interp import Interp, State, TOP, UNIT, adt, ref, I
from gcv.props import C16 as c16, C12 as c12
from gcv.model import norm

OPT = "core::option::Option"
DR = "dynamic_roots::DynamicRoot"


def run_config(chk, tier, cfgname):
    prog, T = typestate.engine(cfgname)
    chk.explain("C14: (tracing) the Collect chain DynamicRootSet -> Inner -> Slots -> Vec<Slot> -> Slot traces every "
                "pointer-bearing field (coverage rule of C16 on these impls; Slot::Occupied.root is reported strong); "
                "(stash) the C06 adoption table for stash, and the issued handle carries the stashed pointer and the "
                "index returned by add; (slot tables) Slots::add/inc/dec are interpreted from MIR over every "
                "well-formed slot vector of length <= 3 (every mix of Vacant/Occupied(rc 0..2), every free-list "
                "order): add never overwrites an occupied slot and reuses exactly the free-list head, inc/dec move "
                "the count by one and dec vacates exactly at the last handle; (pairing) DynamicRoot values are built "
                "only in stash and Clone::clone; clone performs exactly one inc and Drop exactly one dec iff the set "
                "is still alive; (identity) fetch/try_fetch return the handle's pointer exactly on the true edge of "
                "contains(), fetch panics and try_fetch returns Err on the false edge.")
    chk.not_decided += ["'survives while a handle exists, collectable after the last drop' as an end-to-end history (it is "
                        "the count invariant + the tracing chain + C01)",
                        "behaviour after usize overflow of the count (guarded by checked_add)"]
    # tracing chain
    n = 0
    for im in prog.impls:
        if im.get("trait") == "collect::Collect" and im["self_s"].startswith("dynamic_roots::"):
            n += 1
            c16.check_impl(chk, prog, im, cfgname)
    chk.floor("dynamic-root-collect-impls", n, 2)
    slot_strong(chk, prog)
    typestate.apply(chk, "stash-adoption", "adopt", only=lambda r: r.pre["path"] == "DynamicRootSet::stash", aspects=("safety",))
    slots.run_tables(chk, prog, maxlen=3 if tier == "quick" else 4)
    slots.explore(chk, prog, depth=7 if tier == "quick" else 10, max_live=3 if tier == "quick" else 4,
                  max_handles=3 if tier == "quick" else 4)
    pairing(chk, prog)
    fetch_rules(chk, prog)
    c12.rebrand(chk, prog, cfgname)
    handle_never_touches_the_object(chk, prog)


def handle_never_touches_the_object(chk, prog, rule="outlived-handle-forms-no-reference"):
    """"Handles may outlive their arena harmlessly": a DynamicRoot is 'static and may be used - cloned, dropped, asked
    for its raw pointer - after the object, the set or the whole arena is gone; only the set's fetch / try_fetch /
    contains check that it is not. So no function *of the handle type itself* may reach one of the block accessors that
    hand out a reference into the block (the GcPtr methods returning `&..` that are not 'static data, and Gc's Deref /
    AsRef built on them): forming that reference to freed memory is undefined behaviour although nothing reads through
    it (F15: as_ptr went through Deref)."""
    prog.edges()
    forming = set()
    for n, fs in prog.fn_n.items():
        if n.startswith("gc_ptr::GcPtr::"):
            out = fs[0]["output"]["s"]
            if out.startswith("&") and not out.startswith("&'static"):
                forming.add(n)
    forming |= {n for n in prog.fn_n if n.startswith("<gc::Gc as core::ops::deref::Deref>::") or
                n.startswith("<gc::Gc as core::convert::AsRef>::") or n.startswith("<gc::Gc as core::borrow::Borrow>::")}
    if not chk.anchor("gc_ptr::GcPtr reference accessors", len(forming) >= 2):
        return
    n = 0
    for fn in sorted(prog.fn_n):
        if not (fn.startswith("dynamic_roots::DynamicRoot::") or fn.startswith("<dynamic_roots::DynamicRoot as ")):
            continue
        n += 1
        hit = sorted(set(prog.reachable_from([fn])) & forming)
        f = prog.fn_n[fn][0]
        chk.inst(rule, fn, not hit,
                 detail="`%s` is a function of the handle type - callable after the stashed object, the set or the arena is "
                        "gone - and reaches %s, which forms a reference into the (possibly freed) block" % (fn, hit),
                 loc="%s:%s" % (f["span"]["f"], f["span"]["l"]), sample={"reference_forming_accessors": sorted(forming)})
    chk.floor("handle-functions", n, 3)


def slot_strong(chk, prog):
    from gcv import coverage
    fn = "<dynamic_roots::Slot as collect::Collect>::trace"
    if not chk.anchor(fn, fn in prog.seed_n):
        return
    sites = coverage.trace_sites(prog, prog.bodies[prog.seed_n[fn][0]])
    chk.inst("slot-root-traced-strong", fn, len(sites) == 1 and sites[0].kind == "strong",
             detail="Slot::trace must report the stashed pointer with trace_gc (strong); found %s" % [s.kind for s in sites])


def _handle(prog):
    return rules_roots.handle_value(prog)


def pairing(chk, prog):
    prog.edges()
    # construction sites of DynamicRoot
    sites = set()
    for d_raw, key in prog.seed.items():
        for bb in prog.bodies[key]["blocks"]:
            for s in bb["s"]:
                if s["k"] == "assign" and s["r"]["k"] == "agg" and s["r"]["ak"].get("def") == DR:
                    sites.add(norm(d_raw))
    allowed = {"dynamic_roots::DynamicRootSet::stash", "<dynamic_roots::DynamicRoot as core::clone::Clone>::clone"}
    chk.inst("handle-construction-sites", DR, sites == allowed,
             detail="DynamicRoot values are built in %s; reviewed sites are %s (each pairs the handle with exactly one "
                    "add/inc)" % (sorted(sites), sorted(allowed)))
    # who may move a slot's handle count: add only from stash, inc only from Clone::clone, dec only from Drop::drop (or
    # private helpers reachable only through them). Any other caller - a clone_from override re-pointing a handle in
    # place, say - moves counts without the construction / destruction of a handle that the pairing rows decide,
    # and can do so on a table other than the handle's own.
    from gcv.props import common
    for target, allowed in (("dynamic_roots::Slots::add", {"dynamic_roots::DynamicRootSet::stash"}),
                            ("dynamic_roots::Slots::inc", {"<dynamic_roots::DynamicRoot as core::clone::Clone>::clone"}),
                            ("dynamic_roots::Slots::dec", {"<dynamic_roots::DynamicRoot as core::ops::drop::Drop>::drop"})):
        if chk.anchor(target, target in prog.seed_n):
            common.confined(chk, prog, "slot-count-callers", target, allowed,
                            "the handle count of a slot moves outside the reviewed handle events")
    # a handle is immutable after construction: no function assigns to a field of an existing DynamicRoot (which would
    # re-point it without the paired count moves the construction sites are checked for)
    writers = set()
    for d_raw, key in prog.seed.items():
        body = prog.bodies[key]
        for bb in body["blocks"]:
            for st_ in bb["s"]:
                if st_["k"] != "assign" or not st_["p"]["p"]:
                    continue
                tid = body["locals"][st_["p"]["l"]]
                for pr in st_["p"]["p"]:
                    t = prog.ty(tid) if tid is not None else {}
                    if pr[0] == "f" and t.get("k") == "adt" and t.get("def") == DR:
                        writers.add(norm(d_raw))
                        break
                    if pr[0] == "d":
                        tid = t.get("ty") if t.get("k") in ("ref", "ptr") else None
                    elif pr[0] == "f" and t.get("k") == "adt":
                        a_ = prog.all_adts.get(t["def"])
                        try:
                            tid = a_["variants"][0]["fields"][pr[1]].get("ty") if a_ and a_["kind"] == "struct" else None
                        except (IndexError, KeyError):
                            tid = None
                    elif pr[0] == "f" and t.get("k") == "tuple":
                        tid = t["elems"][pr[1]]
                    else:
                        tid = None
                    if tid is None:
                        break
    chk.inst("handle-immutable-after-construction", DR, not writers,
             detail="%s assign(s) to a field of an existing DynamicRoot: the handle is re-pointed in place, outside the "
                    "reviewed construction sites that pair it with its slot count" % sorted(writers))
    a = prog.adts.get(DR)
    if chk.anchor(DR, a is not None):
        chk.inst("handle-fields-private", DR, not any(f["pub"] for f in a["variants"][0]["fields"]),
                 detail="DynamicRoot has public fields: a handle could be forged")

    def mk_ip(upgrade_some):
        def upgrade(ip, st, args, info):
            if upgrade_some:
                return [(st, "ret", adt(OPT, 1, (("sym", "rc_slots"),)))]
            return [(st, "ret", adt(OPT, 0, ()))]

        def borrow_mut(ip, st, args, info):
            return [(st, "ret", ("sym", "slots_mut"))]

        def ev(name):
            def h(ip, st, args, info):
                st.event(name, args[1] if len(args) > 1 else None)
                return [(st, "ret", UNIT)]
            return h

        def ident(ip, st, args, info):
            a0 = args[0]
            if a0[0] == "ref":
                a0 = ip.read(st, a0[1], a0[2])
            return [(st, "ret", a0)]
        ip = Interp(prog, prims={"alloc::rc::Weak::upgrade": upgrade, "core::cell::RefCell::borrow_mut": borrow_mut,
                                 "dynamic_roots::Slots::inc": ev("inc"), "dynamic_roots::Slots::dec": ev("dec"),
                                 "<alloc::rc::Weak as core::clone::Clone>::clone": ident,
                                 "core::clone::Clone::clone": ident}, strict=True)
        ip.lenient_std = True
        return ip
    for alive in (True, False):
        for fn, evn in (("<dynamic_roots::DynamicRoot as core::clone::Clone>::clone", "inc"),
                        ("<dynamic_roots::DynamicRoot as core::ops::drop::Drop>::drop", "dec")):
            if not chk.anchor(fn, fn in prog.seed_n):
                continue
            st = State()
            hv, pos = _handle(prog)
            st.mem[("h",)] = hv
            try:
                outs = [o for o in mk_ip(alive).run(prog.seed_n[fn][0], [ref(("h",), ())], st) if o.kind == "return"]
            except (interp.Unmodelled, interp.InterpError) as e:
                chk.inst("handle-pairing", "%s(set alive=%s)" % (fn, alive), False, detail="could not be analysed: %s" % e)
                continue
            probs = []
            if len(outs) != 1:
                probs.append("%d normal outcomes" % len(outs))
            for o in outs:
                evs = [e for e in o.ev if e[0] in ("inc", "dec")]
                want = [(evn, hv[3][pos["index"]])] if alive else []
                if [(e[0], e[1]) for e in evs] != want:
                    probs.append("slot-count events %s, specification says %s" % (evs, want))
                if evn == "inc":
                    v = o.value
                    if v[0] != "adt" or v[3][pos["ptr"]] != hv[3][pos["ptr"]] or v[3][pos["index"]] != hv[3][pos["index"]]:
                        probs.append("the clone does not carry the same pointer and slot index")
            chk.inst("handle-pairing", "%s(set alive=%s)" % (fn.split(" as ")[1], alive), not probs,
                     detail="; ".join(probs[:2]), sample={"fn": fn, "set_alive": alive, "events": [str(e) for o in outs for e in o.ev if e[0] in ("inc", "dec")]})
    # stash: handle carries the stashed pointer and add's index
    fn = "dynamic_roots::DynamicRootSet::stash"
    if chk.anchor(fn, fn in prog.seed_n):
        m = typestate.engine(chk.cfg or "default")[1].m
        hpos = _handle(prog)[1]

        def add(ip, st, args, info):
            st.event("add", args[1])
            return [(st, "ret", ("sym", "new_index"))]
        m.ip.prims["dynamic_roots::Slots::add"] = add
        m.ip.lenient_std = True
        try:
            st = m.mk_state(phase="Sleep", objs={1: {"colour": "W"}, 2: {"colour": "W"}})
            st.mem[("set",)] = adt("dynamic_roots::DynamicRootSet", 0, (adt("gc::Gc", 0, (("obj", 1), UNIT)),))
            outs = [o for o in m.ip.run(prog.seed_n[fn][0], [ref(("set",), ()), m.ctx_ref(), adt("gc::Gc", 0, (("obj", 2), UNIT))], st)
                    if o.kind == "return"]
            probs = []
            for o in outs:
                v = o.value
                adds = [e for e in o.ev if e[0] == "add"]
                if len(adds) != 1:
                    probs.append("stash registers the pointer %d times" % len(adds))
                if v[0] != "adt" or v[1] != DR:
                    probs.append("stash does not return a DynamicRoot")
                    continue
                from gcv.gcmodel import _obj_of
                try:
                    pid = _obj_of(m.ip, o.st, v[3][hpos["ptr"]])
                except interp.InterpError:
                    pid = None
                if pid != 2:
                    probs.append("the handle's pointer is not the stashed pointer")
                if v[3][hpos["index"]] != ("sym", "new_index"):
                    probs.append("the handle's index is not the index returned by Slots::add")
                if adds:
                    try:
                        aid = _obj_of(m.ip, o.st, adds[0][1])
                    except interp.InterpError:
                        aid = None
                    if aid != 2:
                        probs.append("the pointer recorded in the slot table is not the stashed pointer")
            if not outs:
                probs.append("no normal outcome")
            chk.inst("stash-handle-fields", fn, not probs, detail="; ".join(sorted(set(probs))[:3]))
        except (interp.Unmodelled, interp.InterpError) as e:
            chk.inst("stash-handle-fields", fn, False, detail="could not be analysed: %s" % e)
        finally:
            del m.ip.prims["dynamic_roots::Slots::add"]
            m.ip.lenient_std = False
        calls = {e.callee for e in prog.calls_from(fn)}
        chk.inst("stash-weak-of-own-table", fn, "alloc::rc::Rc::downgrade" in calls,
                 detail="stash does not derive the handle's Weak from the set's own Rc (Rc::downgrade)")


def fetch_rules(chk, prog):
    # fetch-contract and the identity rule of contains() run inside c12.rebrand (shared rules_roots engine)
    pass


def run(chk, tier):
    # an object stashed in a set that is reachable from the root survives every collection while the set holds its
    # pointer: H1 of the heap exploration, whose adoption paths include DynamicRootSet::stash (DESIGN.md §11)
    from gcv import heap_check
    heap_check.report(chk, tier, owns=("H1",))
    cfgs = typestate.configs(tier)
    chk.extra["feature_configs"] = cfgs
    for c in cfgs:
        chk.cfg = c
        n_expl = len(chk.explanation)
        nd = len(chk.not_decided)
        run_config(chk, tier, c)
        if c != cfgs[0]:
            del chk.explanation[n_expl:]
            del chk.not_decided[nd:]
    chk.cfg = None
