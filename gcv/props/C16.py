"""C16 — provided Collect impls are exact in every position (DESIGN.md §4 C16): coverage rule on the MIR
of every `impl Collect` of the crate and on its NEEDS_TRACE constant, under every feature configuration."""
import re

from gcv import facts, model, coverage, interp
from gcv.model import norm

POINTER_FREE = {"core::marker::PhantomData<T>": "zero-sized marker, stores nothing", "()": "unit"}
FLOORS = {"default": 40, "nodefault": 35, "all": 45}


def impl_items(prog, im):
    out = {}
    for it in im["items"]:
        out[it["name"]] = it
    return out


def run(chk, tier):
    configs = ["default", "all"] if tier == "quick" else ["default", "nodefault", "all"]
    fx = facts.load_many(configs)
    chk.explain("C16: every `impl Collect` of the crate (enumerated from the compiler under each feature "
                "configuration, floors counted on the pinned tree) is checked on the MIR of its trace body: every "
                "traced value derives from `self` through reviewed total accessors only (field projection, Deref of "
                "owning pointers, IntoIterator/Iterator::next, iter()/values(), as_ref, cell getters, erase); every "
                "Collect-bounded type parameter is the traced type of some trace call; iterator loops cannot skip or "
                "stop early (CFG: trace calls lie on every Some-branch -> next() path, the loop exits only on None); "
                "early-outs only under a NEEDS_TRACE guard that implies nothing is held; Gc traces strong, GcWeak "
                "weak, DynCollect's wrapper forwards strong->strong and weak->weak; NEEDS_TRACE explored with each "
                "parameter's constant a free boolean: `false` only when every parameter's is false; a constant "
                "`false` only with a 'static bound or a reviewed pointer-free type.")
    chk.not_decided += ["that third-party iterators really yield every element (trusted: std/hashbrown/indexmap/slotmap/"
                        "smallvec/enum-map iterator contracts)", "end-to-end survival through a collection"]
    chk.extra["feature_configs"] = configs
    for c in configs:
        prog = model.Program(fx[c], c)
        n = 0
        for im in prog.impls:
            if im.get("trait") != "collect::Collect":
                continue
            n += 1
            check_impl(chk, prog, im, c)
        chk.floor("collect-impls[%s]" % c, n, FLOORS[c])
        chk.extra.setdefault("impls_analysed", {})[c] = n
        trace_plumbing(chk, prog, c)
        # "impls that claim no tracing is needed exist only for types that cannot contain arena pointers": a borrow
        # lifetime left free in the Self type of an impl (Cow<'a, B>, Ref<'a, T>, ..) can be instantiated at the brand,
        # and the `&'gc T` it then holds points into an allocation no trace call reports (seed C16-f; the rule is C12's)
        from gcv.props import C12 as c12
        c12.collect_impl_lifetimes(chk, prog, c)


def check_impl(chk, prog, im, c):
    items = impl_items(prog, im)
    name = "%s[%s]" % (im["self_s"], c)
    params = coverage.collect_params(prog, im)
    loc = "%s:%s" % (im["span"]["f"], im["span"]["l"])
    # ---- trace body
    tr = items.get("trace")
    if tr is None:
        ok = not params
        chk.inst("trace-coverage", name, ok,
                 detail="impl Collect for %s has Collect-bounded parameters %s but no trace body" % (im["self_s"], sorted(params)),
                 loc=loc, nontrivial=bool(params))
    else:
        keys = [k for k in prog.seed_n.get(norm(tr["path"]), []) if prog.bodies[k]["def"] == tr["path"]]
        if not keys:
            chk.inst("trace-coverage", name, False, detail="trace body of %s not found in the MIR dump" % im["self_s"], loc=loc)
        else:
            probs, info = coverage.analyse_trace(prog, im, keys[0])
            # own ADT fields
            probs += own_fields(prog, im, keys[0])
            chk.inst("trace-coverage", name, not probs, detail="; ".join(sorted(set(probs))[:3]), loc=loc,
                     sample={"impl": im["self_s"], "params": sorted(params), **info})
    # ---- NEEDS_TRACE
    nt = items.get("NEEDS_TRACE")
    if nt is None:
        chk.inst("needs-trace", name, True, nontrivial=False)  # inherits the default `true`
        return
    # does trace() itself report a pointer the type holds directly (trace_gc / trace_gc_weak, or Trace::trace /
    # Collect::trace on a Gc / GcWeak)? Then the constant must be true on every path: containers gate the tracing of
    # their contents on it, so a `false` here means the pointer is never marked once the value sits inside another
    # object (the root itself is traced unconditionally, which is why tests with the value as root stay green).
    reports = []
    if tr is not None:
        tkeys = [k for k in prog.seed_n.get(norm(tr["path"]), []) if prog.bodies[k]["def"] == tr["path"]]
        if tkeys:
            for site in coverage.trace_sites(prog, prog.bodies[tkeys[0]]):
                if site.kind in ("strong", "weak") or (site.ty_s or "").startswith(("gc::Gc<", "gc_weak::GcWeak<")):
                    reports.append("%s at line %s" % (site.kind if site.kind in ("strong", "weak") else site.ty_s, site.line))

    def holds_pointer_problem(can_be_false):
        if reports and can_be_false:
            return ["NEEDS_TRACE %s false although trace() reports a pointer held directly by the type (%s): every container "
                    "skips tracing this type, so the pointer is never marked unless the value is the root itself" % (
                        "is" if can_be_false == "is" else "can be", reports[0])]
        return []
    cinfo = prog.consts.get(nt["path"], {})
    if "value" in cinfo:
        val = bool(cinfo["value"])
        if val:
            chk.inst("needs-trace", name, True, sample={"impl": im["self_s"], "NEEDS_TRACE": True})
        else:
            static = any(p["k"] == "type_outlives" and p["lt"] == "'static" for p in im["predicates"])
            hp = holds_pointer_problem("is")
            ok = not params and (static or im["self_s"] in POINTER_FREE) and not hp
            chk.inst("needs-trace", name, ok,
                     detail=(hp[0] if hp else
                             "impl Collect for %s claims NEEDS_TRACE = false without a 'static bound (and is not a reviewed "
                             "pointer-free type): values holding arena pointers would never be traced" % im["self_s"]), loc=loc,
                     sample={"impl": im["self_s"], "NEEDS_TRACE": False, "static_bound": static})
        return
    keys = [k for k in prog.seed_n.get(norm(nt["path"]), []) if prog.bodies[k]["def"] == nt["path"]]
    if not keys:
        chk.inst("needs-trace", name, False, detail="NEEDS_TRACE body not found", loc=loc)
        return
    try:
        outs = coverage.needs_trace_outcomes(prog, keys[0])
    except (interp.Unmodelled, interp.InterpError) as e:
        chk.inst("needs-trace", name, False, detail="NEEDS_TRACE could not be analysed: %s" % e, loc=loc)
        return
    probs = []
    pnames = sorted(params)

    def false_params(asg):
        out = set()
        for k, v in asg.items():
            m = re.match(r"^<(.*) as collect::Collect(<.*>)?>::NEEDS_TRACE$", k)
            if m and v is False:
                out.add(m.group(1))
        return out
    for asg, res in outs:
        tested_false = {p for p in pnames if p in false_params(asg)}
        if res is True:
            continue
        if res is False:
            probs += holds_pointer_problem("can")
            missing = [p for p in pnames if p not in tested_false]
            if not pnames:
                # no Collect-bounded parameter to derive the constant from: `false` needs a reason
                static = any(pr["k"] == "type_outlives" and pr["lt"] == "'static" for pr in im["predicates"])
                if not static and im["self_s"] not in POINTER_FREE and not reports:
                    lts = [g["name"] for g in im["generics"] if g["kind"] == "lifetime"]
                    brand = [a["lt"] for a in im["trait_args"] if "lt" in a]
                    if any(l in im["self_s"] for l in brand):
                        probs.append("NEEDS_TRACE can be false for a branded type (%s) without a 'static bound: values holding "
                                     "arena pointers would never be traced" % im["self_s"])
            if missing:
                static = any(pr["k"] == "type_outlives" and pr["lt"] == "'static" for pr in im["predicates"])
                if not (static and not params) and im["self_s"] not in POINTER_FREE:
                    probs.append("NEEDS_TRACE can be false although the constant of parameter(s) %s was not found false" % missing)
        elif isinstance(res, tuple):
            m = re.match(r"^<(.*) as collect::Collect(<.*>)?>::NEEDS_TRACE$", res[1])
            x = m.group(1) if m else None
            missing = [p for p in pnames if p not in tested_false and p != x]
            # associated types like <A as Array>::Item
            if x is None or (missing and not all(coverage._mentions(x, p) for p in missing)):
                probs.append("NEEDS_TRACE reduces to `%s` while parameter(s) %s are unaccounted for" % (res[1], missing))
        else:
            probs.append("NEEDS_TRACE has a non-boolean outcome")
    if not outs:
        probs.append("NEEDS_TRACE has no outcome")
    chk.inst("needs-trace", name, not probs, detail="; ".join(sorted(set(probs))[:2]), loc=loc,
             sample={"impl": im["self_s"], "paths": [(sorted(a.items()), str(r)) for a, r in outs][:4]})


def own_fields(prog, im, key):
    """For the crate's own ADTs: every pointer-bearing field of every variant flows into a trace call."""
    t = prog.ty(im["self"])
    if t.get("k") != "adt" or not t.get("local"):
        return []
    a = prog.adts.get(t["def"])
    if not a or t["def"] in ("gc::Gc", "gc_weak::GcWeak"):
        return []
    body = prog.bodies[key]
    sites = coverage.trace_sites(prog, body)
    probs = []
    for v in a["variants"]:
        for fi, f in enumerate(v["fields"]):
            ts = f.get("ty_s", "")
            bearing = ("gc::Gc<" in ts or "gc_weak::GcWeak<" in ts or "'gc" in ts or
                       any(coverage._mentions(ts, p) for p in coverage.collect_params(prog, im)))
            if ts.startswith("core::marker::PhantomData") or not bearing:
                continue
            hit = False
            for s in sites:
                for (r, acc, fl) in s.chain:
                    if ("f", fi) in fl or ["f", fi] in [list(x) for x in fl]:
                        if a["kind"] != "enum" or any(x[0] == "v" and x[1] == v["idx"] for x in fl):
                            hit = True
            # accessor methods of the type itself (Lock::get, RefLock::borrow, OnceLock::get) read the single field
            if not hit and len(v["fields"]) == 1:
                hit = any(any(x in ("lock::Lock::get", "lock::RefLock::borrow", "lock::OnceLock::get") for x in acc)
                          for s in sites for (r, acc, fl) in s.chain)
            if not hit:
                probs.append("field `%s` of %s%s (type %s) never flows into a trace call" % (
                    f["name"], t["def"], ("::" + v["name"]) if a["kind"] == "enum" else "", ts))
    return probs


def trace_plumbing(chk, prog, c):
    prog.edges()

    def decl_calls(fn):
        out = []
        for k in prog.seed_n.get(fn, []):
            b = prog.bodies[k]
            for bb in b["blocks"]:
                t = bb["t"]
                if t and t["k"] == "call" and not t["f"].get("indirect"):
                    out.append(norm(t["f"]["def"]))
        return out
    ti = prog.collector_trace_impl() or {"trace_gc": "<context::Context as collect::Trace>::trace_gc",
                                        "trace_gc_weak": "<context::Context as collect::Trace>::trace_gc_weak"}
    # forwarding adapters: every `impl Trace` of the crate other than the collector's own (found by shape: the
    # wrapper used by DynCollect::dyn_trace today) must forward strong to strong and weak to weak
    adapters = []
    ctx_impls = {ti["trace_gc"], ti["trace_gc_weak"]}
    for im in prog.impls:
        if im.get("trait") != "collect::Trace":
            continue
        items = {it["name"]: norm(it["path"]) for it in im.get("items", [])}
        if set(items.values()) & ctx_impls:
            continue
        if "trace_gc" in items:
            adapters.append((items["trace_gc"], "collect::Trace::trace_gc", "collect::Trace::trace_gc_weak"))
        if "trace_gc_weak" in items:
            adapters.append((items["trace_gc_weak"], "collect::Trace::trace_gc_weak", "collect::Trace::trace_gc"))
        # an adapter that leaves one of the two out inherits the trait's default for it - and there is no default that
        # keeps a weak pointer weak without knowing the wrapped tracer
        missing = [m_ for m_ in ("trace_gc", "trace_gc_weak") if m_ not in items]
        chk.inst("strong-weak-plumbing", "impl Trace for %s[%s]" % (im.get("self_s"), c), not missing,
                 detail="`impl Trace for %s` does not define %s: the pointer kind it is handed is decided by a default method "
                        "of the trait, not forwarded to the wrapped tracer" % (im.get("self_s"), missing),
                 loc="%s:%s" % (im["span"]["f"], im["span"]["l"]))
    # the trait's own default bodies (if it has any) must not turn one pointer kind into the other
    for meth, other in (("trace_gc_weak", "trace_gc"), ("trace_gc", "trace_gc_weak")):
        dflt = "collect::Trace::" + meth
        if dflt in prog.seed_n:
            calls = decl_calls(dflt)
            chk.inst("strong-weak-plumbing", "%s (default body)[%s]" % (dflt, c), ("collect::Trace::" + other) not in calls,
                     detail="the default body of `Trace::%s` calls `Trace::%s`: every tracer that does not override it "
                            "(a forwarding adapter, say) reports %s pointers as %s ones" % (
                                meth, other, "weak" if meth == "trace_gc_weak" else "strong",
                                "strong" if meth == "trace_gc_weak" else "weak"))
    for fn, want, forbid in [
            ("<gc::Gc as collect::Collect>::trace", "collect::Trace::trace_gc", "collect::Trace::trace_gc_weak"),
            ("<gc_weak::GcWeak as collect::Collect>::trace", "collect::Trace::trace_gc_weak", "collect::Trace::trace_gc")] + adapters + [
            (ti["trace_gc"], "context::Context::trace", "context::Context::trace_weak"),
            (ti["trace_gc_weak"], "context::Context::trace_weak", "context::Context::trace"),
            ("<(dyn collect::DynCollect + 'static) as collect::Collect>::trace", "collect::DynCollect::dyn_trace", None),
            ("<T as collect::DynCollect>::dyn_trace", "collect::Collect::trace", None)]:
        if not chk.anchor(fn, fn in prog.seed_n, "(config %s)" % c):
            continue
        calls = decl_calls(fn)
        ok = want in calls and (forbid is None or forbid not in calls)
        chk.inst("strong-weak-plumbing", "%s[%s]" % (fn, c), ok,
                 detail="`%s` must forward to `%s`%s; it calls %s" % (fn, want, (" and never to `%s`" % forbid) if forbid else "",
                                                                      sorted(set(x for x in calls if "Trace" in x or "trace" in x))))
    # Trace::trace default method: Collect::trace under the C::NEEDS_TRACE guard and nothing else
    fn = "collect::Trace::trace"
    if chk.anchor(fn, fn in prog.seed_n):
        k = prog.seed_n[fn][0]
        b = prog.bodies[k]
        sites = coverage.trace_sites(prog, b)
        guards = coverage.guard_consts(prog, b)
        ok = len(sites) == 1 and sites[0].kind == "direct" and len(guards) == 1 and guards[0][1] == "C" and \
            all(r == 2 for (r, a, f) in sites[0].chain if r != "const")
        chk.inst("strong-weak-plumbing", "%s[%s]" % (fn, c), ok,
                 detail="Trace::trace must call <C as Collect>::trace(value, self) exactly under `C::NEEDS_TRACE`")
    chk.floor("strong-weak-plumbing[%s]" % c, sum(1 for i in chk.instances if i[0] == "strong-weak-plumbing" and i[1].endswith("[%s]" % c)), 6)
