"""C19 — pointer conversions preserve identity; safe API never conjures values (DESIGN.md §4 C19)."""
from gcv import facts, model, witness, rules_ptr


def run(chk, tier):
    configs = ["default"] if tier == "quick" else ["default", "nodefault", "all"]
    fx = facts.load_many(configs)
    chk.explain("C19: (identity) every conversion named by the property (erase, erase_kind, cast, downgrade/upgrade, "
                "as_thin/as_fat, as_ptr/from_ptr, unsize's __coerce_unchecked, DynamicRootSet fetch, the PtrMeta "
                "to_thin/from_thin impls, builder into_raw/from_raw) and every local function it calls is free of "
                "address arithmetic in its MIR (no Offset, no ptr add/sub/byte_*/map_addr/with_addr, no int<->ptr "
                "casts), metadata readers aside; (ZstCache) on the ordering domain over the opaque symbols "
                "size_of<T>, align_of<T>, MAX_ALIGN the cached pointer is returned only under size = 0 and "
                "align <= MAX_ALIGN, alloc/alloc_static fall back to a real allocation on None, and each "
                "Alignment<N> selects a repr(align(N)) type; (conjuring lint) every safe public function "
                "returning Gc<X>/GcWeak<X> receives a value-carrying argument for each type parameter of X; "
                "witness probes incl. the conjuring programs (must be rejected).")
    chk.not_decided += ["'keeping either pointer alive keeps the value alive' as a history (C01 + identity)",
                        "ptr_eq results on concrete runs"]
    chk.extra["feature_configs"] = configs
    for c in configs:
        prog = model.Program(fx[c], c)
        rules_ptr.cast_only(chk, prog, config=c)
        rules_ptr.conjuring_lint(chk, prog, config=c)
        rules_ptr.zst_guard(chk, prog, config=c)
        rules_ptr.aligned_types(chk, prog, config=c)
        rules_ptr.coercion_site_is_raw_pointer(chk, prog, config=c)
        rules_ptr.gc_made_only_from_carriers(chk, prog, config=c)
        rules_ptr.thin_prefix_exists(chk, prog, config=c)
        rules_ptr.trusted_traits_are_unsafe(chk, prog, config=c)
        # the unsafe raw constructors / casts / cache allocation stay out of reach of safe code only if no exported
        # macro evaluates a caller-supplied expression inside an `unsafe` block (seed C19-c: unsize!)
        from gcv.props import common
        common.macro_args_outside_unsafe(chk, prog, c)
    witness.report(chk, "C19", rule="witness", floor=15, tier=tier)
