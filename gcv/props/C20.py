"""C20 — arenas are independent (DESIGN.md §4 C20): the crate has no shared mutable state."""
import json
import os
import subprocess
import tempfile

import re
from gcv import facts, model, rules_roots
from gcv.model import norm

# reviewed exception, by type and only under the `tracing` feature
STATIC_EXCEPTIONS = {"tracing_core::callsite::DefaultCallsite": "log call-site registration of tracing::debug!/debug_span!, holds no arena state",
                     "tracing::callsite::DefaultCallsite": "log call-site registration, holds no arena state"}
TLS_PREFIXES = ("std::thread::local::", "std::thread::LocalKey", "core::sync::atomic::", "std::sync::")

FIXTURE = '''
use std::cell::Cell;
use std::sync::atomic::{AtomicUsize, Ordering};
static COUNTER: AtomicUsize = AtomicUsize::new(0);
static mut RAW: usize = 0;
thread_local! { static TL: Cell<usize> = Cell::new(0); }
pub fn bump() -> usize { TL.with(|t| t.set(t.get() + 1)); unsafe { RAW += 1; } COUNTER.fetch_add(1, Ordering::Relaxed) }
'''


def shared_state(prog):
    """Returns list of (kind, what, where)."""
    out = []
    for s in prog.statics:
        tys = s["ty"]
        if any(tys.startswith(k) or k in tys for k in STATIC_EXCEPTIONS):
            continue
        if s["mutable"]:
            out.append(("static mut", s["path"], s["span"]))
        elif not s["freeze"]:
            out.append(("static with interior mutability (%s)" % tys, s["path"], s["span"]))
        elif s.get("thread_local"):
            out.append(("thread-local static", s["path"], s["span"]))
    for d_raw, key in prog.seed.items():
        b = prog.bodies[key]
        for bb in b["blocks"]:
            for st in bb["s"]:
                if st["k"] == "assign" and st["r"]["k"] == "tlref":
                    out.append(("thread-local access", st["r"]["def"], {"f": b["span"]["f"], "l": st["l"]}))
            t = bb["t"]
            if t and t["k"] == "call" and not t["f"].get("indirect"):
                n = norm((t["f"].get("resolved") or t["f"])["def"])
                if n.startswith(("std::thread::local::", "std::thread::LocalKey")):
                    if t.get("x") and "tracing" in str(t.get("xo")):
                        continue
                    out.append(("thread-local key use", n, {"f": b["span"]["f"], "l": t["l"]}))
    return out


def fixture_facts():
    facts.ensure_driver()
    with tempfile.TemporaryDirectory(prefix="gcv-fix.", dir="/var/tmp") as tmp:
        src = os.path.join(tmp, "fixture.rs")
        open(src, "w").write(FIXTURE)
        env = facts.base_env()
        env["GCV_OUT"] = tmp
        env["GCV_CRATES"] = "fixture"
        r = subprocess.run([facts.DRIVER, "--edition", "2021", "--crate-type", "lib", "--crate-name", "fixture",
                            "-Zmir-opt-level=0", "-Awarnings", "--emit=metadata", "--out-dir", tmp, src],
                           env=env, capture_output=True, text=True)
        p = os.path.join(tmp, "fixture.json")
        if not os.path.exists(p):
            return None, r.stderr[-800:]
        return json.load(open(p)), ""


def run(chk, tier):
    configs = ["default", "all"] if tier == "quick" else ["default", "nodefault", "all"]
    fx = facts.load_many(configs)
    chk.explain("C20: in every analysed feature configuration the crate has no `static mut`, no static whose type is "
                "not Freeze, no thread_local!/LocalKey use and no thread-local access in any MIR body (reviewed "
                "exception: tracing's call-site statics under the `tracing` feature); all collector state is "
                "constructed by Context::new (called only by Arena::new/try_new/rootless_mutate) which creates a "
                "fresh Metrics; DynamicRoot's Drop/Clone reach nothing of the collector; the one cross-arena channel is "
                "closed: fetch/try_fetch hand out a handle's pointer only when contains() said yes, and contains() is "
                "the identity comparison of the set's own slot table (Rc) with the table the handle weakly references "
                "(an identity the handle keeps reserved, so no later set of another arena can take it over), both "
                "interpreted from MIR. A fixture crate with a "
                "global counter, a static mut and a thread_local! is analysed on every run as the positive control.")
    chk.not_decided += ["interference through the global allocator or through user values shared by Rc between roots"]
    chk.extra["feature_configs"] = configs
    for c in configs:
        prog = model.Program(fx[c], c)
        prog.edges()
        ss = shared_state(prog)
        chk.inst("no-shared-mutable-state", "crate[%s]" % c, not ss,
                 detail="shared mutable state: %s" % [(k, w, "%s:%s" % (sp["f"], sp["l"])) for (k, w, sp) in ss][:4],
                 sample={"config": c, "statics": [(s["path"], s["ty"]) for s in prog.statics], "bodies_scanned": len(prog.seed)})
        # construction discipline
        ctx_new = sorted({prog.fn_of_closure(e.caller) for e in prog.callers_of("context::Context::new")})
        # (a private helper shared by the constructors - `Arena::construct`, a newtype's `new()` - taking no existing
        # collector state and reachable only through them is part of them)
        from gcv.props import common as _common0
        ctors = {"arena::Arena::new", "arena::Arena::try_new", "arena::rootless_mutate"}

        def fresh_only(w):
            wf = (prog.fn_n.get(w) or [{}])[0]
            shares = any(("context::Context" in i["s"] or "metrics::Metrics" in i["s"] or "arena::Arena<" in i["s"])
                         for i in (wf.get("inputs") or []))
            return not shares and _common0.escapes(prog, w, ctors) is None and bool(list(prog.callers_of(w)))
        chk.inst("context-constructed-per-arena", "context::Context::new[%s]" % c,
                 all(w in ctors or fresh_only(w) for w in ctx_new) and len(ctx_new) >= 1,
                 detail="Context::new is called from %s" % ctx_new)
        f = (prog.fn_n.get("context::Context::new") or [{}])[0]
        chk.inst("context-new-takes-no-shared-state", "context::Context::new[%s]" % c, not f.get("inputs"),
                 detail="Context::new takes arguments %s: collector state could be shared between arenas" % [i["s"] for i in f.get("inputs", [])])
        f = (prog.fn_n.get("metrics::Metrics::new") or [{}])[0]
        chk.inst("metrics-new-takes-no-shared-state", "metrics::Metrics::new[%s]" % c, not f.get("inputs"),
                 detail="Metrics::new takes arguments")
        m_new = sorted({prog.fn_of_closure(e.caller) for e in prog.callers_of("metrics::Metrics::new")})
        chk.inst("metrics-created-per-context", "metrics::Metrics::new[%s]" % c, m_new == ["context::Context::new"],
                 detail="Metrics::new is called from %s" % m_new)
        a = prog.adts.get("arena::Arena")
        if chk.anchor("arena::Arena", a is not None):
            # the field is found by what it holds (its name is private)
            def owns_one_context(ty_s, depth=0):
                """Box<Context>, or a private local newtype around exactly one field that does (no Rc / Arc / reference)."""
                if ty_s.startswith("alloc::boxed::Box<context::Context"):
                    return True
                w = prog.adts.get(re.sub(r"<.*", "", ty_s))
                if w and depth < 3 and w["kind"] == "struct" and len(w["variants"][0]["fields"]) == 1:
                    f0 = w["variants"][0]["fields"][0]
                    return not f0["pub"] and owns_one_context(f0.get("ty_s", ""), depth + 1)
                return False
            ctxf = [f for f in a["variants"][0]["fields"] if "context::Context" in f.get("ty_s", "") or owns_one_context(f.get("ty_s", ""))]
            ok = len(ctxf) == 1 and owns_one_context(ctxf[0]["ty_s"]) and not ctxf[0]["pub"]
            chk.inst("arena-owns-its-context", "arena::Arena.context[%s]" % c, ok,
                     detail="Arena holds its collector context as %s (must be exactly one private Box<Context>)" % (
                         [f["ty_s"] for f in ctxf] or None))
        for dn in ("<dynamic_roots::DynamicRoot as core::ops::drop::Drop>::drop", "<dynamic_roots::DynamicRoot as core::clone::Clone>::clone"):
            if not chk.anchor(dn, dn in prog.seed_n):
                continue
            pred = prog.reachable_from([dn])
            bad = [x for x in pred if x and x.startswith(("context::", "gc_ptr::", "metrics::", "arena::"))]
            chk.inst("handles-touch-only-their-slot-table", "%s[%s]" % (dn, c), not bad,
                     detail="%s reaches collector code: %s" % (dn, bad[:3]))
        # per-arena state is *built* only by its constructor: a Context / Metrics value assembled anywhere else (a
        # "child arena", a constructor taking an existing handle) is a way to share collector state between arenas
        sites = {"context::Context": [], "metrics::Metrics": [], "metrics::MetricsInner": []}
        for d_raw, key in prog.seed.items():
            for bb in prog.bodies[key]["blocks"]:
                for st_ in bb["s"]:
                    if st_["k"] == "assign" and st_["r"]["k"] == "agg" and st_["r"]["ak"].get("def") in sites:
                        sites[st_["r"]["ak"]["def"]].append(prog.fn_of_closure(norm(d_raw)))
        allowed = {"context::Context": {"context::Context::new"},
                   "metrics::Metrics": {"metrics::Metrics::new", "<metrics::Metrics as core::clone::Clone>::clone"},
                   "metrics::MetricsInner": {"metrics::Metrics::new", "<metrics::MetricsInner as core::default::Default>::default"}}
        from gcv.props import common as _common
        for adt_, where in sites.items():
            extra = sorted(set(where) - allowed[adt_])
            # a private assembling function (an explicit `MetricsInner::new()`, a shared `construct` helper) that takes no
            # existing state and is reachable only through the constructors is part of them
            kept = []
            for w in extra:
                wf = (prog.fn_n.get(w) or [{}])[0]
                shares = any(("metrics::" in i["s"] or "context::" in i["s"]) for i in (wf.get("inputs") or []))
                if shares or _common.escapes(prog, w, allowed[adt_] | {"context::Context::new"}) is not None or not list(prog.callers_of(w)):
                    kept.append(w)
            extra = kept
            chk.inst("per-arena-state-built-only-by-its-constructor", "%s[%s]" % (adt_, c), not extra,
                     detail="%s is assembled in %s: collector state can be created around (or shared with) existing state "
                            "of another arena" % (adt_, extra), sample={"type": adt_, "sites": sorted(set(where))})
        # (a Metrics handle may be cloned freely - it is a public Clone type; what matters is that no Context can be
        # assembled around an existing one, which is the rule above together with Context::new taking no arguments)
        # the one cross-arena channel: a handle presented to another arena's set must be refused
        rules_roots.fetch_rules(chk, prog, c, rule="foreign-handle-refused")
        rules_roots.contains_identity(chk, prog, c, rule="foreign-handle-identity")
        # ... and a handle's pointer is re-branded (given the brand of whatever arena is at hand) nowhere else: the
        # inventory of lifetime-only transmutes is confined to the reviewed dynamic-root functions behind that gate
        from gcv.props import C12 as c12
        c12.rebrand_inventory(chk, prog, c, rule="handle-rebranded-only-behind-the-gate")
    # positive control
    ff, err = fixture_facts()
    fired = False
    if ff is not None:
        fp = model.Program(ff, "fixture")
        kinds = {k.split(" (")[0] for (k, w, sp) in shared_state(fp)}
        fired = "static mut" in kinds and any(k.startswith("static with interior") for k in kinds) and \
            any(k.startswith("thread-local") for k in kinds)
        chk.extra["control_found"] = sorted(kinds)
    else:
        chk.note("fixture analysis failed: " + err)
    chk.control("shared-state-fixture", fired)
