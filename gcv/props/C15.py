"""C15 — derive(Collect) (DESIGN.md §4 C15): expansion corpus inspected statically + rejection witnesses."""
import re

from gcv import facts, model, corpus, coverage, witness, interp
from gcv.coverage import canon
from gcv.model import norm


def run(chk, tier):
    chk.explain("C15: a corpus of type shapes generated from a grammar on every run (named/tuple/unit structs, enums "
                "with 1-3 mixed variants, 0-4 fields over pointer-bearing and plain field types, the pointer at every "
                "position, #[collect(require_static)] at every field position, modes no_drop/unsafe_drop/"
                "require_static, generics with and without bound override, two lifetimes + gc_lifetime) is expanded "
                "and type-checked against the current tree (never run); on the MIR of every derived trace the C16 "
                "coverage analysis must find every field of every variant that is not marked require_static flowing "
                "into Trace::trace (unconditionally within its variant arm), and the const-evaluated NEEDS_TRACE must "
                "equal the disjunction expected from the shape (for generic shapes the constant's body is explored "
                "with each parameter's constant a free boolean); no_drop expansions implement __MustNotImplDrop, "
                "which is implemented for all T: Drop; rejection witnesses with compiling twins for every refusal "
                "the property lists.")
    chk.not_decided += ["shapes outside the grammar (unions are rejected by synstructure; const generics)",
                        "this is a bounded-corpus argument over expansions, not a proof about derive/src/lib.rs itself"]
    fx, shapes = corpus.build(tier)
    prog = model.Program(fx, "corpus")
    fnt = corpus.field_constants(prog)
    chk.anchor("corpus field-type constants", len(fnt) == len(corpus.FT),
               "(const-evaluated NEEDS_TRACE of %d of %d field types)" % (len(fnt), len(corpus.FT)))
    chk.extra["field_type_constants"] = fnt
    impls = {}
    nodrop = set()
    for im in prog.impls:
        base = re.match(r"^([A-Za-z0-9_]+)", im["self_s"]).group(1) if re.match(r"^([A-Za-z0-9_]+)", im["self_s"]) else None
        if canon(im.get("trait") or "") == "collect::Collect":
            impls[base] = im
        if canon(im.get("trait") or "") == "no_drop::__MustNotImplDrop":
            nodrop.add(base)
    n = 0
    for s in shapes:
        n += 1
        im = impls.get(s.name)
        key = "%s: %s" % (s.name, s.render().replace("\n", " ")[:160])
        if im is None:
            chk.inst("derive-expansion", key, False, detail="no Collect impl generated for %s" % s.name)
            continue
        items = {it["name"]: it for it in im["items"]}
        probs = []
        # ---- trace coverage per variant / field
        want = s.expected_traced()
        tr = items.get("trace")
        if s.mode == "require_static":
            if tr is not None:
                probs.append("require_static mode must not generate a trace body")
        elif tr is None:
            if any(want.values()):
                probs.append("no trace body although fields %s must be traced" % want)
        else:
            keys = [k for k in prog.seed_n.get(norm(tr["path"]), []) if prog.bodies[k]["def"] == tr["path"]]
            if not keys:
                probs.append("trace body not found")
            else:
                body = prog.bodies[keys[0]]
                sites = coverage.trace_sites(prog, body)
                got = {}
                for site in sites:
                    for (r, acc, fl) in site.chain:
                        if r != 1:
                            continue
                        vi = 0
                        fi = None
                        for x in fl:
                            if x[0] == "v":
                                vi = x[1]
                            if x[0] == "f" and fi is None:
                                fi = x[1]
                        if fi is not None:
                            got.setdefault(vi, set()).add(fi)
                    if site.kind not in ("generic",):
                        probs.append("derived trace uses %s tracing instead of Trace::trace" % site.kind)
                for vi, fields in want.items():
                    missing = sorted(fields - got.get(vi, set()))
                    if missing:
                        vn = s.variants[vi][0] or "struct"
                        probs.append("field(s) %s of %s are never traced" % (missing, vn))
                probs += coverage.conditional_problems(prog, body, sites)
                for site in sites:
                    for (r, acc, fl) in site.chain:
                        if acc:
                            probs.append("derived trace reaches a field through %s" % (acc,))
        # ---- NEEDS_TRACE
        nt = items.get("NEEDS_TRACE")
        generic = bool(re.search(r"<[^>]*\b[TU]\b", s.generics or "")) and s.mode != "require_static"
        if nt is None:
            probs.append("no NEEDS_TRACE constant generated")
        else:
            cinfo = prog.consts.get(nt["path"], {})
            if not generic:
                if "value" not in cinfo:
                    probs.append("NEEDS_TRACE could not be const-evaluated")
                elif bool(cinfo["value"]) != s.expected_needs_trace(fnt):
                    probs.append("NEEDS_TRACE = %s, the disjunction of the traced field types' own constants is %s" % (
                        bool(cinfo["value"]), s.expected_needs_trace(fnt)))
            else:
                keys = [k for k in prog.seed_n.get(norm(nt["path"]), []) if prog.bodies[k]["def"] == nt["path"]]
                try:
                    outs = coverage.needs_trace_outcomes(prog, keys[0]) if keys else []
                except (interp.Unmodelled, interp.InterpError) as e:
                    outs = []
                    probs.append("NEEDS_TRACE could not be analysed: %s" % e)
                params = [c for (_, _, fs) in s.variants for (c, rs) in fs if not rs and re.search(r"\b[TU]\b", c) and c not in corpus.FT]
                pnames = sorted({m for c in params for m in re.findall(r"\b([TU])\b", c)})
                concrete_true = any(fnt.get(c, corpus.FT[c][1]) for (_, _, fs) in s.variants for (c, rs) in fs if c in corpus.FT and not rs)
                for asg, res in outs:
                    falses = set()
                    for k, v in asg.items():
                        m = re.match(r"^<(.*) as (?:gc_arena::)?collect::Collect(<.*>)?>::NEEDS_TRACE$", k)
                        if m and v is False:
                            falses |= set(re.findall(r"\b([TU])\b", m.group(1)))
                    if res is False:
                        if concrete_true:
                            probs.append("NEEDS_TRACE can be false although a traced field always holds pointers")
                        miss = [p for p in pnames if p not in falses]
                        if miss:
                            probs.append("NEEDS_TRACE can be false without the constant of parameter(s) %s being false" % miss)
                    elif isinstance(res, tuple):
                        m = re.match(r"^<(.*) as (?:gc_arena::)?collect::Collect(<.*>)?>::NEEDS_TRACE$", res[1])
                        x = set(re.findall(r"\b([TU])\b", m.group(1))) if m else set()
                        miss = [p for p in pnames if p not in falses and p not in x]
                        if miss or concrete_true and False:
                            probs.append("NEEDS_TRACE reduces to `%s`, parameter(s) %s unaccounted for" % (res[1], miss))
                        if concrete_true:
                            probs.append("NEEDS_TRACE depends on a parameter although a traced field always holds pointers")
                if not outs:
                    probs.append("NEEDS_TRACE has no outcome")
        # ---- require_static fields of generic type: the impl must demand `T: 'static` (that is what justifies not
        # tracing them), with or without a bound override
        preds = {p_["s"].replace(" ", "") for p_ in im.get("predicates", [])}
        for (_, _, fs) in s.variants:
            for (c, rs) in fs:
                if rs and c not in corpus.FT:
                    for pn in re.findall(r"\b([TU])\b", c):
                        if "%s:'static" % pn not in preds:
                            probs.append("field of type `%s` is marked require_static but the generated impl does not demand "
                                         "`%s: 'static`: a branded pointer can be hidden in it, untraced" % (c, pn))
        # ---- no_drop enforcement
        if s.mode == "no_drop" and s.name not in nodrop:
            probs.append("no_drop expansion does not implement __MustNotImplDrop (a Drop impl would be accepted)")
        if s.mode != "no_drop" and s.name in nodrop:
            probs.append("__MustNotImplDrop emitted for mode %s" % s.mode)
        chk.inst("derive-expansion", key, not probs, detail="; ".join(sorted(set(probs))[:3]),
                 sample={"shape": s.render(), "expected_traced": {str(k): sorted(v) for k, v in want.items()},
                         "expected_needs_trace": s.expected_needs_trace(fnt)} if n in (3, 60, 150) else None)
    chk.floor("shapes", n, 100 if tier == "quick" else 250)
    chk.extra["shapes"] = n
    # blanket impl of __MustNotImplDrop for all T: Drop in the crate itself
    gp = model.Program(facts.load("default"), "default")
    blanket = [im for im in gp.impls if im.get("trait") == "no_drop::__MustNotImplDrop"]
    ok = len(blanket) == 1 and gp.ty(blanket[0]["self"]).get("k") == "param" and any(
        p["k"] == "trait" and p["trait"] == "core::ops::drop::Drop" for p in blanket[0]["predicates"])
    chk.inst("must-not-impl-drop-blanket", "no_drop::__MustNotImplDrop", ok,
             detail="__MustNotImplDrop must be implemented exactly for all T: Drop (so that a no_drop type with a Drop "
                    "impl is a coherence conflict)")
    witness.report(chk, "C15", rule="rejection-witness", floor=18, tier=tier)
