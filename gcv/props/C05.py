"""C05 — weak pointers (DESIGN.md §4 C05): truth tables over live x phase x colour."""
from gcv import typestate


def run_config(chk, tier, cfgname):
    prog, T = typestate.engine(cfgname)
    chk.explain("C05: GcWeak::upgrade returns Some(target) iff live and not (Sweep and WhiteWeak), extracted from "
                "MIR through the public API for all 48 (phase, colour, live, needs-trace) states; weak tracing and "
                "the weak barriers mark White -> WhiteWeak only (never Gray/Black, never queue); is_dropped == not "
                "live; the live flag is monotone and cleared exactly where a weakly kept value is destructed; weak "
                "queries never touch the value (header accessors only); S5: a successful upgrade is never followed "
                "by destruction in the running sweep.")
    chk.not_decided += ["'always succeeds for a strongly reachable target' needs the tri-colour theorem (C01)",
                        "survival of stored upgrades over later cycles beyond the explored bound (the barrier rows for a "
                        "weakly marked child and the heap exploration's upgrade-and-store operation decide the step)"]
    for t in ("weak_upgrade", "upgrade", "weak_is_dropped", "trace_weak", "forward_barrier_weak",
              "backward_barrier_weak", "weak_is_dead"):
        typestate.apply(chk, t + "-table", t, aspects=("safety", "weak", "once", "overmark"))
    typestate.apply(chk, "sweep-weak-rows", "sweep_one", only=lambda r: r.pre.get("cursor") in ("WW", "W"), aspects=("weak", "once"))
    # "the result may be used and stored like any other Gc": the target of a successful upgrade during marking is
    # weakly marked (WhiteWeak) or still White; the rows of the strong barriers and of the sanctioned adoption paths
    # with such a child are this property's store-after-upgrade clause (the parent must not stay Black over it)
    after_upgrade = lambda r: ":WW:" in str(r.pre.get("child", "")) or r.pre.get("C") == "WW"
    for t in ("backward_barrier", "forward_barrier"):
        typestate.apply(chk, "store-after-upgrade:" + t, t, only=after_upgrade, aspects=("safety",))
    typestate.apply(chk, "store-after-upgrade:adoption-paths", "adopt", only=after_upgrade, aspects=("safety",))
    typestate.report_automaton(chk, ["S5", "S6", "S1w"])
    prog.edges()
    # from a weak pointer to its value only through the gate: every safe exported function that is handed a GcWeak and
    # can reach an access to the value it points to (GcPtr::as_ref, Gc::as_ref, Gc's Deref), or that returns a Gc, must
    # go through Context::upgrade (which refuses destructed targets and targets condemned by the running sweep) or
    # Context::resurrect (finalization). The live flag alone is not the test: a live, weakly marked object ahead of the
    # sweep cursor is condemned together with everything it holds (seed C05-f: GcWeak::peek).
    VALUE_ACCESS = ("gc_ptr::GcPtr::as_ref", "gc::Gc::as_ref", "<gc::Gc as core::ops::deref::Deref>::deref",
                    "<gc::Gc as core::convert::AsRef>::as_ref")
    GATES = ("context::Context::upgrade", "context::Context::resurrect")
    n_w = 0
    for f in prog.f["fns"]:
        if f["kind"] not in ("Fn", "AssocFn") or f.get("unsafe") or not (f.get("reachable") or f.get("exported")):
            continue
        ins = f.get("inputs") or []
        if not ins or "gc_weak::GcWeak<" not in ins[0]["s"] or ins[0]["s"].startswith("gc::Gc<"):
            continue
        n_w += 1
        reach = prog.reachable_from([f["n"]])
        touched = [x for x in VALUE_ACCESS if x in reach]
        gives_gc = "gc::Gc<" in (f.get("output") or {}).get("s", "")
        gated = any(g in reach for g in GATES)
        ok = gated or not (touched or gives_gc)
        chk.inst("weak-to-value-only-through-upgrade", f["n"], ok,
                 detail="safe `%s` takes a GcWeak and %s without going through Context::upgrade / resurrect: a target that is "
                        "live but condemned by the running sweep (and what it holds) becomes reachable from safe code" % (
                            f["n"], ("reaches " + ", ".join(touched)) if touched else "returns a Gc"),
                 loc="%s:%s" % (f["span"]["f"], f["span"]["l"]), nontrivial=bool(touched or gives_gc),
                 sample={"fn": f["n"], "value_access": touched, "returns_gc": gives_gc, "gated": gated} if (touched or gives_gc) else None)
    chk.floor("safe-functions-taking-a-weak-pointer", n_w, 8)
    for q in ("gc_weak::GcWeak::upgrade", "gc_weak::GcWeak::is_dropped", "gc_weak::GcWeak::is_dead",
              "gc_weak::GcWeak::ptr_eq"):
        chk.anchor(q, q in prog.seed_n)
        pred = prog.reachable_from([q])
        bad = [x for x in ("gc_ptr::GcPtr::as_ref", "<gc::Gc as core::ops::deref::Deref>::deref") if x in pred]
        chk.inst("weak-queries-header-only", q, not bad,
                 detail="%s reaches a value dereference: %s" % (q, " -> ".join(prog.path_to(pred, bad[0])) if bad else ""))


def run(chk, tier):
    from gcv import heap_check
    heap_check.report(chk, tier, owns=("H3",))
    cfgs = typestate.configs(tier)
    chk.extra["feature_configs"] = cfgs
    for c in cfgs:
        chk.cfg = c
        n_expl = len(chk.explanation)
        nd = len(chk.not_decided)
        run_config(chk, tier, c)
        if c != cfgs[0]:
            del chk.explanation[n_expl:]
            del chk.not_decided[nd:]
    chk.cfg = None
