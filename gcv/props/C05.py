"""C05 — weak pointers (DESIGN.md §4 C05): truth tables over live x phase x colour."""
from gcv import typestate


def run_config(chk, tier, cfgname):
    prog, T = typestate.engine(cfgname)
    chk.explain("C05: GcWeak::upgrade returns Some(target) iff live and not (Sweep and WhiteWeak), extracted from "
                "MIR through the public API for all 48 (phase, colour, live, needs-trace) states; weak tracing and "
                "the weak barriers mark White -> WhiteWeak only (never Gray/Black, never queue); is_dropped == not "
                "live; the live flag is monotone and cleared exactly where a weakly kept value is destructed; weak "
                "queries never touch the value (header accessors only); S5: a successful upgrade is never followed "
                "by destruction in the running sweep.")
    chk.not_decided += ["'always succeeds for a strongly reachable target' needs the tri-colour theorem (C01)",
                        "survival of stored upgrades over later cycles beyond the explored bound (the barrier rows for a "
                        "weakly marked child and the heap exploration's upgrade-and-store operation decide the step)"]
    for t in ("weak_upgrade", "upgrade", "weak_is_dropped", "trace_weak", "forward_barrier_weak",
              "backward_barrier_weak", "weak_is_dead"):
        typestate.apply(chk, t + "-table", t, aspects=("safety", "weak", "once", "overmark"))
    typestate.apply(chk, "sweep-weak-rows", "sweep_one", only=lambda r: r.pre.get("cursor") in ("WW", "W"), aspects=("weak", "once"))
    # "the result may be used and stored like any other Gc": the target of a successful upgrade during marking is
    # weakly marked (WhiteWeak) or still White; the rows of the strong barriers and of the sanctioned adoption paths
    # with such a child are this property's store-after-upgrade clause (the parent must not stay Black over it)
    after_upgrade = lambda r: ":WW:" in str(r.pre.get("child", "")) or r.pre.get("C") == "WW"
    for t in ("backward_barrier", "forward_barrier"):
        typestate.apply(chk, "store-after-upgrade:" + t, t, only=after_upgrade, aspects=("safety",))
    typestate.apply(chk, "store-after-upgrade:adoption-paths", "adopt", only=after_upgrade, aspects=("safety",))
    typestate.report_automaton(chk, ["S5", "S6", "S1w"])
    prog.edges()
    for q in ("gc_weak::GcWeak::upgrade", "gc_weak::GcWeak::is_dropped", "gc_weak::GcWeak::is_dead",
              "gc_weak::GcWeak::ptr_eq"):
        chk.anchor(q, q in prog.seed_n)
        pred = prog.reachable_from([q])
        bad = [x for x in ("gc_ptr::GcPtr::as_ref", "<gc::Gc as core::ops::deref::Deref>::deref") if x in pred]
        chk.inst("weak-queries-header-only", q, not bad,
                 detail="%s reaches a value dereference: %s" % (q, " -> ".join(prog.path_to(pred, bad[0])) if bad else ""))


def run(chk, tier):
    from gcv import heap_check
    heap_check.report(chk, tier, owns=("H3",))
    cfgs = typestate.configs(tier)
    chk.extra["feature_configs"] = cfgs
    for c in cfgs:
        chk.cfg = c
        n_expl = len(chk.explanation)
        nd = len(chk.not_decided)
        run_config(chk, tier, c)
        if c != cfgs[0]:
            del chk.explanation[n_expl:]
            del chk.not_decided[nd:]
    chk.cfg = None
