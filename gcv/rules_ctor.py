"""Constructor unwinding (C11): a panicking / failing Arena::new / try_new callback drops the boxed
context (whose Drop releases every allocation: drop_all table)."""
import itertools

from gcv import interp, gcmodel
from gcv.interp import adt, ref, TOP


def _ctx_phase(m, st):
    out = []
    for a, v in st.mem.items():
        if a[0] in ("box", "ctx") and v[0] == "adt" and v[1] == "context::Context":
            ph = v[3][m.ctx_index("phase")]
            out.append(gcmodel.phase_name(m.prog, ph))
    return out


def run(chk, prog, T):
    m = T.m
    m.ip.lenient_std = True

    def ctx_drop_hook(ip, st, args, info):
        st.event("context_dropped")
        return NotImplemented
    m.ip.prims["<context::Context as core::ops::drop::Drop>::drop"] = ctx_drop_hook
    try:
        for name in ("arena::Arena::new", "arena::Arena::try_new", "arena::rootless_mutate"):
            ks = prog.seed_n.get(name)
            if not chk.anchor(name, bool(ks)):
                continue
            st = interp.State()
            try:
                outs = m.ip.run(ks[0], [adt("closure:<user>", 0, ())], st)
            except (interp.Unmodelled, interp.InterpError, KeyError, IndexError, TypeError) as e:
                chk.inst("constructor-unwind", name, False, detail="could not be analysed: %s: %s" % (type(e).__name__, e))
                continue
            probs = []
            kinds = set()
            for o in outs:
                phases = _ctx_phase(m, o.st)
                dropped = len([e for e in o.ev if e[0] == "context_dropped"])
                cbs = [e for e in o.ev if e[0] == "callback"]
                if len(cbs) != 1:
                    probs.append("callback invoked %d times" % len(cbs))
                ret_err = o.kind == "return" and o.value is not None and o.value[0] == "adt" and \
                    o.value[1] == "core::result::Result" and o.value[2] == 1
                failed = o.kind == "unwind" or ret_err
                kinds.add("failed" if failed else o.kind)
                if failed or name == "arena::rootless_mutate":
                    if dropped != 1:
                        probs.append("%s exit without running the context destructor (context phase %s): "
                                     "allocations made by the callback are leaked" % (
                                         "unwinding" if o.kind == "unwind" else "failing", phases))
                elif o.kind == "return":
                    if phases != ["Sleep"] or dropped:
                        probs.append("successful construction leaves the context in phase %s (destructor ran %d "
                                     "time(s))" % (phases, dropped))
            if "failed" not in kinds and name != "arena::rootless_mutate":
                probs.append("no failing path explored")
            chk.inst("constructor-unwind", name, not probs, detail="; ".join(sorted(set(probs))[:3]),
                     sample={"fn": name, "outcomes": [(o.kind, _ctx_phase(m, o.st)) for o in outs]})
    finally:
        m.ip.lenient_std = False
        del m.ip.prims["<context::Context as core::ops::drop::Drop>::drop"]
