"""E1 glue: build the rustc_private driver, run it over the working tree of the repository for a
feature configuration, cache the fact file by content hash of the analysed sources, load it.

Nothing from gc-arena is executed: the driver is the compiler front/middle end (type check, borrow
check, MIR construction, const evaluation) plus a JSON dump."""
import fcntl
import hashlib
import json
import os
import shutil
import subprocess
import sys
import time

VERIF = os.path.dirname(os.path.dirname(os.path.abspath(__file__)))
REPO = os.environ.get("GCV_REPO", "/repo")
CACHE = os.environ.get("GCV_CACHE", os.path.join(VERIF, ".cache"))
DRIVER_DIR = os.path.join(VERIF, "driver")
DRIVER = os.path.join(DRIVER_DIR, "target", "debug", "gcv-driver")

CONFIGS = {
    "default": [],
    "nodefault": ["--no-default-features"],
    "all": ["--all-features"],
}

_env_base = None


def _nightly_sysroot():
    out = subprocess.run(["rustc", "+nightly", "--print", "sysroot"], capture_output=True, text=True)
    if out.returncode != 0:
        raise RuntimeError("nightly toolchain not available: " + out.stderr)
    return out.stdout.strip()


def base_env():
    global _env_base
    if _env_base is None:
        env = dict(os.environ)
        env["CARGO_NET_OFFLINE"] = "true"
        sysroot = _nightly_sysroot()
        env["LD_LIBRARY_PATH"] = os.path.join(sysroot, "lib") + (
            ":" + env["LD_LIBRARY_PATH"] if env.get("LD_LIBRARY_PATH") else "")
        env.pop("RUSTC_WRAPPER", None)
        env.pop("RUSTC_WORKSPACE_WRAPPER", None)
        env.pop("RUSTFLAGS", None)
        env.pop("CARGO_TARGET_DIR", None)
        _env_base = env
    return dict(_env_base)


def source_files(repo=None):
    repo = repo or REPO
    out = []
    for rel in ("Cargo.toml", "Cargo.lock", "build.rs", "derive/Cargo.toml", "derive/build.rs",
                ".cargo/config.toml", ".cargo/config", "rust-toolchain.toml", "rust-toolchain"):
        p = os.path.join(repo, rel)
        if os.path.isfile(p):
            out.append(rel)
    for top in ("src", "derive/src"):
        for dp, dn, fn in os.walk(os.path.join(repo, top)):
            dn.sort()
            for f in sorted(fn):
                if f.endswith(".rs"):
                    out.append(os.path.relpath(os.path.join(dp, f), repo))
    return sorted(set(out))


def tree_hash(repo=None):
    repo = repo or REPO
    h = hashlib.sha256()
    for rel in source_files(repo):
        h.update(rel.encode())
        h.update(b"\0")
        with open(os.path.join(repo, rel), "rb") as f:
            h.update(f.read())
        h.update(b"\0")
    # the analyser itself is part of the key: a changed driver must not reuse old facts
    for dp, dn, fn in os.walk(os.path.join(DRIVER_DIR, "src")):
        for f in sorted(fn):
            with open(os.path.join(dp, f), "rb") as fh:
                h.update(fh.read())
    return h.hexdigest()[:20]


def ensure_driver():
    srcs = [os.path.join(DRIVER_DIR, "src", f) for f in os.listdir(os.path.join(DRIVER_DIR, "src"))]
    if os.path.exists(DRIVER) and all(os.path.getmtime(DRIVER) >= os.path.getmtime(s) for s in srcs):
        return
    os.makedirs(CACHE, exist_ok=True)
    with open(os.path.join(CACHE, "driver.lock"), "w") as lk:
        fcntl.flock(lk, fcntl.LOCK_EX)
        if os.path.exists(DRIVER) and all(os.path.getmtime(DRIVER) >= os.path.getmtime(s) for s in srcs):
            return
        env = base_env()
        r = subprocess.run(["cargo", "build", "--offline"], cwd=DRIVER_DIR, env=env,
                           capture_output=True, text=True)
        if r.returncode != 0:
            sys.stderr.write(r.stdout + r.stderr)
            raise RuntimeError("driver build failed")


def prune_cache(keep):
    """Best effort and never fatal: concurrent checks prune at the same time, so an entry may vanish between the
    directory listing and the stat (this raced once and surfaced as a CHECKER-ERROR of whichever check ran first)."""
    try:
        ents = [e for e in os.listdir(CACHE) if len(e) == 20 and os.path.isdir(os.path.join(CACHE, e))]
    except OSError:
        return

    def mtime(e):
        try:
            return os.path.getmtime(os.path.join(CACHE, e))
        except OSError:
            return 0.0
    try:
        ents.sort(key=mtime, reverse=True)
        now = time.time()
        for e in ents[3:]:
            # never prune an entry another (concurrent) check may still be using
            m = mtime(e)
            if e != keep and m and now - m > 1800:
                shutil.rmtree(os.path.join(CACHE, e), ignore_errors=True)
    except OSError:
        pass


class BuildError(Exception):
    pass


def facts_path(config, repo=None, want_rlib=False):
    """Return the path of the fact file for `config`, producing it if the cache has no entry for the
    current tree hash. With want_rlib the build output (rlib + deps) is kept for the witness engine."""
    repo = repo or REPO
    ensure_driver()
    th = tree_hash(repo)
    d = os.path.join(CACHE, th, config)
    os.makedirs(d, exist_ok=True)
    fact = os.path.join(d, "gc_arena.json")
    tdir = os.path.join(d, "target")
    stamp = os.path.join(d, "ok")
    rlib_stamp = os.path.join(d, "rlib_ok")
    with open(os.path.join(d, "lock"), "w") as lk:
        fcntl.flock(lk, fcntl.LOCK_EX)
        have_fact = os.path.exists(stamp) and os.path.exists(fact)
        if have_fact and (not want_rlib or os.path.exists(rlib_stamp)):
            os.utime(os.path.join(CACHE, th))
            return fact
        out_dir = d
        if have_fact:
            # only the rlib is missing: a stamped fact file is immutable (other checks of the same tree may be
            # reading it right now), so the driver's output of this second build goes to a scratch directory
            out_dir = os.path.join(d, "rlib-build-facts")
            shutil.rmtree(out_dir, ignore_errors=True)
            os.makedirs(out_dir)
        else:
            if os.path.exists(fact):
                os.remove(fact)
            for s in (stamp, rlib_stamp):
                if os.path.exists(s):
                    os.remove(s)
        shutil.rmtree(tdir, ignore_errors=True)
        env = base_env()
        env["RUSTFLAGS"] = "-Zmir-opt-level=0 -Awarnings"
        env["RUSTC_WORKSPACE_WRAPPER"] = DRIVER
        env["GCV_OUT"] = out_dir
        env["GCV_CRATES"] = "gc_arena"
        env["CARGO_TARGET_DIR"] = tdir
        sub = "build" if want_rlib else "check"
        cmd = ["cargo", "+nightly", sub, "--offline", "--lib"] + CONFIGS[config]
        t0 = time.time()
        r = subprocess.run(cmd, cwd=repo, env=env, capture_output=True, text=True)
        if r.returncode != 0:
            with open(os.path.join(d, "build.log"), "w") as f:
                f.write(r.stdout + r.stderr)
            raise BuildError("cargo %s failed for config %s:\n%s" % (sub, config, (r.stdout + r.stderr)[-4000:]))
        if not os.path.exists(os.path.join(out_dir, "gc_arena.json")):
            raise BuildError("driver did not write a fact file for config %s (cargo output:\n%s)" % (
                config, (r.stdout + r.stderr)[-2000:]))
        if out_dir != d:
            shutil.rmtree(out_dir, ignore_errors=True)
        if want_rlib:
            open(rlib_stamp, "w").write("%f" % (time.time() - t0))
        else:
            shutil.rmtree(tdir, ignore_errors=True)
        open(stamp, "w").write("%f" % (time.time() - t0))
    prune_cache(th)
    return fact


def rlib_dir(config="default", repo=None):
    """Directory holding libgc_arena.rlib and deps for the witness engine (built by cargo, not run)."""
    fact = facts_path(config, repo, want_rlib=True)
    return os.path.join(os.path.dirname(fact), "target", "debug")


_loaded = {}


def load(config, repo=None):
    p = facts_path(config, repo)
    if p not in _loaded:
        with open(p) as f:
            txt = f.read()
        data = json.loads(txt)
        txt2 = canonical_impl_paths(txt, data)
        if txt2 != txt:
            txt = txt2
            data = json.loads(txt)
        aliases = module_aliases(data)
        if aliases:
            import re
            for src, dst in sorted(aliases, key=lambda x: -len(x[0])):
                txt = re.sub(re.escape(src) + r"(?![A-Za-z0-9_])", dst.replace("\\", "\\\\"), txt)
            data = json.loads(txt)
            data["module_aliases"] = aliases
        from gcv import canon
        all_roles = []
        for _round in range(8):
            roles = canon.role_aliases(data)
            if not roles:
                break
            for src, dst in sorted(set(roles), key=lambda x: -len(x[0])):
                txt = substitute_path(txt, src, dst)
            data = json.loads(txt)
            all_roles += [r for r in roles if r not in all_roles]
        if all_roles:
            data["role_aliases"] = all_roles
        _loaded[p] = data
    return _loaded[p]


def substitute_path(txt, src, dst):
    """Replace the definition path `src` by `dst` in the raw fact text. Raw paths carry generic argument lists between
    segments (`context::PhaseGuard::<'a>::switch`), which are kept."""
    import re
    ss, ds = src.split("::"), dst.split("::")
    if len(ss) == len(ds) and ss[:-1] == ds[:-1]:
        # same parent, another last segment (a renamed method / function / type)
        pre = r"(?:::<[^<>]*>)?::".join(re.escape(x) for x in ss[:-1])
        pat = "(" + pre + r"(?:::<[^<>]*>)?::)" + re.escape(ss[-1]) + r"(?![A-Za-z0-9_])" if ss[:-1] else re.escape(src) + r"(?![A-Za-z0-9_])"
        return re.sub(pat, (lambda m: m.group(1) + ds[-1]) if ss[:-1] else dst, txt)
    return re.sub(re.escape(src) + r"(?![A-Za-z0-9_])", dst, txt)


def canonical_impl_paths(txt, data):
    """An inherent or trait impl block may live in another module than its Self type (`mod mark { impl Context {..} }`):
    rustc then names the methods `context::mark::<impl context::Context>::trace` resp.
    `context::sweep::<impl Drop for context::Context>::drop`. A method belongs to its Self type wherever the block is
    written, so for crate-local, non-generic Self types these are read as `context::Context::trace` and
    `<context::Context as Drop>::drop` (the forms the same code has when the block sits next to the type)."""
    import re
    local = {re.sub(r"<.*", "", a["path"]) for a in data.get("adts", [])}
    if "<impl " not in txt:
        return txt
    mod = r"[a-z_][a-z_0-9]*(?:::[a-z_][a-z_0-9]*)*"
    ty = r"[a-z_][a-z_0-9]*(?:::[a-z_][a-z_0-9]*)*::[A-Z][A-Za-z0-9_]*"

    def inherent(m):
        return (m.group(2) + "::") if m.group(2) in local else m.group(0)

    def trait_impl(m):
        return ("<%s as %s>::" % (m.group(3), m.group(2))) if m.group(3) in local else m.group(0)
    txt = re.sub(r"(%s)::<impl (%s)>::" % (mod, ty), inherent, txt)
    txt = re.sub(r"(%s)::<impl ([A-Za-z_][A-Za-z0-9_:]*) for (%s)>::" % (mod, ty), trait_impl, txt)
    return txt


_anchor_cache = []


def anchor_paths():
    """Every crate-local definition path the rules name (collected from the rule sources themselves)."""
    if _anchor_cache:
        return _anchor_cache[0]
    import glob
    import re
    pat = re.compile(r"[\"'<]((?:[a-z_][a-z_0-9]*::)+[A-Za-z_][A-Za-z_0-9]*(?:::[A-Za-z_][A-Za-z_0-9]*)?)")
    out = set()
    here = os.path.dirname(os.path.abspath(__file__))
    for f in glob.glob(os.path.join(here, "*.py")) + glob.glob(os.path.join(here, "props", "*.py")):
        for m in pat.finditer(open(f).read()):
            a = m.group(1)
            if not a.startswith(("core::", "alloc::", "std::", "gcv::")):
                out.add(a)
    _anchor_cache.append(out)
    return out


def module_aliases(data):
    """Private items may move to another module (a new private submodule, a sibling file) without any behaviour
    changing (`dynamic_roots::Slots` -> `dynamic_roots::slots::Slots`, `context::Mutation` -> `mutation::Mutation`).
    The rules name items by their path on the pinned tree; when such a path is gone and exactly one item with the same
    name (type, free function, or `Type::method`) exists elsewhere in the crate, that item is read under the pinned
    path (provided the pinned path is not taken by something else). Returns [(current path, pinned path)]."""
    import re
    items = set()
    for a in data.get("adts", []):
        items.add(re.sub(r"<.*", "", a["path"]))
    for f in data.get("fns", []):
        items.add(re.sub(r"::<[^>]*>|<[^>]*>", "", f["path"]))
    for m in data.get("macros", []):
        items.add(m["path"])
    for t in data.get("traits", []):
        items.add(t["path"])
    items = {i for i in items if i and not i.startswith("<")}
    types = {re.sub(r"<.*", "", a["path"]) for a in data.get("adts", [])} | {t["path"] for t in data.get("traits", [])}
    aliases = {}
    # only paths that were items of the pinned tree can be the *pinned* side of a move (a string in a rule source that
    # merely looks like a path must never rename anything)
    pinned = None
    pf = os.path.join(os.path.dirname(os.path.abspath(__file__)), "pinned_items.txt")
    if os.path.exists(pf):
        with open(pf) as fh:
            pinned = {l.strip() for l in fh if l.strip()}
    for a in anchor_paths():
        segs = a.split("::")
        # the type (or free function) part of the anchor: drop a trailing method segment when the one before is a type
        head = a
        if len(segs) >= 3 and segs[-2][:1].isupper():
            head = "::".join(segs[:-1])
        if head in items or any(i.startswith(head + "::") for i in items):
            continue
        if pinned is not None and head not in pinned and not any(i.startswith(head + "::") for i in pinned):
            continue
        name = head.split("::")[-1]
        pool = types if name[:1].isupper() else items
        c = sorted({i for i in pool if i.endswith("::" + name) and i != head})
        if len(c) == 1:
            aliases[c[0]] = head
    out = []
    for src, dst in sorted(aliases.items()):
        moved = {i for i in items if i == src or i.startswith(src + "::")}
        if any((dst + i[len(src):]) in items for i in moved):
            continue    # the pinned path is taken: not a plain move
        out.append((src, dst))
    # inherent impl blocks on a type of another module (`impl Gc<Lock<T>>` written in lock.rs is
    # `lock::<impl gc::Gc<..>>::set`): when the block moves into a submodule (`lock::cell_lock::<impl gc::Gc<..>>::set`)
    # and the pinned form is gone, the methods are read under the pinned module
    raw = [f["path"] for f in data.get("fns", [])]
    for (mod, ty, meth) in impl_anchor_paths():
        pinned = "%s::<impl %s" % (mod, ty)
        if any(r.startswith(pinned) and re.match(r"[<>]", r[len(pinned):len(pinned) + 1] or ">") and r.endswith("::" + meth) for r in raw):
            continue
        for r in raw:
            m = re.match(r"^((?:[a-z_][a-z_0-9]*::)*[a-z_][a-z_0-9]*)::<impl %s(?![A-Za-z0-9_])" % re.escape(ty), r)
            if m and r.endswith("::" + meth) and m.group(1) != mod and (m.group(1).startswith(mod + "::") or mod.startswith(m.group(1) + "::")
                                                                        or m.group(1).rsplit("::", 1)[0] == mod.rsplit("::", 1)[0]):
                pair = ("%s::<impl %s" % (m.group(1), ty), pinned)
                if pair not in out:
                    out.append(pair)
    return out


_impl_anchor_cache = []


def impl_anchor_paths():
    """(module, self type, method) of every `module::<impl Type>::method` path the rules name."""
    if _impl_anchor_cache:
        return _impl_anchor_cache[0]
    import glob
    import re
    pat = re.compile(r"[\"']((?:[a-z_][a-z_0-9]*::)*[a-z_][a-z_0-9]*)::<impl ([A-Za-z_][A-Za-z_0-9:]*)>::([A-Za-z_][A-Za-z_0-9]*)")
    out = set()
    here = os.path.dirname(os.path.abspath(__file__))
    for f in glob.glob(os.path.join(here, "*.py")) + glob.glob(os.path.join(here, "props", "*.py")):
        for m in pat.finditer(open(f).read()):
            if not m.group(1).startswith(("core", "alloc", "std")):
                out.add((m.group(1), m.group(2), m.group(3)))
    _impl_anchor_cache.append(sorted(out))
    return _impl_anchor_cache[0]


def load_many(configs, repo=None):
    """Produce (in parallel) and load the fact files of several configurations."""
    import concurrent.futures as cf
    with cf.ThreadPoolExecutor(max_workers=len(configs)) as ex:
        futs = {c: ex.submit(facts_path, c, repo) for c in configs}
        for c, f in futs.items():
            f.result()
    return {c: load(c, repo) for c in configs}
