"""E3 rules for the metrics module (shared by C09/C10): who-may-call pairing, subtraction inventory,
clamp / empty-arena dominance in allocation_debt."""
from gcv import cfg
from gcv.model import norm


def run(chk, prog):
    prog.edges()
    # -- count pairing -----------------------------------------------------------------------------
    alloc_callers = sorted({e.caller for e in prog.callers_of("metrics::Metrics::mark_gc_allocated")})
    chk.inst("pairing:mark_gc_allocated-only-in-link", "metrics::Metrics::mark_gc_allocated",
             alloc_callers == ["context::Context::link"],
             detail="mark_gc_allocated is called from %s (must be exactly Context::link)" % alloc_callers)
    link_callers = sorted({e.caller for e in prog.callers_of("context::Context::link")})
    chk.inst("pairing:link-only-from-Mutation::link", "context::Context::link",
             link_callers == ["context::Mutation::link"], detail="callers: %s" % link_callers)
    mlink_callers = sorted({e.caller for e in prog.callers_of("context::Mutation::link")})
    chk.inst("pairing:Mutation::link-only-from-assume_init", "context::Mutation::link",
             mlink_callers == ["gc::GcBuilder::assume_init"], detail="callers: %s" % mlink_callers)
    # every path of link calls mark_gc_allocated exactly once: decided by T(link) (credits == [allocated 1])
    # every GcPtr::dealloc site of a linked object is followed by mark_gc_freed(1) on the normal path
    n_sites = 0
    for e in prog.callers_of("gc_ptr::GcPtr::dealloc"):
        if e.caller == "<gc::GcBuilder as core::ops::drop::Drop>::drop":
            # unlinked block: must NOT be counted
            body = prog.body_of(e.caller_raw)
            bad = [x for x in prog.calls_from(e.caller) if x.callee and x.callee.startswith("metrics::Metrics::mark_gc_")]
            chk.inst("pairing:builder-drop-not-counted", e.caller, not bad,
                     detail="GcBuilder::drop touches metrics: %s" % bad)
            continue
        n_sites += 1
        body = prog.body_of(e.caller_raw)
        freed_blocks = [x.bb for x in prog.calls_from(e.caller) if x.callee == "metrics::Metrics::mark_gc_freed"]
        # from the dealloc block's normal successor, every path to a return / loop back edge passes a freed call
        ok = bool(freed_blocks)
        if ok:
            start = body["blocks"][e.bb]["t"].get("t")
            ok = _all_paths_hit(body, start, set(freed_blocks), stop={e.bb})
        chk.inst("pairing:dealloc-followed-by-mark_gc_freed", "%s" % e.caller, ok,
                 detail="a GcPtr::dealloc of a linked object in %s is not followed by mark_gc_freed on every normal path" % e.caller,
                 loc="%s:%s" % (e.file, e.line), sample={"caller": e.caller, "dealloc_line": e.line})
    chk.floor("linked-dealloc-sites", n_sites, 1)

    # -- subtraction inventory in metrics.rs --------------------------------------------------------
    subs = []
    for d_raw, key in prog.seed.items():
        b = prog.bodies[key]
        if not b["span"]["f"].endswith("metrics.rs"):
            continue
        for bb in b["blocks"]:
            for s in bb["s"]:
                if s["k"] == "assign" and s["r"]["k"] == "binop" and s["r"]["op"].startswith("Sub"):
                    t = prog.ty(s["r"]["ty"])
                    if t.get("k") == "uint":
                        subs.append(prog.fn_of_closure(norm(d_raw)))
    allowed = {"metrics::Metrics::mark_gc_freed", "metrics::Metrics::mark_gc_untraced"}
    # a private helper that is only reachable through the two reviewed subtracting updates is part of them (their
    # own shape - which counter, which amount - is decided by the metric-helper-shape rule, which interprets helpers)
    from gcv.props import common
    extra = sorted(f for f in set(subs) - allowed if common.escapes(prog, f, allowed) is not None)
    chk.inst("no-new-unsigned-subtraction", "metrics.rs", not extra,
             detail="unsigned subtraction on a counter reachable without going through mark_gc_freed / mark_gc_untraced: %s" % extra,
             sample={"unsigned_subtraction_sites": sorted(set(subs))})
    chk.extra["unsigned_subtraction_sites"] = sorted(set(subs))


def _all_paths_hit(body, start, targets, stop, limit=400):
    """Every normal path from `start` reaches a block in `targets` before returning or re-entering `stop`."""
    seen = set()
    work = [start]
    while work:
        b = work.pop()
        if b is None or b in seen:
            continue
        seen.add(b)
        if b in targets:
            continue
        if b in stop:
            return False
        t = body["blocks"][b]["t"]
        if t["k"] in ("return",):
            return False
        for n in cfg.normal_succs(body["blocks"][b]):
            work.append(n)
        if len(seen) > limit:
            return False
    return True
