"""The oracle: hand-written specifications of the collector primitives, derived from the property
statements and the tri-colour argument (DESIGN.md §4), independent of the code. Each function takes
one extracted table row and returns a list of problems (empty = the row satisfies the spec).

Specs are stated as post-conditions / frame conditions over abstract facts (final colours, queue
membership, credit events, dropped/freed), never as expected statement sequences, so that a
behaviour-preserving refactor keeps satisfying them."""

WHITE = ("W", "WW")


def diff(row, out):
    """Changed abstract facts between the row's initial snapshot and an outcome's post state."""
    a, b = row.init, out.post
    d = {}
    for k in ("phase", "root_needs_trace", "gray", "gray_again", "all", "sweep", "sweep_prev"):
        if a[k] != b[k]:
            d[("ctx", k)] = (a[k], b[k])
    for i, o in a["objs"].items():
        p = b["objs"].get(i)
        for f in ("colour", "live", "nt", "next", "dropped", "freed"):
            if p is None or o.get(f) != p.get(f):
                d[("obj", i, f)] = (o.get(f), None if p is None else p.get(f))
    return d


def _pushed(row, out):
    """object ids appended to (gray, gray_again) by this run."""
    g0, g1 = row.init["gray"], out.post["gray"]
    a0, a1 = row.init["gray_again"], out.post["gray_again"]
    return g1, a1


def common_mutator(row, out, allow_panic=False):
    """Frame conditions shared by every mutator-side primitive (barriers, trace, upgrade, ...)."""
    probs = []
    early = early_destructs(row, out)
    # user code (a destructor, a Collect::trace) that a mutator-side primitive ran ahead of time may panic: that
    # panic, and the unwinding exit it causes, belong to the same timing problem, not to the collector's own code
    user_panics = [e for e in out.panics() if str(e[1]).startswith("user ")]
    ran_user_code = bool(early) or out.has("trace_value") or out.has("user_trace")
    own_panics = [e for e in out.panics() if e not in user_panics or not ran_user_code]
    if not allow_panic and out.panics():
        probs.append("%spanics: %s" % ("" if own_panics else "[timing] ", out.panics(),))
    if out.kind not in ("return",) and not allow_panic:
        probs.append("%sexit kind %s" % ("[timing] " if (ran_user_code and not own_panics) else "", out.kind))
    for name in ("dropped", "freed", "use_after_free", "double_drop", "double_free", "trace_value", "user_trace",
                 "unreachable_reached"):
        if out.has(name):
            only_early = name == "dropped" and all(e[1] in early for e in out.events("dropped"))
            # marking work done eagerly inside a mutator-side primitive (an object is traced and blackened on the
            # spot): wrong *time* for collection work (C03), but the marking itself is sound
            eager_mark = name in ("trace_value", "user_trace") and all(
                out.post["objs"].get(e[1], {}).get("colour") in ("B", "G") for e in out.events("trace_value"))
            probs.append("%sevent %s in a mutator-side primitive" % ("[timing] " if (only_early or eager_mark) else "", name))
    d = diff(row, out)
    for k in d:
        if k[0] == "ctx" and k[1] in ("phase", "all", "sweep", "sweep_prev"):
            probs.append("changed context field %s: %s -> %s" % (k[1], d[k][0], d[k][1]))
        if k[0] == "obj" and k[2] in ("live", "nt", "next", "dropped", "freed"):
            tag = "[timing] " if (k[1] in early and k[2] in ("live", "dropped")) else ""
            probs.append("%schanged object %s field %s: %s -> %s" % (tag, k[1], k[2], d[k][0], d[k][1]))
    probs += gray_queue_consistency(row, out)
    probs += credit_consistency(row, out)
    return probs


def early_destructs(row, out):
    """Objects whose value this run destructed *consistently* while they were already condemned: the sweep
    is running, the object is White/WhiteWeak (the finished marking proved it not strongly reachable), it
    was live, and afterwards it is flagged not-live, destructed once, block kept. That is work the sweep
    would have done anyway: it breaks the *timing* clause of C03 (destructors only inside collection
    methods), not reachability-safety, exactly-once, or weak-pointer truthfulness."""
    ids = set()
    if row.init.get("phase") != "Sweep":
        return ids
    for i, o in row.init["objs"].items():
        p = out.post["objs"].get(i)
        if p is None:
            continue
        if o["colour"] in WHITE and o["live"] == 1 and not o.get("dropped") and p["live"] == 0 \
                and p.get("dropped") == 1 and (p.get("freed") or 0) == (o.get("freed") or 0):
            ids.add(i)
    return ids


def gray_queue_consistency(row, out):
    """S7 (local form): an object is Gray iff it sits in exactly one queue, for every object whose
    colour or queue membership this run touched (pre-states are built satisfying it)."""
    probs = []
    g, ga = out.post["gray"], out.post["gray_again"]
    if g == "?" or ga == "?":
        return ["queue contents unknown"]
    for i, o in out.post["objs"].items():
        if o.get("freed"):
            continue
        n = list(g).count(i) + list(ga).count(i)
        pre = row.init["objs"][i]
        pre_n = list(row.init["gray"]).count(i) + list(row.init["gray_again"]).count(i)
        touched = (pre["colour"] != o["colour"]) or (n != pre_n)
        if not touched:
            continue
        if o["colour"] == "G" and n != 1:
            probs.append("object %s is Gray but queued %d time(s)" % (i, n))
        if o["colour"] != "G" and n != 0:
            probs.append("object %s is %s but still queued" % (i, o["colour"]))
    return probs


def credit_consistency(row, out):
    """Work credits match the work done in this run: `marked` once per object leaving White,
    `untraced` once per Black->Gray re-queue, `traced` once per Gray->Black blackening by the collector."""
    probs = []
    left_white = 0
    regray = 0
    for i, o in out.post["objs"].items():
        pre = row.init["objs"][i]["colour"]
        if pre == "W" and o["colour"] != "W":
            left_white += 1
    # re-grays: count set_color events B->G (an object may go G->B->G within mark_one's unwind path)
    for e in out.ev:
        if e[0] == "set_color" and e[2] == "B" and e[3] == "G":
            regray += 1
    m = out.metrics()
    marked = sum(n for (k, n) in m if k == "marked" and n != "?")
    untraced = sum(n for (k, n) in m if k == "untraced" and n != "?")
    if any(n == "?" for (k, n) in m):
        probs.append("metric event with a non-constant count")
    traced = sum(n for (k, n) in m if k == "traced" and n != "?")
    did_trace = len(out.events("trace_value"))
    if traced > did_trace:
        probs.append("[credits-over] `traced` credited %d time(s) by a primitive that traced %d object(s)" % (traced, did_trace))
    for other in ("remembered", "dropped", "freed", "allocated"):
        c = sum(n for (k, n) in m if k == other and n != "?")
        if c:
            probs.append("[credits-over] `%s` credited by a mutator-side primitive" % other)
    if marked != left_white:
        # a second `marked` credit for an object that was already weakly marked and is now strongly marked is real
        # marking work credited twice per cycle: it breaks the per-object work bound of the pacing (C09), not the
        # truthfulness of the debt (C10: still only collection work pays)
        strong_after_weak = sum(1 for i, o in out.post["objs"].items()
                                if row.init["objs"][i]["colour"] == "WW" and o["colour"] in ("G", "B"))
        asp = "under" if marked < left_white else ("repeat" if marked <= left_white + strong_after_weak else "over")
        probs.append("[credits-%s] credited marked=%d but %d object(s) left White" % (asp, marked, left_white))
    if untraced != regray:
        probs.append("[credits-%s] credited untraced=%d but %d Black->Gray re-queue(s)" % (
            "under" if untraced > regray else "over", untraced, regray))
    return probs


def only_colour_moves(row, out, allowed):
    """allowed: dict obj id -> set of (old, new) colour moves permitted."""
    probs = []
    for i, o in out.post["objs"].items():
        pre = row.init["objs"][i]["colour"]
        if pre != o["colour"] and (pre, o["colour"]) not in allowed.get(i, set()):
            probs.append("object %s colour %s -> %s not permitted here" % (i, pre, o["colour"]))
    return probs


STRONG_MARK = {("W", "G"), ("W", "B"), ("WW", "G"), ("WW", "B")}
WEAK_MARK = {("W", "WW")}
REGRAY = {("B", "G")}


def one_normal(row):
    if row.err:
        return ["could not be analysed: %s" % row.err]
    if not row.outs:
        return ["no outcome"]
    return []


# ---------------------------------------------------------------------------------------------- trace

def spec_trace(row):
    """Context::trace(x): strong marking of a child (O2). Applicable rows: live=1."""
    probs = one_normal(row)
    for out in row.outs:
        probs += common_mutator(row, out)
        pre = row.pre
        post = out.post["objs"][1]
        probs += only_colour_moves(row, out, {1: STRONG_MARK})
        if pre["colour"] in WHITE:
            if post["colour"] in WHITE:
                probs.append("a White/WhiteWeak child stays condemned after being traced")
            if post["colour"] == "B" and pre["nt"] == 1:
                probs.append("a tracing object was blackened without being queued (its children are never traced)")
        else:
            if post["colour"] != pre["colour"]:
                probs.append("already marked object changed colour")
        if ("ctx", "root_needs_trace") in diff(row, out):
            probs.append("root flag changed")
    return probs


def spec_trace_weak(row):
    """Context::trace_weak(x): weak marking never keeps the value alive (C05)."""
    probs = one_normal(row)
    for out in row.outs:
        probs += common_mutator(row, out)
        probs += only_colour_moves(row, out, {1: WEAK_MARK})
        post = out.post["objs"][1]
        if row.pre["colour"] == "W" and post["colour"] != "WW":
            probs.append("[weak] a White object reached by a traced weak pointer is not marked WhiteWeak (its block "
                         "would be freed while the weak pointer is still reachable)")
        if out.post["gray"] != row.init["gray"] or out.post["gray_again"] != row.init["gray_again"]:
            probs.append("weak tracing queued an object")
        if ("ctx", "root_needs_trace") in diff(row, out):
            probs.append("root flag changed")
    return probs


def spec_upgrade(row):
    """Context::upgrade(x) == live ∧ ¬(phase=Sweep ∧ colour=WhiteWeak); pure."""
    probs = one_normal(row)
    pre = row.pre
    want = 1 if (pre["live"] == 1 and not (pre["phase"] == "Sweep" and pre["colour"] == "WW")) else 0
    for out in row.outs:
        probs += common_mutator(row, out)
        dd = diff(row, out)
        if dd:
            early = early_destructs(row, out)
            timing = all(k[0] == "obj" and k[1] in early and k[2] in ("live", "dropped") for k in dd)
            probs.append("%supgrade changed collector state: %s" % ("[timing] " if timing else "", dd))
        if out.kind == "return" and out.ret != want:
            probs.append("returned %s, specification says %s" % (out.ret, want))
    return probs


def spec_resurrect(row):
    """Context::resurrect(x) (phase=Mark, live=1): dead objects become Gray and queued."""
    probs = one_normal(row)
    for out in row.outs:
        probs += common_mutator(row, out)
        probs += only_colour_moves(row, out, {1: {("W", "G"), ("WW", "G"), ("W", "B"), ("WW", "B")}})
        post = out.post["objs"][1]
        if row.pre["colour"] in WHITE:
            if post["colour"] in WHITE:
                probs.append("dead object still dead after resurrect")
            traced_now = any(e[1] == 1 for e in out.events("trace_value"))
            if post["colour"] == "B" and row.pre["nt"] == 1 and not traced_now:
                probs.append("resurrected tracing object blackened without queueing: its closure is not marked")
            if not (list(out.post["gray"]) + list(out.post["gray_again"])):
                probs.append("[reporting] reviving a dead object leaves no pending mark work: the arena keeps reporting "
                             "Marked instead of Marking")
        if ("ctx", "root_needs_trace") in diff(row, out):
            probs.append("root flag changed")
    return probs


def spec_make_gray_again(row):
    probs = one_normal(row)
    for out in row.outs:
        probs += common_mutator(row, out)
        probs += only_colour_moves(row, out, {1: REGRAY})
        if out.post["objs"][1]["colour"] != "G":
            probs.append("object not Gray after make_gray_again")
    return probs


# ---------------------------------------------------------------------------------------------- barriers

def _post_colour(out, i):
    return out.post["objs"][i]["colour"]


def spec_backward_barrier(row, weak=False):
    """Post-condition from the tri-colour invariant: after the call, while marking, the parent must not
    be a Black object that may adopt a condemned child. Frame: only parent B->G (re-queued)."""
    probs = one_normal(row)
    pre = row.pre
    for out in row.outs:
        probs += common_mutator(row, out)
        allowed = {1: set(REGRAY)}
        probs += only_colour_moves(row, out, allowed)
        if ("ctx", "root_needs_trace") in diff(row, out):
            probs.append("root flag changed")
        if pre["phase"] != "Mark":
            if diff(row, out):
                probs.append("barrier outside the mark phase changed state: %s" % (diff(row, out),))
            continue
        p_post = _post_colour(out, 1)
        if pre["Pnt"] == 0:
            continue  # a parent whose type holds no pointers adopts nothing: both forms satisfy the spec
        if pre["child"] == "None":
            if p_post == "B":
                probs.append("general (parent-only) backward barrier leaves the parent Black: it may now adopt "
                             "a White child that is never traced")
        elif pre["child"] == "alias":
            pass
        else:
            c_post = _post_colour(out, 2)
            bad = ("W",) if weak else WHITE
            if p_post == "B" and c_post in bad:
                probs.append("%sparent stays Black while the adopted child is %s" % ("[weak] " if weak else "", c_post))
    return probs


def spec_forward_barrier(row, weak=False):
    """Post-condition: while marking, after forward_barrier(parent?, child) the child is not condemned
    whenever the parent is unspecified or Black. Frame: only the child is marked."""
    probs = one_normal(row)
    pre = row.pre
    for out in row.outs:
        probs += common_mutator(row, out)
        probs += only_colour_moves(row, out, {2: set(WEAK_MARK) if weak else set(STRONG_MARK)})
        if ("ctx", "root_needs_trace") in diff(row, out):
            probs.append("root flag changed")
        if pre["phase"] != "Mark":
            dd = diff(row, out)
            if dd:
                # a weak mark (White -> WhiteWeak) outside the mark phase harms only the weak-pointer clauses
                # (upgrade refuses a reachable target during the sweep; a shell is kept one cycle longer)
                only_weak_mark = weak and all(k[0] == "obj" and k[2] == "colour" and v == ("W", "WW") for k, v in dd.items())
                # a strong mark of the child outside the mark phase (child W/WW -> G queued, or -> B) endangers nothing:
                # the child is held by the mutator, hence not condemned by a running sweep, and a marked object is
                # only retained longer (it starts the next cycle marked). That breaks exactness (C02), not safety.
                only_strong_mark = (not weak) and all(
                    (k == ("obj", 2, "colour") and v[0] in ("W", "WW") and v[1] in ("G", "B")) or
                    (k == ("ctx", "gray") and tuple(v[1]) == tuple(v[0]) + (2,)) for k, v in dd.items())
                tag = "[overmark] " if only_weak_mark else ("[overmark-strong] " if only_strong_mark else "")
                probs.append("%sbarrier outside the mark phase changed state: %s" % (tag, dd))
            continue
        c_post = _post_colour(out, 2)
        needs = pre["parent"] in ("None", "B") or (pre["parent"] == "alias" and pre["C"] == "B")
        if needs:
            if weak and c_post == "W":
                probs.append("[weak] child still White after a weak forward barrier with %s parent" % pre["parent"])
            if not weak and c_post in WHITE:
                probs.append("child still %s after a forward barrier with %s parent" % (c_post, pre["parent"]))
            if not weak and c_post == "B" and pre["Cnt"] == 1 and pre["C"] in WHITE:
                probs.append("tracing child blackened without being queued")
    return probs


def spec_root_barrier(row):
    probs = one_normal(row)
    for out in row.outs:
        probs += common_mutator(row, out)
        d = diff(row, out)
        for k in d:
            if k != ("ctx", "root_needs_trace"):
                probs.append("root barrier changed %s" % (k,))
        if row.pre["phase"] == "Mark" and out.post["root_needs_trace"] != 1:
            probs.append("root not flagged for re-tracing while marking")
        if out.post["root_needs_trace"] == 0 and row.pre["flag"] == 1:
            probs.append("root barrier cleared the root flag")
    return probs


def spec_gray_remaining(row):
    probs = one_normal(row)
    want = 1 if (row.pre["gray"] or row.pre["gray_again"] or row.pre["flag"]) else 0
    for out in row.outs:
        if out.ret != want:
            probs.append("returned %s, specification says %s" % (out.ret, want))
        if diff(row, out):
            probs.append("state changed")
    return probs


# ---------------------------------------------------------------------------------------------- collector steps

def spec_mark_one(row):
    """O3 + C11: blackening is complete or undone; Break only when nothing is owed."""
    probs = one_normal(row)
    pre = row.pre
    owed = pre["gray"] or pre["gray_again"]
    kinds = {o.kind for o in row.outs}
    for out in row.outs:
        for name in ("dropped", "freed", "use_after_free", "double_drop", "double_free"):
            if out.has(name):
                probs.append("event %s during marking" % name)
        d = diff(row, out)
        for k in d:
            if k[0] == "ctx" and k[1] in ("phase", "all", "sweep", "sweep_prev"):
                probs.append("changed context field %s" % k[1])
            if k[0] == "obj" and k[2] in ("live", "nt", "next", "dropped", "freed"):
                probs.append("changed object %s field %s" % (k[1], k[2]))
        probs += gray_queue_consistency(row, out)
        m = out.metrics()
        traced = sum(n for (k, n) in m if k == "traced")
        untraced = sum(n for (k, n) in m if k == "untraced")
        marked = sum(n for (k, n) in m if k == "marked")
        if marked:
            probs.append("mark_one itself credited `marked`")
        if owed:
            # exactly one object left the queues
            q0 = list(row.init["gray"]) + list(row.init["gray_again"])
            q1 = list(out.post["gray"]) + list(out.post["gray_again"])
            tv = [e for e in out.ev if e[0] == "trace_value"]
            if out.kind == "return":
                if out.ret != "Continue":
                    probs.append("returned %s with gray work pending" % out.ret)
                if len(q1) != len(q0) - 1:
                    probs.append("queues went from %s to %s on a normal step" % (q0, q1))
                gone = [x for x in q0 if x not in q1]
                if len(tv) != 1 or (gone and tv[0][1] != gone[0]):
                    probs.append("popped object %s was not traced exactly once (trace_value events: %s)" % (gone, tv))
                for x in gone:
                    if out.post["objs"][x]["colour"] != "B":
                        probs.append("popped object %s is %s after a completed trace" % (x, out.post["objs"][x]["colour"]))
                if traced - untraced != 1:
                    probs.append("net trace credit %d for one traced object" % (traced - untraced))
                if out.post["root_needs_trace"] != pre["flag"]:
                    probs.append("root flag changed while tracing an object")
            elif out.kind == "unwind":
                # the trace panicked: nothing may be lost
                if sorted(q1) != sorted(q0):
                    probs.append("after a panicking trace the queues hold %s instead of %s: an incompletely "
                                 "traced object was lost" % (q1, q0))
                for x in q0:
                    if out.post["objs"][x]["colour"] != "G":
                        probs.append("object %s is %s after its trace panicked (must be Gray and queued)" % (
                            x, out.post["objs"][x]["colour"]))
                if traced - untraced != 0:
                    probs.append("net trace credit %d kept for a trace that did not complete" % (traced - untraced))
                if out.post["root_needs_trace"] != pre["flag"]:
                    probs.append("root flag changed on the unwind path")
            else:
                probs.append("exit kind %s" % out.kind)
        elif pre["flag"]:
            if not out.has("user_trace"):
                probs.append("root flagged but not traced")
            if out.kind == "return":
                if out.ret != "Continue":
                    probs.append("returned %s after tracing the root" % out.ret)
                if out.post["root_needs_trace"] != 0:
                    probs.append("root flag still set after a completed root trace (marking cannot finish)")
            elif out.kind == "unwind":
                if out.post["root_needs_trace"] != 1:
                    probs.append("root flag cleared although the root trace panicked: the root is never re-traced")
            else:
                probs.append("exit kind %s" % out.kind)
            if traced or untraced:
                probs.append("trace credit for the root")
        else:
            if out.kind != "return" or out.ret != "Break":
                probs.append("nothing owed but result is %s/%s" % (out.kind, out.ret))
            if d:
                probs.append("state changed on Break: %s" % (d,))
            if m:
                probs.append("credits on Break: %s" % (m,))
    if owed and "return" not in kinds:
        probs.append("no normal path")
    return probs


def spec_sweep_one(row):
    """Per-object sweep outcome (C02/C04/C05 table), cursor advance, unlink-before-drop, list shape."""
    probs = one_normal(row)
    pre = row.pre
    for out in row.outs:
        d = diff(row, out)
        if out.has("use_after_free") or out.has("double_drop") or out.has("double_free"):
            probs.append("memory-safety event: %s" % (out.events("use_after_free", "double_drop", "double_free"),))
        if ("ctx", "phase") in d or ("ctx", "root_needs_trace") in d or ("ctx", "gray") in d or ("ctx", "gray_again") in d:
            probs.append("sweep step changed phase / root flag / queues")
        m = sorted(out.metrics())
        if pre["cursor"] == "None":
            if out.kind != "return" or out.ret != "Break":
                probs.append("empty cursor but result %s/%s" % (out.kind, out.ret))
            if out.post["sweep_prev"] is not None:
                probs.append("sweep_prev not cleared at the end of the sweep")
            if m or out.has("dropped") or out.has("freed"):
                probs.append("work done with an empty cursor")
            continue
        x = 1
        nxt = row.init["objs"][x]["next"]
        post = out.post["objs"][x]
        # cursor advance (read before any unlink/free)
        if out.post["sweep"] != nxt:
            probs.append("cursor not advanced to the next object (is %s, next was %s)" % (out.post["sweep"], nxt))
        if out.kind == "return" and out.ret != "Continue":
            probs.append("returned %s with an object at the cursor" % out.ret)
        dropped = [e for e in out.ev if e[0] == "dropped"]
        freed = [e for e in out.ev if e[0] == "freed"]
        col, live = pre["cursor"], pre["live"]
        if col == "G":
            continue  # unreachable by S2 (checked on the automaton); informational
        want_drop = (col in ("W", "WW")) and live == 1
        want_free = col == "W"
        if len(dropped) > int(want_drop):
            probs.append("%svalue destructed %d time(s), specification says %s" % (
                "" if col == "B" else "[once] ", len(dropped), int(want_drop)))
        elif len(dropped) < int(want_drop):
            probs.append("[reclaim] condemned value not destructed by the sweep (specification says it is)")
        if out.kind == "return":
            if len(freed) > int(want_free):
                probs.append("%sblock released %d time(s), specification says %s" % (
                    "" if col == "B" else "[weak] ", len(freed), int(want_free)))
            elif len(freed) < int(want_free):
                probs.append("[reclaim] condemned block not released by the sweep (specification says it is)")
            exp = []
            if want_drop:
                exp.append(("dropped", 1))
            exp.append(("freed", 1) if want_free else ("remembered", 1))
            over = [c for c in m if m.count(c) > sorted(exp).count(c)]
            under = [c for c in exp if m.count(c) < exp.count(c)]
            if over:
                probs.append("[credits-over] credits %s, specification says %s: work credited that was not done" % (m, sorted(exp)))
            if under:
                probs.append("[credits-under] credits %s, specification says %s: work done but not credited/counted" % (m, sorted(exp)))
        else:
            if out.kind != "unwind" or not dropped:
                probs.append("exit kind %s" % out.kind)
            if freed and not want_free:
                probs.append("%sblock released on unwind path" % ("" if col == "B" else "[weak] "))
        # kept objects are reset to White / shells are marked not-live
        if col in ("WW", "B"):
            if post["colour"] != "W":
                if post["live"] == 0:
                    probs.append("[reclaim] shell left %s after the sweep: no later cycle can release it" % post["colour"])
                else:
                    probs.append("survivor left %s: the next cycle treats it as already marked and never traces its "
                                 "children" % post["colour"])
            if col == "WW" and post["live"] != 0:
                probs.append("[once] weakly kept object still flagged live after its value was (or had been) destructed")
            if col == "B" and post["live"] != live:
                probs.append("[once] live flag of a marked object changed")
            if out.post["sweep_prev"] != x:
                probs.append("sweep_prev not moved to the kept object")
            if out.post["all"] != row.init["all"]:
                probs.append("list head changed while keeping an object")
            if post["next"] != nxt:
                probs.append("kept object's link changed")
        if col == "W":
            # unlinked: predecessor (or head) now points past x
            if pre["prev"] == "None":
                if out.post["all"] != nxt:
                    probs.append("head of the all-list not moved past the freed object")
            else:
                if out.post["objs"][9]["next"] != nxt:
                    probs.append("predecessor still links to the freed object")
                if out.post["all"] != row.init["all"]:
                    probs.append("list head changed although a predecessor exists")
            if out.post["sweep_prev"] != row.init["sweep_prev"]:
                probs.append("sweep_prev changed while freeing")
        # a released block must be gone from the list: otherwise a later sweep reads its header and the arena
        # drop releases it a second time
        if freed:
            linked, cur, guard = set(), out.post["all"], 0
            while cur is not None and cur not in linked and guard < 16:
                linked.add(cur)
                o = out.post["objs"].get(cur)
                cur = o.get("next") if o else None
                guard += 1
            if x in linked or out.post["sweep_prev"] == x:
                probs.append("[once] the released block is still linked in the all-list%s: a later sweep reads it and the "
                             "arena drop releases it again" % (" (and is the sweep's predecessor)" if out.post["sweep_prev"] == x else ""))
        # a condemned block whose destructor unwinds: the block is either released on the unwinding path, or still in
        # the list (flagged not-live, so that the arena drop releases it without destructing it again). Unlinked and
        # not released, nothing will ever reach it: it stays allocated and counted for good (F19).
        if out.kind == "unwind" and dropped and want_free and not freed:
            linked, cur, guard = set(), out.post["all"], 0
            while cur is not None and cur not in linked and guard < 16:
                linked.add(cur)
                o = out.post["objs"].get(cur)
                cur = o.get("next") if o else None
                guard += 1
            if not (x in linked and post["live"] == 0):
                probs.append("[leak] the destructor of a condemned value unwound and its block was neither released nor "
                             "left in the all-list: it stays allocated and counted for the rest of the arena's life and "
                             "after it")
        # (the unwind rows above carry the C11 obligations semantically: on the unwinding exit the object is already
        # unlinked / flagged not-live; statement order itself is not checked)
    return probs


def spec_link(row):
    """O7: allocation only links and counts; it is invisible to a running sweep."""
    probs = one_normal(row)
    pre = row.pre
    for out in row.outs:
        if out.kind != "return" or out.panics():
            probs.append("exit %s %s" % (out.kind, out.panics()))
        for name in ("dropped", "freed", "trace_value", "user_trace", "use_after_free"):
            if out.has(name):
                probs.append("event %s during allocation" % name)
        d = diff(row, out)
        allowed = {("obj", 1, "next"), ("ctx", "all"), ("ctx", "sweep_prev")}
        for k in d:
            if k not in allowed:
                probs.append("link changed %s: %s -> %s" % (k, d[k][0], d[k][1]))
        if out.post["objs"][1]["next"] != row.init["all"]:
            probs.append("new object does not link to the previous list head")
        if out.post["all"] != 1:
            probs.append("list head is not the new object")
        want_prev = row.init["sweep_prev"]
        if pre["phase"] == "Sweep" and pre["prev"] == "None":
            want_prev = 1
        if out.post["sweep_prev"] != want_prev:
            probs.append("sweep_prev is %s, specification says %s (the new object must become the cursor's "
                         "predecessor exactly when the sweep has none)" % (out.post["sweep_prev"], want_prev))
        if sorted(out.metrics()) != [("allocated", 1)]:
            probs.append("allocation credited %s, specification says one `allocated`" % (out.metrics(),))
    return probs


def spec_drop_all(row):
    """C04: dropping the context destructs every live value once and frees every block once, from any
    phase, resuming after a panicking destructor."""
    probs = one_normal(row)
    n = len(row.init["objs"])
    for out in row.outs:
        if out.has("use_after_free") or out.has("double_drop") or out.has("double_free"):
            probs.append("memory-safety event: %s" % (out.events("use_after_free", "double_drop", "double_free"),))
        if out.kind == "abort":
            # double panic while unwinding aborts the process: nothing to check
            continue
        panicked = len([e for e in out.ev if e[0] == "panic"])
        for i, o in row.init["objs"].items():
            po = out.post["objs"][i]
            want_drop = 1 if o["live"] == 1 else 0
            if po["dropped"] != want_drop:
                # a missed or repeated destructor is the exactly-once clause (C04, C11), not GC safety
                probs.append("[once] object %s (live=%s) destructed %s time(s)" % (i, o["live"], po["dropped"]))
            if po["freed"] > 1:
                probs.append("object %s freed twice" % i)
        freed = sum(out.post["objs"][i]["freed"] for i in row.init["objs"])
        if out.kind == "return":
            if freed != n:
                probs.append("[count] %d of %d blocks released" % (freed, n))
            fm = sum(c for (k, c) in out.metrics() if k == "freed")
            if fm != n:
                probs.append("[count] Gc count decremented %d time(s) for %d blocks" % (fm, n))
        elif out.kind == "unwind":
            if freed < n - panicked:
                probs.append("[once] only %d of %d blocks released after %d destructor panic(s): the walk did not resume" % (
                    freed, n, panicked))
            elif freed < n:
                probs.append("[leak] %d of %d blocks released after %d destructor panic(s): the block of a value whose "
                             "destructor unwinds is never returned to the allocator (the walk resumes past it)" % (
                                 freed, n, panicked))
    return probs


# ---------------------------------------------------------------------------------------------- weak / finalization API

def spec_weak_upgrade(row):
    """GcWeak::upgrade == Some(the same object) iff live ∧ ¬(Sweep ∧ WhiteWeak); pure."""
    probs = one_normal(row)
    pre = row.pre
    ok = pre["live"] == 1 and not (pre["phase"] == "Sweep" and pre["colour"] == "WW")
    for out in row.outs:
        probs += common_mutator(row, out)
        dd = diff(row, out)
        if dd:
            early = early_destructs(row, out)
            timing = all(k[0] == "obj" and k[1] in early and k[2] in ("live", "dropped") for k in dd)
            probs.append("%supgrade changed collector state" % ("[timing] " if timing else ""))
        if out.kind != "return":
            continue
        if ok and out.ret != ("Some", ("obj", 1)):
            probs.append("returned %s for an upgradable target (must be Some(target))" % (out.ret,))
        if not ok and out.ret != "None":
            probs.append("returned %s for a destructed / condemned target" % (out.ret,))
        if out.has("value_ref") or out.has("deref_of_dead_value"):
            probs.append("weak query touches the value, not only the header")
    return probs


def spec_weak_is_dropped(row):
    probs = one_normal(row)
    want = 0 if row.pre["live"] == 1 else 1
    for out in row.outs:
        probs += common_mutator(row, out)
        if diff(row, out):
            probs.append("is_dropped changed state")
        if out.ret != want:
            probs.append("is_dropped returned %s for live=%s" % (out.ret, row.pre["live"]))
        if out.has("value_ref"):
            probs.append("weak query touches the value, not only the header")
    return probs


def spec_is_dead(row):
    """is_dead == colour ∈ {White, WhiteWeak} (S8)."""
    probs = one_normal(row)
    want = 1 if row.pre["colour"] in WHITE else 0
    for out in row.outs:
        probs += common_mutator(row, out)
        if diff(row, out):
            probs.append("is_dead changed state")
        if out.ret != want:
            probs.append("is_dead returned %s for colour %s" % (out.ret, row.pre["colour"]))
        if out.has("value_ref"):
            probs.append("query touches the value, not only the header")
    return probs


def spec_weak_resurrect(row):
    """GcWeak::resurrect: None exactly for destructed targets; otherwise Some(target) and the target is
    marked (Gray+queued, or Black for non-tracing types)."""
    probs = one_normal(row)
    pre = row.pre
    for out in row.outs:
        if pre["live"] == 0:
            probs += common_mutator(row, out)
            if out.ret != "None":
                probs.append("returned %s for a destructed target" % (out.ret,))
            if diff(row, out):
                probs.append("state changed for a destructed target")
            continue
        if pre["phase"] != "Mark":
            continue  # Finalization only exists while Marked
        probs += common_mutator(row, out)
        if out.ret != ("Some", ("obj", 1)):
            probs.append("returned %s for a live target" % (out.ret,))
        post = out.post["objs"][1]
        if post["colour"] in WHITE:
            probs.append("target still dead after resurrect")
        if post["colour"] == "B" and pre["nt"] == 1 and pre["colour"] in WHITE:
            probs.append("resurrected tracing object blackened without queueing")
    return probs


def spec_adopt(row):
    """Sanctioned adoption paths: when the path may have stored into / handed out write access to the
    parent object while marking, the parent is not left Black (or, for stash, the child not condemned)."""
    probs = one_normal(row)
    pre = row.pre
    for out in row.outs:
        probs += common_mutator(row, out, allow_panic=True)
        for e in out.panics():
            if not str(e[1]).startswith("user ") and e[1] != "callback":
                probs.append("path panics: %s" % (e,))
        # the holder may be re-grayed; for stash (which knows the child) marking the child is an equally valid barrier
        probs += only_colour_moves(row, out, {1: set(REGRAY), 2: (set(REGRAY) | set(STRONG_MARK)) if pre.get("discovered") else set(STRONG_MARK)})
        if out.kind != "return":
            continue
        stored = out.has("cell_store") or getattr(row, "ret_write", False) or out.has("unlocked")
        if out.has("once_already_init") or out.ret == "Err" or (isinstance(out.ret, tuple) and out.ret[0] == "Err"):
            stored = out.has("cell_store")
        if pre["phase"] != "Mark" or pre["Pnt"] == 0 or not stored:
            continue
        p_post = out.post["objs"][1]["colour"]
        if pre.get("discovered"):
            # every Gc argument of the function may have come to hold what another one held
            for idx, ck, nk in ((1, "P", "Pnt"), (2, "O", "Ont")):
                if ck in pre and pre[ck] == "B" and pre[nk] == 1 and out.post["objs"][idx]["colour"] == "B":
                    probs.append("%s: stores into the lock(s) it is given while argument %d stays Black: whatever it adopted "
                                 "from the other side (or from the value passed in) is never traced" % (pre["path"], idx))
            continue
        if "C" in pre:
            c_post = out.post["objs"][2]["colour"]
            if p_post == "B" and c_post in WHITE:
                probs.append("%s: the set object stays Black while the stashed pointer is %s" % (pre["path"], c_post))
            adds = [e for e in out.ev if e[0] == "cell_store" and e[1] == "Slots::add"]
            if not adds or adds[0][2] != 2:
                probs.append("%s: the pointer recorded in the slot table is not the stashed one" % pre["path"])
        else:
            if p_post == "B":
                probs.append("%s: write access / store without a barrier: the parent stays Black and may hold "
                             "an untraced child" % pre["path"])
    return probs


def spec_root_paths(row):
    """Root-mutating entry points flag the root before the callback runs; read-only ones change nothing."""
    probs = one_normal(row)
    pre = row.pre
    mutating = pre["path"] in ("Arena::mutate_root", "Arena::map_root", "Arena::try_map_root")
    for out in row.outs:
        cbs = [e for e in out.ev if e[0] == "callback"]
        if len(cbs) != 1:
            probs.append("callback invoked %d time(s)" % len(cbs))
            continue
        for name in ("dropped", "freed", "trace_value", "user_trace"):
            if out.has(name):
                probs.append("event %s around a callback" % name)
        if cbs[0][1] != pre["phase"]:
            probs.append("phase changed before the callback")
        if not mutating and cbs[0][2] != pre["flag"]:
            probs.append("%s: root flag changed" % pre["path"])
        failed = out.kind != "return" or out.ret == "Err" or (isinstance(out.ret, tuple) and out.ret[0] == "Err")
        consumed = failed and pre["path"] in ("Arena::map_root", "Arena::try_map_root")
        if consumed:
            continue  # the by-value arena is destroyed while unwinding (C11: everything is released)
        if out.post["phase"] != pre["phase"]:
            probs.append("phase changed by a callback-taking function")
        # the root must be flagged on EVERY exit on which the callback may have mutated it (normal return and
        # unwinding out of the callback alike); whether the barrier runs before or after the callback is not behaviour
        if mutating and pre["phase"] == "Mark" and out.post["root_needs_trace"] != 1:
            # (an unwinding exit counts for GC safety as much as a normal one: the arena of mutate_root survives a
            # caught panic, and what the callback stored before panicking is reachable from the root)
            probs.append("%s: the arena is left (%s exit) with the root not flagged for re-tracing while marking: "
                         "pointers stored into the root by the callback are never traced" % (
                             pre["path"], "unwinding" if out.kind == "unwind" else "normal"))
        if out.post["root_needs_trace"] == 0 and cbs[0][2] == 1:
            probs.append("root flag cleared after the callback")
    return probs
