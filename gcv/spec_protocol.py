"""Oracle for the collection-phase protocol (C08) and the exit structure of debt-driven calls (C09),
written from the property statements. Input: the outcomes of protocol.Protocol.run for one
(method, entry state)."""

ORDER = {("Sleep", "Mark"), ("Mark", "Sweep"), ("Sweep", "Sleep")}
PAYDEBT = {"collect_debt", "mark_debt", "cycle_debt"}


def general(method, entry, o):
    probs = []
    ph = entry[0]
    cur = ph
    for (a, b) in o["switches"]:
        if a != cur:
            probs.append("[walk] switch %s->%s recorded while in %s" % (a, b, cur))
        if (a, b) not in ORDER:
            probs.append("[walk] phase switch %s->%s is not along Sleep->Mark->Sweep->Sleep" % (a, b))
        cur = b
    if o["phase"] != cur:
        probs.append("[walk] exit phase %s differs from last switch target %s" % (o["phase"], cur))
    if o["phase"] == "Drop" or any(b == "Drop" for (_, b) in o["switches"]):
        probs.append("[walk] Phase::Drop produced by a collection call")
    if o["overflow"]:
        probs.append("[walk] unbounded phase cycling within one call")
    ev = o["events"]
    for i, e in enumerate(ev):
        if e[0] == "panic" and not str(e[1]).startswith("user "):
            probs.append("[panic] collector code panics: %s (%s)" % (e[1], e[2]))
        if e[0] == "unreachable_reached":
            probs.append("[panic] unreachable!() reached in %s" % (e[1],))
        if e[0] == "switch" and (e[1], e[2]) == ("Mark", "Sweep"):
            prev = [x for x in ev[:i] if x[0] in ("mark_step", "sweep_step", "switch")]
            if not prev or prev[-1][0] != "mark_step" or prev[-1][1] != "Break":
                probs.append("[safety] sweeping begins although the last marking step did not report completion")
        if e[0] == "switch" and (e[1], e[2]) == ("Sweep", "Sleep"):
            prev = [x for x in ev[:i] if x[0] in ("mark_step", "sweep_step", "switch")]
            if not prev or prev[-1][0] != "sweep_step" or prev[-1][1] != "Break":
                probs.append("[cycle] cycle ends although the last sweep step did not report an empty cursor")
    # O8: a finished cycle leaves the root flagged for the next one
    if o["switches"] and o["switches"][-1] == ("Sweep", "Sleep") and o["pending"] != 1:
        probs.append("[safety] cycle finished without re-flagging the root: the next cycle would mark nothing")
    # O5: the sweep cursor is the list head at the moment sweeping begins
    if o["switches"] and o["switches"][-1] == ("Mark", "Sweep") and not any(
            e[0] == "sweep_step" for e in ev[max(i for i, e in enumerate(ev) if e[0] == "switch"):]):
        if o["sweep"] != o["all"]:
            probs.append("[safety] sweep cursor (%s) is not the head of the all-list (%s) when sweeping begins" % (o["sweep"], o["all"]))
    # finish_cycle(reset_debt) receives exactly `an atomic full cycle was performed since a sleep`
    slept = False
    for e in ev:
        if e[0] == "switch" and (e[1], e[2]) == ("Sleep", "Mark"):
            slept = True
        if e[0] == "finish_cycle" and e[1] != (1 if slept else 0):
            probs.append("[pacing] finish_cycle(reset_debt=%s) but the call %s slept before this cycle" % (
                e[1], "has" if slept else "has not"))
    return probs


def per_method(method, entry, o):
    probs = []
    ph, pending, sweep, all_ = entry
    sw = o["switches"]
    ev = o["events"]
    steps = [e for e in ev if e[0] in ("mark_step", "sweep_step")]
    if method in ("mark_debt", "finish_marking"):
        if ("Mark", "Sweep") in sw:
            probs.append("[walk] %s passed from marking into sweeping" % method)
        if ph == "Sweep":
            if sw or steps:
                probs.append("[walk] %s did work while Sweeping (switches %s, %d step(s))" % (method, sw, len(steps)))
        if ph == "Mark" and pending == 0:
            if sw or o["phase"] != "Mark" or o["pending"] != 0:
                probs.append("[walk] %s left Marked" % method)
        if o["kind"] == "return":
            marked = o["phase"] == "Mark" and o["pending"] == 0
            if (o["ret"] == "Some") != marked:
                # Some while not fully marked is unsound finalization (C07, C08); None while Marked only breaks the
                # "exactly when" of the phase protocol (C08)
                probs.append("[%s] returned %s but the arena ends %s" % ("handout" if o["ret"] == "Some" else "handout-missing",
                                                                         o["ret"], "Marked" if marked else "not Marked"))
            if method == "finish_marking" and (o["ret"] == "Some") != (ph != "Sweep"):
                probs.append("[walk] finish_marking returned %s from entry phase %s" % (o["ret"], ph))
    if method in ("cycle_debt", "finish_cycle"):
        for i in range(len(sw) - 1):
            if sw[i] == ("Sweep", "Sleep") and sw[i + 1] == ("Sleep", "Mark"):
                probs.append("[walk] %s passed from Sweeping into a new Marking within one call" % method)
        if sw.count(("Sweep", "Sleep")) > 1:
            probs.append("[walk] %s finished two cycles in one call" % method)
        if method == "finish_cycle" and o["kind"] == "return":
            if o["phase"] != "Sleep":
                probs.append("[cycle] finish_cycle returned in phase %s" % o["phase"])
            if ph == "Sleep" and list(sw) != [("Sleep", "Mark"), ("Mark", "Sweep"), ("Sweep", "Sleep")]:
                probs.append("[cycle] finish_cycle from Sleeping did not perform exactly one whole cycle: %s" % (sw,))
            if ph != "Sleep" and ("Sleep", "Mark") in sw:
                probs.append("[walk] finish_cycle from mid-cycle started a new cycle")
    if method == "start_sweeping" and o["kind"] == "return":
        if o["phase"] != "Sweep" or list(sw) != [("Mark", "Sweep")]:
            probs.append("[handout] start_sweeping ended in %s via %s" % (o["phase"], sw))
        if any(e[0] == "sweep_step" for e in ev):
            probs.append("[walk] start_sweeping performed a sweep step")
    if method == "collect_debt":
        if sw.count(("Sleep", "Mark")) > 1:
            probs.append("[walk] collect_debt woke twice in one call")
    return probs


def pacing_structure(method, entry, o):
    """C09 structural clauses for RunUntil::PayDebt calls."""
    probs = []
    if method not in PAYDEBT:
        return probs
    ev = o["events"]
    debts = [e for e in ev if e[0] == "debt"]
    work = [e for e in ev if e[0] in ("mark_step", "sweep_step", "switch")]
    if not debts:
        probs.append("[pacing] debt never consulted by a debt-driven call")
        return probs
    first_debt_idx = ev.index(debts[0])
    if any(ev.index(w) < first_debt_idx for w in work):
        probs.append("[pacing] work or a phase switch happens before the debt is first consulted (the collector "
                     "wakes / makes progress with zero debt)")
    if debts[0][1] == "zero" and work:
        probs.append("[pacing] zero debt on entry but the call made progress: %s" % (work[:3],))
    # re-check after every unit of work
    last_step = None
    for i, e in enumerate(ev):
        if e[0] in ("mark_step", "sweep_step") and e[1] == "Continue":
            if last_step is not None and not any(x[0] == "debt" for x in ev[last_step + 1:i]):
                probs.append("[pacing] two units of work without re-checking the debt in between")
            last_step = i
    if o["kind"] == "return":
        at_stop = False
        if method == "mark_debt":
            at_stop = (o["phase"] == "Mark" and o["pending"] == 0) or entry[0] == "Sweep"
        if method == "cycle_debt":
            at_stop = o["phase"] == "Sleep" and ("Sweep", "Sleep") in o["switches"]
        if method == "collect_debt":
            at_stop = o["phase"] == "Sleep" and ("Sleep", "Mark") in o["switches"] and ("Sweep", "Sleep") in o["switches"]
        if not at_stop and debts[-1][1] != "zero":
            probs.append("[pacing] returned in phase %s (pending=%s) with positive debt and not at the method's stop "
                         "condition" % (o["phase"], o["pending"]))
        # "with all work factors zero a debt-driven call does not return until the collector is Sleeping again": under
        # zero factors collection work pays nothing, so the debt test can only turn false through the one input of
        # the debt that work changes without a factor - the empty-arena shortcut (debt is zero for an arena holding no
        # allocation, C10's clause): the sweep step that frees the last allocation. That step also exhausts the cursor,
        # so the call must not yield on the debt test between the last sweep step and the (free) roll-over to Sleep.
        if method in ("collect_debt", "cycle_debt") and o["phase"] == "Sweep" and o["sweep"] is None and \
                any(e[0] == "sweep_step" and e[1] == "Continue" for e in ev):
            probs.append("[stw] the call swept the last object and then yielded on the debt test in phase Sweep with an "
                         "exhausted cursor, one free step short of the roll-over: when that sweep freed the arena's last "
                         "allocation the debt reads zero (empty-arena shortcut) and a stop-the-world call returns in "
                         "Sweeping, the sleep after a full collection is skipped")
    return probs
