"""Transition tables of the collector primitives, extracted by running the abstract interpreter on
the current MIR from every abstract pre-state (DESIGN.md §3.3). Pure extraction: no spec here."""
import itertools

from gcv import gcmodel, interp
from gcv.gcmodel import obj, some, none, OPT
from gcv.interp import TOP, UNIT, adt, ref

THOROUGH = False
COL = ["W", "WW", "G", "B"]
PH = ["Sleep", "Mark", "Sweep"]


class Out:
    def __init__(self, m, o, ret_map=None):
        self.kind = o.kind
        self.ret = ret_map[o.value] if (ret_map and o.value in ret_map) else self._ret(m, o.value)
        self.post = m.snapshot(o.st)
        self.ev = list(o.ev)
        self.path = list(o.path)

    @staticmethod
    def _ret(m, v):
        if v is None:
            return None
        if v[0] == "i":
            return v[1]
        if v[0] == "adt":
            if v[1] == "core::ops::control_flow::ControlFlow":
                return ["Continue", "Break"][v[2]]
            if v[1] == OPT:
                return ("Some", Out._ret(m, v[3][0])) if v[2] == 1 else "None"
            if v[1] in ("()", "(tuple)") and not v[3]:
                return "()"
            a = m.ip.adt_info(v[1])
            if a and a["kind"] == "enum":
                return a["variants"][v[2]]["name"]
            if v[1] == "gc::Gc":
                return Out._ret(m, v[3][0])
            if v[1] == "core::result::Result":
                return (["Ok", "Err"][v[2]], Out._ret(m, v[3][0]) if v[3] else None)
        if v[0] == "obj":
            return ("obj", v[1])
        return v[0]

    def metrics(self):
        return [(e[1], e[2]) for e in self.ev if e[0] == "metric"]

    def has(self, name):
        return any(e[0] == name for e in self.ev)

    def events(self, *names):
        return [e for e in self.ev if e[0] in names]

    def panics(self):
        return [e for e in self.ev if e[0] == "panic"]

    def brief(self):
        return {"kind": self.kind, "ret": self.ret,
                "objs": {i: (o["colour"], o["live"], o["nt"]) for i, o in self.post["objs"].items()},
                "gray": self.post["gray"], "gray_again": self.post["gray_again"],
                "metrics": self.metrics()}


class Row:
    def __init__(self, prim, pre, outs, err=None):
        self.prim = prim
        self.pre = pre
        self.outs = outs
        self.err = err

    def key(self):
        return "%s%s" % (self.prim, _fmt(self.pre))


def _fmt(pre):
    return "(" + ",".join("%s=%s" % (k, pre[k]) for k in sorted(pre)) + ")"


GC = "gc::Gc"
GCW = "gc_weak::GcWeak"


def gc(i):
    return adt(GC, 0, (obj(i), UNIT))


def gcw(i):
    return adt(GCW, 0, (gc(i),))


class Tables:
    def __init__(self, prog, allow_panic=True):
        self.prog = prog
        self.m = gcmodel.GcModel(prog, allow_panic=allow_panic)
        self.cache = {}
        self.errors = []

    def run(self, prim, name, args, pre, **state):
        st = self.m.mk_state(**state)
        st.mem[("root",)] = ("sym", "rootval")
        st.mem[("selfref",)] = self.m.ctx_ref()
        init = self.m.snapshot(st)
        try:
            raw = self.m.run(name, args, st)
            # 'loop' outcomes are paths cut where they re-enter an already explored state (their continuation is
            # covered by the path that first reached it): not terminal outcomes
            rm = self.m.step_ret_map(prim) if prim in ("mark_one", "sweep_one") else None
            outs = [Out(self.m, o, rm) for o in raw if o.kind != "loop"]
            r = Row(prim, pre, outs)
            r.loops = sum(1 for o in raw if o.kind == "loop")
            r.init = init
            return r
        except (interp.Unmodelled, interp.InterpError, KeyError, IndexError, TypeError) as e:
            r = Row(prim, pre, [], err="%s: %s" % (type(e).__name__, e))
            r.init = init
            self.errors.append(r)
            return r

    def cx(self):
        return self.m.ctx_ref()

    def get(self, name):
        if name not in self.cache:
            self.cache[name] = list(getattr(self, "t_" + name)())
        return self.cache[name]

    # ------------------------------------------------------------------ single-object primitives
    def _single(self, prim, fn, phases=PH + ["Drop"]):
        for ph, c, live, nt in itertools.product(phases, COL, (0, 1), (0, 1)):
            pre = {"phase": ph, "colour": c, "live": live, "nt": nt}
            yield self.run(prim, fn, [self.cx(), obj(1)], pre, phase=ph,
                           objs={1: {"colour": c, "live": live, "nt": nt}})

    def _single_v(self, prim, fn, mk, phases=PH + ["Drop"]):
        for ph, c, live, nt in itertools.product(phases, COL, (0, 1), (0, 1)):
            pre = {"phase": ph, "colour": c, "live": live, "nt": nt}
            yield self.run(prim, fn, [self.cx(), mk(1)], pre, phase=ph,
                           objs={1: {"colour": c, "live": live, "nt": nt}})

    def _trace_entry(self, method):
        """The collector's `impl Trace` is found by its shape (implementor = the context or a reference to it), not
        by a fixed path, so that moving the impl from `Context` to `&Context` does not lose the tables."""
        ti = self.prog.collector_trace_impl()
        if ti is None:
            return "<context::Context as collect::Trace>::" + method, False
        return ti[method], ti["by_ref"]

    def _single_trace(self, prim, method, mk, phases=PH + ["Drop"]):
        fn, by_ref = self._trace_entry(method)
        for ph, c, live, nt in itertools.product(phases, COL, (0, 1), (0, 1)):
            pre = {"phase": ph, "colour": c, "live": live, "nt": nt}
            # `&mut self` where Self = &Context: a reference to a place holding the context reference
            self_arg = ref(("selfref",), ()) if by_ref else self.cx()
            yield self.run(prim, fn, [self_arg, mk(1)], pre, phase=ph,
                           objs={1: {"colour": c, "live": live, "nt": nt}})

    def t_trace(self):
        # through the collector's `impl Trace` (what user Collect impls call): trace_gc -> strong marking
        return self._single_trace("trace", "trace_gc", gc)

    def t_trace_weak(self):
        return self._single_trace("trace_weak", "trace_gc_weak", gcw)

    def t_upgrade(self):
        return self._single("upgrade", "context::Context::upgrade")

    def _single_rev(self, prim, fn, mk, phases=PH):
        # functions taking (value, &context)
        for ph, c, live, nt in itertools.product(phases, COL, (0, 1), (0, 1)):
            pre = {"phase": ph, "colour": c, "live": live, "nt": nt}
            yield self.run(prim, fn, [mk(1), self.cx()], pre, phase=ph,
                           objs={1: {"colour": c, "live": live, "nt": nt}})

    def t_weak_upgrade(self):
        return self._single_rev("weak_upgrade", "gc_weak::GcWeak::upgrade", gcw)

    def t_weak_is_dropped(self):
        for ph, c, live, nt in itertools.product(PH, COL, (0, 1), (0, 1)):
            pre = {"phase": ph, "colour": c, "live": live, "nt": nt}
            yield self.run("weak_is_dropped", "gc_weak::GcWeak::is_dropped", [gcw(1)], pre, phase=ph,
                           objs={1: {"colour": c, "live": live, "nt": nt}})

    def t_weak_is_dead(self):
        return self._single_rev("weak_is_dead", "gc_weak::GcWeak::is_dead", gcw)

    def t_gc_is_dead(self):
        return self._single_v("gc_is_dead", "gc::Gc::is_dead", gc, phases=PH)

    def t_weak_resurrect(self):
        return self._single_rev("weak_resurrect", "gc_weak::GcWeak::resurrect", gcw)

    def t_resurrect(self):
        # through Gc::resurrect(fc, gc)
        return self._single_v("resurrect", "gc::Gc::resurrect", gc)

    def t_make_gray_again(self):
        return self._single("make_gray_again", "context::Context::make_gray_again")

    # ------------------------------------------------------------------ barriers
    def _child_cases(self):
        # (label, child object spec or None, alias?)
        for c in COL:
            for live in (0, 1):
                yield ("other:%s:%d" % (c, live), {"colour": c, "live": live, "nt": 1})
                # a child whose type holds no pointers still has to be marked (seed C14-c skipped the barrier for it)
                yield ("other:%s:%d:leaf" % (c, live), {"colour": c, "live": live, "nt": 0})

    def t_backward_barrier(self):
        for ph, pc, pnt in itertools.product(PH, COL, (0, 1)):
            base = {"phase": ph, "P": pc, "Pnt": pnt}
            pre = dict(base, child="None")
            yield self.run("backward_barrier", "context::Mutation::backward_barrier",
                           [self.cx(), gc(1), none()], pre, phase=ph, objs={1: {"colour": pc, "nt": pnt}})
            pre = dict(base, child="alias")
            yield self.run("backward_barrier", "context::Mutation::backward_barrier",
                           [self.cx(), gc(1), some(gc(1))], pre, phase=ph, objs={1: {"colour": pc, "nt": pnt}})
            for lab, spec in self._child_cases():
                pre = dict(base, child=lab)
                yield self.run("backward_barrier", "context::Mutation::backward_barrier",
                               [self.cx(), gc(1), some(gc(2))], pre, phase=ph,
                               objs={1: {"colour": pc, "nt": pnt}, 2: spec})

    def t_backward_barrier_weak(self):
        for ph, pc, pnt in itertools.product(PH, COL, (0, 1)):
            base = {"phase": ph, "P": pc, "Pnt": pnt}
            pre = dict(base, child="alias")
            yield self.run("backward_barrier_weak", "context::Mutation::backward_barrier_weak",
                           [self.cx(), gc(1), gcw(1)], pre, phase=ph, objs={1: {"colour": pc, "nt": pnt}})
            for lab, spec in self._child_cases():
                pre = dict(base, child=lab)
                yield self.run("backward_barrier_weak", "context::Mutation::backward_barrier_weak",
                               [self.cx(), gc(1), gcw(2)], pre, phase=ph,
                               objs={1: {"colour": pc, "nt": pnt}, 2: spec})

    def _forward(self, prim, fn, weak=False):
        mk = gcw if weak else gc
        for ph, cc, cnt, clive in itertools.product(PH, COL, (0, 1), (0, 1)):
            base = {"phase": ph, "C": cc, "Cnt": cnt, "Clive": clive}
            child = {"colour": cc, "nt": cnt, "live": clive}
            pre = dict(base, parent="None")
            yield self.run(prim, fn, [self.cx(), none(), mk(2)], pre, phase=ph, objs={2: child})
            pre = dict(base, parent="alias")
            yield self.run(prim, fn, [self.cx(), some(gc(2)), mk(2)], pre, phase=ph, objs={2: child})
            for pc in COL:
                pre = dict(base, parent=pc)
                yield self.run(prim, fn, [self.cx(), some(gc(1)), mk(2)], pre, phase=ph,
                               objs={1: {"colour": pc, "nt": 1}, 2: child})

    def t_forward_barrier(self):
        return self._forward("forward_barrier", "context::Mutation::forward_barrier")

    def t_forward_barrier_weak(self):
        return self._forward("forward_barrier_weak", "context::Mutation::forward_barrier_weak", weak=True)

    def t_root_barrier(self):
        for ph in PH:
            for flag in (0, 1):
                pre = {"phase": ph, "flag": flag}
                yield self.run("root_barrier", "context::Context::root_barrier", [self.cx()], pre, phase=ph,
                               root_needs_trace=bool(flag))

    def t_gray_remaining(self):
        for g, ga, flag in itertools.product((0, 1), (0, 1), (0, 1)):
            pre = {"gray": g, "gray_again": ga, "flag": flag}
            yield self.run("gray_remaining", "context::Context::gray_remaining", [self.cx()], pre, phase="Mark",
                           root_needs_trace=bool(flag), gray=(1,) if g else (), gray_again=(2,) if ga else (),
                           objs={1: {"colour": "G"}, 2: {"colour": "G"}})

    def t_phase(self):
        for ph in PH + ["Drop"]:
            yield self.run("phase", "context::Context::phase", [self.cx()], {"phase": ph}, phase=ph)

    # ------------------------------------------------------------------ collector steps
    def t_mark_one(self):
        rootref = ref(("root",), ())
        for g, ga, flag in itertools.product((0, 1, 2, 3) if THOROUGH else (0, 1, 2), (0, 1), (0, 1)):
            for nt, live in itertools.product((0, 1), (1,)):
                pre = {"gray": g, "gray_again": ga, "flag": flag, "nt": nt}
                gray = tuple(range(1, g + 1))
                gagain = (5,) if ga else ()
                objs = {i: {"colour": "G", "nt": nt, "live": live} for i in gray}
                if ga:
                    objs[5] = {"colour": "G", "nt": nt, "live": live}
                yield self.run("mark_one", "context::Context::mark_one", [self.cx(), rootref], pre, phase="Mark",
                               root_needs_trace=bool(flag), gray=gray, gray_again=gagain, objs=objs)

    def t_sweep_one(self):
        # cursor None
        for prev in (None, 9):
            pre = {"cursor": "None", "prev": "None" if prev is None else "some"}
            objs = {9: {"colour": "W", "next": None}} if prev else {}
            yield self.run("sweep_one", "context::Context::sweep_one", [self.cx()], pre, phase="Sweep", sweep=None,
                           sweep_prev=prev, all_=prev, objs=objs)
        for c, live, prev, nxt in itertools.product(COL, (0, 1), (None, 9), (None, 2)):
            pre = {"cursor": c, "live": live, "prev": "None" if prev is None else "some",
                   "next": "None" if nxt is None else "some"}
            objs = {1: {"colour": c, "live": live, "nt": 1, "next": nxt}}
            if nxt:
                objs[2] = {"colour": "B", "next": None}
            if prev:
                objs[9] = {"colour": "W", "next": 1}
            # objects allocated during this sweep sit in front: 8 -> (9 ->) 1
            yield self.run("sweep_one", "context::Context::sweep_one", [self.cx()], pre, phase="Sweep", sweep=1,
                           sweep_prev=prev, all_=(prev if prev else 1), objs=objs)

    def t_link(self):
        for ph, prev, head in itertools.product(PH, (None, 9), (None, 3)):
            pre = {"phase": ph, "prev": "None" if prev is None else "some", "all": "None" if head is None else "some"}
            objs = {1: {"colour": "W", "live": 1, "nt": 1, "next": None}}
            if head:
                objs[3] = {"colour": "B", "next": None}
            if prev:
                objs[9] = {"colour": "W", "next": head}
            yield self.run("link", "context::Context::link", [self.cx(), obj(1)], pre, phase=ph,
                           sweep_prev=prev, all_=(prev if prev else head), sweep=head, objs=objs)

    def t_drop_all(self):
        """Drop for Context over short lists: every (colour, live) per node, lists of length 0..2
        (the loop body is uniform: longer lists add no new abstract case), from every phase."""
        for ph in PH:
            shapes = [()]
            nodes = [(c, live) for c in COL for live in (0, 1)]
            shapes += [(n,) for n in nodes]
            shapes += [(a, b) for a in nodes for b in [("W", 1), ("WW", 0), ("B", 1)]]
            if THOROUGH:
                small = [("W", 1), ("WW", 1), ("WW", 0), ("B", 1), ("W", 0)]
                shapes += [(a, b, c) for a in small for b in small for c in small]
                tiny = [("W", 1), ("WW", 0), ("B", 1)]
                shapes += [(a, b, c, d) for a in tiny for b in tiny for c in tiny for d in tiny]
            for sh in shapes:
                objs = {}
                for i, (c, live) in enumerate(sh):
                    objs[i + 1] = {"colour": c, "live": live, "nt": 1,
                                   "next": (i + 2) if i + 1 < len(sh) else None}
                pre = {"phase": ph, "list": "-".join("%s%d" % n for n in sh) or "empty"}
                yield self.run("drop_all", "<context::Context as core::ops::drop::Drop>::drop",
                               [self.cx()], pre, phase=ph, all_=(1 if sh else None),
                               sweep=(2 if len(sh) > 1 else None), objs=objs)

    # ------------------------------------------------------------------ sanctioned adoption paths (C06)
    def _seed_key(self, norm_name, raw_contains=None):
        ks = self.prog.seed_n.get(norm_name, [])
        for k in ks:
            raw = self.prog.bodies[k]["def"]
            if raw_contains is None or raw_contains in raw:
                return k
        return None

    ADOPT = [
        # (label, normalised fn, raw-path discriminator, argument builder name, returns-write-access?)
        ("Gc::write", "gc::Gc::write", None, "mc_gc", True),
        ("Gc::unlock", "gc::Gc::unlock", None, "gc_mc", True),
        ("Gc<Lock>::set", "lock::<impl gc::Gc>::set", "lock::Lock<T>", "gc_mc_v", False),
        ("Gc<RefLock>::borrow_mut", "lock::<impl gc::Gc>::borrow_mut", None, "gc_mc", True),
        ("Gc<RefLock>::try_borrow_mut", "lock::<impl gc::Gc>::try_borrow_mut", None, "gc_mc", True),
        ("Gc<OnceLock>::set", "lock::<impl gc::Gc>::set", "lock::OnceLock<T>", "gc_mc_v", False),
        ("Gc<OnceLock>::get_or_init", "lock::<impl gc::Gc>::get_or_init", None, "gc_mc_clo", False),
    ]

    def t_adopt(self):
        self.m.ip.lenient_std = True

        def slot_add(ip, st, args, info):
            try:
                oid = gcmodel._obj_of(ip, st, args[1])
            except interp.InterpError:
                oid = "?"
            st.event("cell_store", "Slots::add", oid)
            return [(st, "ret", TOP)]
        self.m.ip.prims["dynamic_roots::Slots::add"] = slot_add
        try:
            for (label, fn, disc, argk, ret_write) in self.ADOPT:
                key = self._seed_key(fn, disc)
                for ph, pc, pnt in itertools.product(PH, COL, (0, 1)):
                    pre = {"path": label, "phase": ph, "P": pc, "Pnt": pnt}
                    if key is None:
                        r = Row("adopt", pre, [], err="anchor %s not found" % fn)
                        r.init = {}
                        self.errors.append(r)
                        yield r
                        continue
                    if argk == "mc_gc":
                        args = [self.cx(), gc(1)]
                    elif argk == "gc_mc":
                        args = [gc(1), self.cx()]
                    elif argk == "gc_mc_v":
                        args = [gc(1), self.cx(), TOP]
                    else:
                        args = [gc(1), self.cx(), adt("closure:<user>", 0, ())]
                    r = self.run_key("adopt", key, args, pre, phase=ph, objs={1: {"colour": pc, "nt": pnt}})
                    r.ret_write = ret_write
                    yield r
            # adoption paths nobody listed: every other safe function of lock.rs that mutates the wrapped cell of a
            # Gc'd lock behind a barrier of its own (a new setter, a swap) is interpreted the same way, with its
            # arguments built from its signature - each Gc argument an object of every colour, since each of them may
            # come to hold what the other held
            for (label, key, kinds) in self.discovered_adopt():
                others = [(c_, n_) for c_ in COL for n_ in (1, 0)] if kinds.count("gc") > 1 else [None]
                for ph, pc, pnt, oth in itertools.product(PH, COL, (0, 1), others):
                    pre = {"path": label, "phase": ph, "P": pc, "Pnt": pnt, "discovered": 1}
                    objs = {1: {"colour": pc, "nt": pnt}}
                    if oth:
                        pre["O"], pre["Ont"] = oth
                        objs[2] = {"colour": oth[0], "nt": oth[1]}
                    args, k = [], 0
                    for kd in kinds:
                        if kd == "gc":
                            k += 1
                            args.append(gc(min(k, 2)))
                        elif kd == "mc":
                            args.append(self.cx())
                        elif kd == "closure":
                            args.append(adt("closure:<user>", 0, ()))
                        else:
                            args.append(TOP)
                    r = self.run_key("adopt", key, args, pre, phase=ph, objs=objs)
                    r.ret_write = False
                    yield r
            # DynamicRootSet::stash(&self, mc, root)
            key = self._seed_key("dynamic_roots::DynamicRootSet::stash")
            for ph, pc, cc, cnt in itertools.product(PH, COL, COL, (1, 0)):
                pre = {"path": "DynamicRootSet::stash", "phase": ph, "P": pc, "Pnt": 1, "C": cc}
                if cnt == 0:
                    pre["Cnt"] = 0      # a stashed object whose type holds no pointers must be marked all the same
                if key is None:
                    r = Row("adopt", pre, [], err="anchor stash not found")
                    r.init = {}
                    self.errors.append(r)
                    yield r
                    continue
                st_extra = {("set",): adt("dynamic_roots::DynamicRootSet", 0, (gc(1),))}
                r = self.run_key("adopt", key, [ref(("set",), ()), self.cx(), gc(2)], pre, phase=ph,
                                 objs={1: {"colour": pc, "nt": 1}, 2: {"colour": cc, "nt": cnt}}, mem=st_extra)
                r.ret_write = False
                yield r
        finally:
            self.m.ip.lenient_std = False
            del self.m.ip.prims["dynamic_roots::Slots::add"]

    def discovered_adopt(self):
        """[(label, body key, argument kinds)]: safe functions of lock.rs taking a Gc by value that mutate the wrapped cell
        through a shared reference and are none of the tabled setters (found the way C13's R13.5 finds lock mutators)."""
        from gcv.props import C13 as c13
        prog = self.prog
        prog.edges()
        tabled = {a[1] for a in self.ADOPT}
        out = []
        for f in prog.f["fns"]:
            if f["kind"] not in ("Fn", "AssocFn") or not f["span"]["f"].endswith("lock.rs") or f.get("unsafe") or f["n"] in tabled:
                continue
            ins = f.get("inputs") or []
            if not ins:
                continue
            t0 = prog.ty(ins[0]["ty"])
            if not (t0.get("k") == "adt" and t0.get("def") == "gc::Gc"):
                continue

            def is_mut(c):
                if c in c13.CELL_MUTATORS:
                    return True
                return bool(c) and c.startswith(("core::cell::Cell::", "core::cell::RefCell::", "core::cell::once::OnceCell::")) \
                    and c not in c13.CELL_READERS
            reach = prog.reachable_from([f["n"]])
            if not any(is_mut(c) for c in reach if c):
                continue
            kinds = []
            for i in ins:
                t = prog.ty(i["ty"])
                if t.get("k") == "adt" and t.get("def") == "gc::Gc":
                    kinds.append("gc")
                elif t.get("k") == "ref" and prog.ty(t["ty"]).get("def") == "context::Mutation":
                    kinds.append("mc")
                elif t.get("k") == "param" and any(p["s"].startswith(t["s"] + ": Fn") for p in f.get("predicates", [])):
                    kinds.append("closure")
                else:
                    kinds.append("val")
            for key in prog.seed_n.get(f["n"], []):
                if prog.bodies[key]["def"] == f["path"]:
                    out.append(("%s (not a tabled setter)" % f["path"], key, kinds))
                    break
        return out

    def run_key(self, prim, key, args, pre, mem=None, **state):
        st = self.m.mk_state(**state)
        st.mem[("root",)] = ("sym", "rootval")
        for a, v in (mem or {}).items():
            st.mem[a] = v
        init = self.m.snapshot(st)
        try:
            raw = self.m.ip.run(key, args, st)
            outs = [Out(self.m, o) for o in raw if o.kind != "loop"]
            r = Row(prim, pre, outs)
            r.loops = sum(1 for o in raw if o.kind == "loop")
        except (interp.Unmodelled, interp.InterpError, KeyError, IndexError, TypeError) as e:
            r = Row(prim, pre, [], err="%s: %s" % (type(e).__name__, e))
            self.errors.append(r)
        r.init = init
        return r

    ROOT_PATHS = [("Arena::mutate_root", "arena::Arena::mutate_root", "ref"),
                  ("Arena::map_root", "arena::Arena::map_root", "val"),
                  ("Arena::try_map_root", "arena::Arena::try_map_root", "val"),
                  ("Arena::mutate", "arena::Arena::mutate", "ref"),
                  ("MarkedArena::finalize", "arena::MarkedArena::finalize", "marked")]

    def t_root_paths(self):
        self.m.ip.lenient_std = True
        try:
            for (label, fn, selfk) in self.ROOT_PATHS:
                key = self._seed_key(fn)
                for ph, flag in itertools.product(PH, (0, 1)):
                    # a MarkedArena exists only for a fully marked arena (the protocol rows of mark_debt /
                    # finish_marking establish exactly that) and keeps it exclusively borrowed until it is consumed:
                    # its methods are entered in (Mark, root traced, nothing gray) and in no other state
                    if selfk == "marked" and (ph, flag) != ("Mark", 0):
                        continue
                    pre = {"path": label, "phase": ph, "flag": flag}
                    if key is None:
                        r = Row("root_paths", pre, [], err="anchor %s not found" % fn)
                        r.init = {}
                        self.errors.append(r)
                        yield r
                        continue
                    arena = gcmodel.arena_value(self.prog)
                    mem = {("arena",): arena}
                    if selfk == "ref":
                        a0 = ref(("arena",), ())
                    elif selfk == "val":
                        a0 = arena
                    else:
                        a0 = adt("arena::MarkedArena", 0, (ref(("arena",), ()),))
                    yield self.run_key("root_paths", key, [a0, adt("closure:<user>", 0, ())], pre, phase=ph,
                                       root_needs_trace=bool(flag), mem=mem)
        finally:
            self.m.ip.lenient_std = False
