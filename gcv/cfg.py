"""Per-body control-flow helpers over the MIR dump: successors (normal + unwind), forward
reachability, dominators."""


def succs(bb, unwind=True):
    t = bb["t"]
    if not t:
        return []
    k = t["k"]
    out = []
    if k == "goto":
        out.append(t["t"])
    elif k == "switch":
        out.extend(t["targets"])
        out.append(t["otherwise"])
    elif k in ("drop", "assert"):
        out.append(t["t"])
        if unwind and isinstance(t.get("u"), int):
            out.append(t["u"])
    elif k == "call":
        if t.get("t") is not None:
            out.append(t["t"])
        if unwind and isinstance(t.get("u"), int):
            out.append(t["u"])
    return out


def normal_succs(bb):
    return succs(bb, unwind=False)


def unwind_succ(bb):
    t = bb["t"]
    if t and isinstance(t.get("u"), int):
        return t["u"]
    return None


def reach_from(body, start_blocks, unwind=True, skip_first=False):
    """Blocks reachable from start_blocks (inclusive unless skip_first)."""
    seen = set()
    work = []
    for s in start_blocks:
        if skip_first:
            for n in succs(body["blocks"][s], unwind):
                if n not in seen:
                    seen.add(n)
                    work.append(n)
        elif s not in seen:
            seen.add(s)
            work.append(s)
    while work:
        b = work.pop()
        for n in succs(body["blocks"][b], unwind):
            if n not in seen:
                seen.add(n)
                work.append(n)
    return seen


def dominators(body, unwind=True):
    """Classic iterative dominator sets; entry = block 0. Returns list of sets."""
    n = len(body["blocks"])
    preds = [[] for _ in range(n)]
    for i, bb in enumerate(body["blocks"]):
        for s in succs(bb, unwind):
            preds[s].append(i)
    reach = reach_from(body, [0], unwind)
    allb = set(reach)
    dom = [set(allb) for _ in range(n)]
    dom[0] = {0}
    changed = True
    order = sorted(reach)
    while changed:
        changed = False
        for b in order:
            if b == 0:
                continue
            ps = [p for p in preds[b] if p in reach]
            if not ps:
                continue
            new = set.intersection(*[dom[p] for p in ps]) | {b}
            if new != dom[b]:
                dom[b] = new
                changed = True
    return dom


def return_blocks(body):
    return [i for i, bb in enumerate(body["blocks"]) if bb["t"] and bb["t"]["k"] == "return"]


def resume_blocks(body):
    return [i for i, bb in enumerate(body["blocks"]) if bb["t"] and bb["t"]["k"] == "resume"]


def must_pass_through(body, a_blocks, b_block, unwind=True):
    """Every path entry -> b_block contains a block of a_blocks (computed as: b unreachable from entry
    once a_blocks are removed)."""
    a = set(a_blocks)
    if b_block in a:
        return True
    if 0 in a:
        return True
    seen = {0}
    work = [0]
    while work:
        x = work.pop()
        if x == b_block:
            return False
        for n in succs(body["blocks"][x], unwind):
            if n in a or n in seen:
                continue
            seen.add(n)
            work.append(n)
    return True
