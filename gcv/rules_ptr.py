"""Pointer identity rules shared by C17 / C19: cast-only conversions (no arithmetic on the address),
conjuring lint over the public API, ZstCache guard on the ordering domain, aligned-type table."""
import re

from gcv import interp
from gcv.interp import Interp, State, TOP, UNIT, adt, ref, I
from gcv.model import norm

# conversions named by the properties (anchors, normalised def paths). Every function here, and every
# local function it calls whose result (or `&mut` argument) can carry the pointer, must be free of address
# arithmetic. Callees that return a scalar (bool, integer, unit) cannot influence the converted address.
CONVERSIONS = [
    "gc::Gc::as_ptr", "gc::Gc::from_ptr", "gc::Gc::from_ptr_with_kind", "gc::Gc::as_thin", "gc::Gc::as_fat",
    "gc::Gc::erase", "gc::Gc::erase_kind", "gc::Gc::cast", "gc::Gc::downgrade", "gc::Gc::as_thin_ptr",
    "gc::Gc::from_thin_ptr_with_kind", "gc::Gc::ptr_eq",
    "gc_weak::GcWeak::upgrade", "gc_weak::GcWeak::erase", "gc_weak::GcWeak::cast", "gc_weak::GcWeak::as_ptr",
    "gc_weak::GcWeak::from_ptr", "gc_weak::GcWeak::from_ptr_with_kind", "gc_weak::GcWeak::ptr_eq",
    "<gc::GcKind as gc::GcStore>::from_store", "<gc::GcKind as gc::GcStore>::to_store",
    "gc_ptr::GcPtr::fat_ptr", "gc_ptr::GcPtr::thin_ptr", "gc_ptr::GcPtr::erase", "gc_ptr::GcPtr::from_ptr",
    "gc_ptr::GcPtr::as_ptr", "gc_ptr::GcPtr::addr_eq", "gc_ptr::PtrProps::fat_ptr",
    "slice::SliceWithHeader::ptr_to_thin", "slice::SliceWithHeader::ptr_from_thin",
    "<gc::Gc as unsize::__CoercePtrInternal>::__coerce_unchecked",
    "<gc_weak::GcWeak as unsize::__CoercePtrInternal>::__coerce_unchecked",
    "dynamic_roots::DynamicRootSet::fetch", "dynamic_roots::DynamicRootSet::try_fetch",
    "gc::GcBuilder::unwrap_static", "gc::GcBuilder::into_raw", "gc::GcBuilder::from_raw", "gc::GcBuilder::as_ptr",
]
# functions that legitimately compute with the address, with one line of reason; a conversion may call
# them only for the stated purpose
ARITH_ALLOWED = {
    "gc_ptr::PtrProps::read_ptr_meta": "reads the per-value metadata stored in front of the header; returns the metadata, not an address",
    "gc_ptr::GcPtr::type_metadata": "reads the vtable through the header; returns &'static M, not the object's address",
    "gc_ptr::GcPtr::header": "header lives at value - size_of::<GcHeader>(); returns the header reference",
    "dynamic_roots::DynamicRootSet::contains": "address comparison of slot tables",
}
ARITH_CALLS = re.compile(r"^core::ptr::(const_ptr|mut_ptr|non_null)::.*::(add|sub|offset|byte_add|byte_sub|byte_offset|"
                         r"wrapping_add|wrapping_sub|wrapping_offset|wrapping_byte_add|wrapping_byte_sub|map_addr|with_addr|"
                         r"offset_from|byte_offset_from|align_offset)$|^core::ptr::(without_provenance|with_exposed_provenance|"
                         r"dangling|null)")
ARITH_CASTS = ("PointerExposeProvenance", "PointerWithExposedProvenance")
# unsafe constructors that turn a raw pointer into a Gc / GcWeak / GcPtr / builder: every local caller is a
# conversion, whether or not it is in the list above (a new helper is picked up automatically)
RAW_CONSTRUCTORS = ["gc::Gc::from_ptr", "gc::Gc::from_ptr_with_kind", "gc::Gc::from_thin_ptr_with_kind",
                    "gc_weak::GcWeak::from_ptr", "gc_weak::GcWeak::from_ptr_with_kind", "gc_ptr::GcPtr::from_ptr",
                    "gc::GcBuilder::from_raw"]
# assembling a fat pointer from an address and separately supplied metadata: allowed only where the metadata is
# the one stored with the allocation (the PtrMeta::from_thin implementors and their helper)
META_ASSEMBLY = re.compile(r"^core::ptr::(slice_from_raw_parts(_mut)?|from_raw_parts(_mut)?|metadata::from_raw_parts(_mut)?)$|"
                           r"^core::ptr::non_null::NonNull::(slice_from_raw_parts|from_raw_parts)$|"
                           r"^core::slice::(raw::)?from_raw_parts(_mut)?$|^core::str::(converts::)?from_raw_parts(_mut)?$")


def _meta_allowed(f):
    return bool(re.search(r" as meta::PtrMeta>::from_thin$", f)) or f == "slice::SliceWithHeader::ptr_from_thin"


def metadata_sites(prog, key):
    out = []
    for bb in prog.bodies[key]["blocks"]:
        t = bb["t"]
        if t and t["k"] == "call" and not t["f"].get("indirect") and not t.get("x"):
            n = norm((t["f"].get("resolved") or t["f"])["def"])
            if META_ASSEMBLY.search(n):
                out.append((n, t["l"]))
    return out


def _ptr_like(prog, tid):
    t = prog.ty(tid)
    return t.get("k") in ("ptr", "ref") or (t.get("k") == "adt" and t["def"] in (
        "core::ptr::non_null::NonNull", "gc_ptr::GcPtr", "gc::Gc", "gc_weak::GcWeak"))


SCALAR_KINDS = ("bool", "int", "uint", "float", "char", "never", "str")


def _carries_address(prog, tid, seen=None):
    """Can a value of this type carry the converted pointer? Scalars and tuples of scalars cannot; anything
    else (pointers, references, type parameters, ADTs, closures) is assumed to."""
    t = prog.ty(tid)
    k = t.get("k")
    if k in SCALAR_KINDS:
        return False
    if k == "tuple":
        return any(_carries_address(prog, e if isinstance(e, int) else e["ty"]) for e in t.get("elems", []))
    return True


def _may_return_or_write_address(prog, callee):
    """A callee can contribute to the converted pointer only through its return value or through a `&mut`
    argument. (A function that later builds a pointer from an integer it got back is flagged at that
    int-to-pointer site, in its own body.)"""
    fs = prog.fn_n.get(callee)
    if not fs:
        return True
    for f in fs:
        if "output" not in f or _carries_address(prog, f["output"]["ty"]):
            return True
        for a in f.get("inputs", []):
            t = prog.ty(a["ty"])
            if t.get("k") == "ref" and t.get("mut") and _carries_address(prog, t["ty"]):
                return True
            if t.get("k") == "ptr" and t.get("mut"):
                return True
    return False


def arithmetic_sites(prog, key):
    """Address computations in a body whose result can leave the function: flow into the return value, be stored
    through a pointer / reference, or be handed on to a callee that can return or store it. A computed address
    that is only the *destination* of a write or the source of a read (`p.add(i).write(x)`, `*p.add(i)`) does not
    become anybody's pointer and cannot change the identity of a converted one."""
    b = prog.bodies[key]
    out = []
    for bb in b["blocks"]:
        for s in bb["s"]:
            if s["k"] != "assign" or s.get("x"):
                continue
            r = s["r"]
            what = None
            if r["k"] == "binop" and r["op"].startswith("Offset"):
                what = "offset"
            if r["k"] == "cast" and r["ck"].startswith(ARITH_CASTS):
                what = r["ck"]
            if r["k"] == "cast" and r["ck"].startswith("Transmute") and _ptr_like(prog, r["ty"]) and \
                    prog.ty(r["from"]).get("k") in ("uint", "int"):
                what = "int->ptr transmute"
            if what and (s["p"]["p"] or _escapes(prog, b, s["p"]["l"])):
                out.append((what, s["l"]))
        t = bb["t"]
        if t and t["k"] == "call" and not t["f"].get("indirect") and not t.get("x"):
            n = norm((t["f"].get("resolved") or t["f"])["def"])
            if ARITH_CALLS.search(n) and (t["d"]["p"] or _escapes(prog, b, t["d"]["l"])):
                out.append((n, t["l"]))
    return out


# callees that consume a pointer as the place to write to / read from and do not hand it on (argument 0 only)
_DEREF_SINKS = re.compile(r"^core::ptr::(mut_ptr|const_ptr|non_null)::.*::(write|write_unaligned|write_volatile|write_bytes|read|"
                          r"read_unaligned|read_volatile|drop_in_place)$|"
                          r"^core::ptr::(write|read|write_unaligned|read_unaligned|drop_in_place|write_bytes)$|"
                          r"^core::mem::maybe_uninit::MaybeUninit::write$")


def _escapes(prog, b, local):
    """Forward taint from `local` over the body: does the value reach the return place, a store through a
    projection, or a call that may keep / return it?"""
    tainted = {local}
    changed = True
    while changed:
        changed = False
        for bb in b["blocks"]:
            for s in bb["s"]:
                if s["k"] != "assign":
                    continue
                r = s["r"]
                ops = []
                if "o" in r and isinstance(r["o"], dict):
                    ops.append(r["o"])
                for k in ("a", "b"):
                    if k in r and isinstance(r[k], dict):
                        ops.append(r[k])
                ops += [o for o in r.get("ops", []) if isinstance(o, dict)]
                src = [o["p"]["l"] for o in ops if o.get("k") in ("copy", "move")]
                if r["k"] in ("ref", "rawptr") and "p" in r:
                    src.append(r["p"]["l"])
                if not any(x in tainted for x in src):
                    continue
                if r["k"] == "binop" and not r["op"].startswith("Offset"):
                    # comparisons / integer arithmetic on addresses yield scalars, not pointers
                    if not _carries_address(prog, r["ty"]) if "ty" in r else True:
                        continue
                d = s["p"]
                if d["p"]:
                    # a store through a projection: into *p / (*p).f (escapes) or into a field of a local aggregate
                    if any(pp[0] == "d" for pp in d["p"]):
                        return True
                if d["l"] == 0:
                    return True
                if d["l"] not in tainted:
                    tainted.add(d["l"])
                    changed = True
            t = bb["t"]
            if not t:
                continue
            if t["k"] == "call":
                args = t.get("args", [])
                hit = [i for i, a in enumerate(args) if a.get("k") in ("copy", "move") and a["p"]["l"] in tainted]
                if not hit:
                    continue
                n = "<indirect>" if t["f"].get("indirect") else norm((t["f"].get("resolved") or t["f"])["def"])
                if _DEREF_SINKS.search(n) and hit == [0]:
                    continue
                d = t["d"]
                dty = _place_ty_simple(prog, b, d)
                if dty is not None and not _carries_address(prog, dty):
                    # the callee returns a scalar; it could still store the pointer through a &mut / raw argument
                    if t["f"].get("local") and _may_return_or_write_address(prog, n):
                        return True
                    continue
                if d["p"] and any(pp[0] == "d" for pp in d["p"]):
                    return True
                if d["l"] == 0:
                    return True
                if d["l"] not in tainted:
                    tainted.add(d["l"])
                    changed = True
    return False


def _place_ty_simple(prog, b, pl):
    if pl["p"]:
        return None
    try:
        return b["locals"][pl["l"]]
    except (IndexError, KeyError):
        return None


def cast_only(chk, prog, rule="cast-only-conversions", config="default"):
    prog.edges()
    n = 0
    dynamic = sorted({prog.fn_of_closure(e.caller) for rc in RAW_CONSTRUCTORS for e in prog.callers_of(rc)} - set(CONVERSIONS))
    for conv in CONVERSIONS + dynamic:
        keys = prog.seed_n.get(conv)
        if conv in dynamic:
            if not keys:
                continue
        elif not chk.anchor(conv, bool(keys), "(config %s)" % config):
            continue
        # closure over local callees (closures included), not descending into ARITH_ALLOWED
        seen = set()
        work = [conv]
        bad = []
        while work:
            f = work.pop()
            if f in seen:
                continue
            seen.add(f)
            for k in prog.seed_n.get(f, []):
                for (what, line) in arithmetic_sites(prog, k):
                    bad.append("%s in %s:%s" % (what, f, line))
                if not _meta_allowed(f):
                    for (what, line) in metadata_sites(prog, k):
                        bad.append("fat pointer assembled from an address and separately supplied metadata (%s) in %s:%s - "
                                   "the length / metadata of a converted pointer must be the one stored with the allocation" % (
                                       what.split("::")[-1], f, line))
            for e in prog.calls_from(f):
                if e.callee and e.callee in prog.seed_n and e.callee not in ARITH_ALLOWED and e.kind != "drop" \
                        and _may_return_or_write_address(prog, e.callee):
                    work.append(e.callee)
        n += 1
        chk.inst(rule, "%s[%s]" % (conv, config), not bad,
                 detail="conversion `%s` does not preserve the pointer's identity (%s): the converted pointer no longer has the "
                        "address / metadata of the original" % (conv, "; ".join(bad[:3])),
                 sample={"conversion": conv, "functions_scanned": sorted(seen)[:8]})
    chk.floor("conversions[%s]" % config, n, 20)
    # positive control: the scan must find the address computation in the reviewed helpers it does not descend
    # into (GcPtr::header subtracts the header size from the value address); if it finds none, it is blind
    found = False
    for f in ARITH_ALLOWED:
        seen, work = set(), [f]
        while work and not found:
            g = work.pop()
            if g in seen:
                continue
            seen.add(g)
            found = any(arithmetic_sites(prog, k) for k in prog.seed_n.get(g, []))
            for e in prog.calls_from(g):
                if e.callee and e.callee in prog.seed_n and e.kind != "drop":
                    work.append(e.callee)
    chk.control("cast-only-scan-sees-header-arithmetic[%s]" % config, found)
    # PtrMeta impls: to_thin / from_thin of every implementor
    m = 0
    for d in sorted(prog.seed_n):
        if re.search(r" as meta::PtrMeta>::(to_thin|from_thin)$", d):
            m += 1
            bad = []
            for k in prog.seed_n[d]:
                bad += ["%s:%s" % w for w in arithmetic_sites(prog, k)]
            chk.inst(rule, "%s[%s]" % (d, config), not bad,
                     detail="PtrMeta conversion `%s` performs address arithmetic: %s" % (d, bad[:3]))
    chk.floor("PtrMeta-conversions[%s]" % config, m, 5)


# ------------------------------------------------------------------------------------------------ conjuring lint

NON_CARRIERS = ("core::marker::PhantomData", "zst_cache::ZstCache", "gc::GcBuilder", "slice::GcSliceWithHeaderBuilder",
                "slice::GcSliceBuilder", "slice::GcStrBuilder", "context::Mutation", "context::Finalization",
                "zst_cache::Alignment")
# builder parameters a builder value provably carries (reviewed): its only safe constructor receives the value
BUILDER_CARRIES = {"slice::GcSliceWithHeaderSliceBuilder": {0: "H: the only safe constructor is write_header(H)"}}


def _params_in(prog, tid, carrier_only=False, seen=None):
    """Names of type parameters mentioned in a type (optionally only in value-carrying positions)."""
    out = set()
    stack = [tid]
    seen = set()
    while stack:
        t = stack.pop()
        if t in seen:
            continue
        seen.add(t)
        ty = prog.ty(t)
        k = ty.get("k")
        if k == "param":
            out.add(ty["name"])
        elif k == "adt":
            d = ty["def"]
            targs = [a["ty"] for a in ty.get("args", []) if "ty" in a]
            if carrier_only and d in BUILDER_CARRIES:
                for i, why in BUILDER_CARRIES[d].items():
                    if i < len(targs):
                        stack.append(targs[i])
                continue
            if carrier_only and d in NON_CARRIERS:
                continue
            stack.extend(targs)
        elif k in ("ref", "ptr", "slice", "array"):
            stack.append(ty["ty"])
        elif k == "tuple":
            stack.extend(ty["elems"])
        elif k == "alias":
            # projection like <R as Rootable<'gc>>::Root: mentions R
            for m in re.findall(r"<([A-Z][A-Za-z0-9_]*) as ", ty["s"]):
                out.add(m)
    return out


def _gc_payload_params(prog, tid):
    """Type parameters mentioned in X for every Gc<'gc, X, _> / GcWeak<'gc, X, _> inside the type."""
    out = set()
    stack = [tid]
    seen = set()
    while stack:
        t = stack.pop()
        if t in seen:
            continue
        seen.add(t)
        ty = prog.ty(t)
        k = ty.get("k")
        if k == "adt":
            targs = [a["ty"] for a in ty.get("args", []) if "ty" in a]
            if ty["def"] in ("gc::Gc", "gc_weak::GcWeak") and targs:
                out |= _params_in(prog, targs[0])
            else:
                stack.extend(targs)
        elif k in ("ref", "ptr", "slice", "array"):
            stack.append(ty["ty"])
        elif k == "tuple":
            stack.extend(ty["elems"])
    return out


def conjuring_lint(chk, prog, config="default"):
    n = 0
    flagged = 0
    for f in prog.f["fns"]:
        if f["kind"] not in ("Fn", "AssocFn") or f.get("unsafe"):
            continue
        if not (f.get("reachable") or f.get("exported")):
            continue
        want = _gc_payload_params(prog, f["output"]["ty"])
        if not want:
            continue
        n += 1
        have = set()
        for i in f.get("inputs", []):
            have |= _params_in(prog, i["ty"], carrier_only=True)
        # closures / impl-trait arguments returning the parameter
        for p in f.get("predicates", []):
            s = p["s"]
            if ("Fn" in s and "->" in s) or p["k"] == "projection":
                for w in want:
                    if re.search(r"(->|==)\s*[^,]*\b%s\b" % re.escape(w), s):
                        have.add(w)
        missing = sorted(want - have)
        # a Self-typed method on a trait impl for Gc (Deref etc.) receives self
        ok = not missing
        if not ok:
            flagged += 1
        chk.inst("conjuring-lint", "%s[%s]" % (f["n"], config), ok,
                 detail="safe public fn `%s` returns `%s` mentioning type parameter(s) %s without receiving any value of "
                        "that type: it conjures a Gc to a value the caller never constructed" % (f["n"], f["output"]["s"], missing),
                 loc="%s:%s" % (f["span"]["f"], f["span"]["l"]),
                 sample={"fn": f["n"], "returns": f["output"]["s"], "payload_params": sorted(want), "carried_by_args": sorted(have)})
    chk.floor("gc-returning-safe-fns[%s]" % config, n, 10)
    return flagged


# ------------------------------------------------------------------------------------------------ ZstCache guard

def zst_guard(chk, prog, config="default"):
    name = "zst_cache::ZstCache::alloc_zst"
    keys = prog.seed_n.get(name)
    if not chk.anchor(name, bool(keys)):
        return

    def size_of(ip, st, args, info):
        return [(st, "ret", ("sym", "size_of<T>"))]

    def align_of(ip, st, args, info):
        return [(st, "ret", ("sym", "align_of<T>"))]

    def opaque(ip, st, args, info):
        return [(st, "ret", TOP)]

    def cast(ip, st, args, info):
        st.event("cast_cached_ptr", args[0])
        return [(st, "ret", ("sym", "cast(cached_ptr)"))]

    ip = Interp(prog, prims={"core::mem::size_of": size_of, "core::mem::align_of": align_of,
                             "gc::Gc::as_ptr": opaque, "gc::Gc::cast": cast,
                             "core::ptr::const_ptr::<impl *const T>::align_offset": opaque}, strict=True)
    ip.lenient_std = True
    st = State()
    st.mem[("cache",)] = adt("zst_cache::ZstCache", 0, (("sym", "cached_ptr"),))
    try:
        outs = ip.run(keys[0], [ref(("cache",), ())], st)
    except (interp.Unmodelled, interp.InterpError) as e:
        chk.inst("zst-guard", name, False, detail="could not be analysed: %s" % e)
        return
    probs = []
    somes = 0
    for o in outs:
        if o.kind != "return" or o.value is None or o.value[0] != "adt":
            continue
        if o.value[2] == 1:
            somes += 1
            cons = {}
            for (a, b), rel in o.st.cons.items():
                cons[(_s(a), _s(b))] = rel
                # the same fact with the operands written the other way round
                cons[(_s(b), _s(a))] = frozenset(rel_.translate(str.maketrans("<>", "><")) for rel_ in rel)
            sz = cons.get(("size_of<T>", "0"))
            al = cons.get(("align_of<T>", "MAX_ALIGN"))
            if sz != frozenset("="):
                probs.append("returns the cached pointer on a path where size_of::<T>() is not known to be 0 (%s)" % (sorted(sz) if sz else None))
            if al is None or not al <= frozenset("<="):
                probs.append("returns the cached pointer on a path where align_of::<T>() <= MAX_ALIGN is not established (%s)" % (sorted(al) if al else None))
            if o.value[3][0] != ("sym", "cast(cached_ptr)"):
                probs.append("the Some(..) result is not the cached pointer")
    if not somes:
        probs.append("no path returns the cached pointer")
    chk.inst("zst-guard", "%s[%s]" % (name, config), not probs, detail="; ".join(sorted(set(probs))),
             sample={"fn": name, "paths": len(outs), "some_paths": somes})
    # alloc / alloc_static: cached pointer on Some, real allocation on None
    for fn, alloc in (("zst_cache::ZstCache::alloc", "gc::Gc::new"), ("zst_cache::ZstCache::alloc_static", "gc::Gc::new_static")):
        ks = prog.seed_n.get(fn)
        if not chk.anchor(fn, bool(ks)):
            continue
        for case in ("Some", "None"):
            def az(ip, st, args, info, case=case):
                if case == "Some":
                    return [(st, "ret", adt("core::option::Option", 1, (("sym", "cached"),)))]
                return [(st, "ret", adt("core::option::Option", 0, ()))]

            def real(ip, st, args, info):
                st.event("real_alloc")
                return [(st, "ret", ("sym", "fresh"))]
            ip2 = Interp(prog, prims={name: az, alloc: real}, strict=True)
            ip2.lenient_std = True
            st = State()
            st.mem[("cache",)] = adt("zst_cache::ZstCache", 0, (("sym", "cached_ptr"),))
            try:
                outs = ip2.run(ks[0], [ref(("cache",), ()), ("sym", "mc"), ("sym", "t")], st)
            except (interp.Unmodelled, interp.InterpError) as e:
                chk.inst("zst-fallback", "%s(%s)" % (fn, case), False, detail="could not be analysed: %s" % e)
                continue
            rets = {(o.value, any(e[0] == "real_alloc" for e in o.ev)) for o in outs if o.kind == "return"}
            want = {(("sym", "cached"), False)} if case == "Some" else {(("sym", "fresh"), True)}
            # (a value with drop glue is allocated for real even where the cache could serve its type: the shared
            # pointer has nowhere to keep it - fix 1f3a763; the needs_drop answer is opaque here, so both are seen)
            if case == "Some" and rets == {(("sym", "cached"), False), (("sym", "fresh"), True)}:
                rets = want
            chk.inst("zst-fallback", "%s(alloc_zst=%s)[%s]" % (fn, case, config), rets == want,
                     detail="%s with alloc_zst()=%s returns %s" % (fn, case, rets))


def _s(v):
    if v[0] == "sym":
        return v[1]
    if v[0] == "i":
        return str(v[1])
    return str(v)


def aligned_types(chk, prog, config="default"):
    n = 0
    for im in prog.impls:
        if im.get("trait") != "zst_cache::HasAlignedType":
            continue
        t = prog.ty(im["self"])
        args = t.get("args", [])
        want = args[0].get("usize") if args else None
        at = [it for it in im["items"] if it["kind"] == "AssocTy"]
        got = None
        if at and "ty" in at[0]:
            # the 30 anonymous-const ADTs share the printed path `zst_cache::_::AlignedType`: resolve by unique path
            a = prog.adts_u.get(prog.ty(at[0]["ty"]).get("udef", ""))
            got = a.get("repr_align") if a else None
        n += 1
        chk.inst("aligned-type-table", "%s[%s]" % (im["self_s"], config), want is not None and got == want,
                 detail="HasAlignedType for Alignment<%s> selects a type with repr(align(%s)): the cache's dummy "
                        "allocation is not aligned to MAX_ALIGN" % (want, got),
                 sample={"alignment": want, "repr_align_of_selected_type": got})
    chk.floor("aligned-type-impls[%s]" % config, n, 8)


# ------------------------------------------------------------------------------------------------ coercion sites

def coercion_site_is_raw_pointer(chk, prog, config="default"):
    """unsize! lets the *compiler* vouch for the conversion: the caller-visible closure `|p| -> $ty { p }` compiles only
    if `p` coerces to the target. That vouches for identity only at a raw-pointer coercion site, where the sole
    coercions are unsizing ones (same address, new metadata). At a reference site `&T -> &U` also compiles through
    `Deref` (String to str, Box<T> to T, Gc<T> to T): another address altogether, behind which the collector finds no
    header. Every function implementing `__coerce_unchecked` must therefore demand `FnOnce(*const T) -> *const U`."""
    import re as _re
    n = 0
    for name, fs in sorted(prog.fn_n.items()):
        if not name.endswith("::__coerce_unchecked"):
            continue
        for f in fs:
            preds = [p["s"] for p in f.get("predicates", [])]
            fn_bounds = [p for p in preds if _re.search(r"\bFn(Once|Mut)?\(", p)]
            outs = [p for p in preds if "Output ==" in p and "Fn" in p]
            if not fn_bounds:
                continue            # the trait declaration's own entry may carry no closure bound
            n += 1
            probs = []
            for p in fn_bounds:
                m = _re.search(r"\bFn(?:Once|Mut)?\((.*)\)\s*$", p)
                args = m.group(1) if m else ""
                if not _re.match(r"^\s*\*const\s", args):
                    probs.append("closure argument `%s` is not a raw pointer" % args)
            for p in outs:
                tgt = p.split("Output ==", 1)[1].strip()
                if not tgt.startswith("*const "):
                    probs.append("closure result `%s` is not a raw pointer" % tgt)
            if not outs:
                probs.append("no result type demanded of the coercion closure")
            chk.inst("coercion-site-is-raw-pointer", "%s[%s]" % (name, config), not probs,
                     detail="`%s`: %s - a reference coercion site also admits Deref coercions, which change the address" % (
                         name, "; ".join(probs)),
                     loc="%s:%s" % (f["span"]["f"], f["span"]["l"]), sample={"fn": name, "closure_bounds": fn_bounds + outs})
    chk.floor("coercion-functions[%s]" % config, n, 2)


# ------------------------------------------------------------------------------------------------ pointer provenance

# (the slice builder prefix is spelled in two pieces so that it does not read as an item path to facts.anchor_paths)
CARRIERS = ("gc::Gc<", "gc_weak::GcWeak<", "gc::GcBuilder<", "slice::" + "Gc", "dynamic_roots::DynamicRoot", "zst_cache::ZstCache<",
            "gc_ptr::GcPtr<", "context::Mutation", "context::Finalization")


def gc_made_only_from_carriers(chk, prog, config="default"):
    """A Gc / GcWeak is a pointer to a block with a collector header in front of it. In a *safe* exported function such a
    pointer may be assembled (struct literal, or any crate function that makes one out of a raw / GcPtr pointer) only
    from a pointer the function was given inside a value that already vouches for it - another Gc / GcWeak, a builder,
    a dynamic-root handle, the ZST cache - or obtained by allocating. Made from a plain `&T` / `*const T` argument it
    points at memory the collector never allocated: no header, no identity with any arena object."""
    from gcv import coverage
    ctors = set()
    for f in prog.f["fns"]:
        ins = f.get("inputs") or []
        out_s = (f.get("output") or {}).get("s", "")
        if ins and out_s.startswith(("gc::Gc<", "gc_weak::GcWeak<")) and \
                ins[0]["s"].startswith(("*const ", "*mut ", "gc_ptr::GcPtr<", "core::ptr::non_null::NonNull<")):
            ctors.add(f["n"])
    n = 0
    for f in prog.f["fns"]:
        if f["kind"] not in ("Fn", "AssocFn") or f.get("unsafe") or not (f.get("reachable") or f.get("exported")):
            continue
        for key in prog.seed_n.get(f["n"], []):
            body = prog.bodies[key]
            if body["def"] != f["path"]:
                continue
            defs = coverage._defs(body)
            argc = body.get("argc") or 0
            plain = set()
            for i in range(1, argc + 1):
                s_ = prog.ty(body["locals"][i]).get("s", "")
                t_ = prog.ty(body["locals"][i])
                if t_.get("k") in ("ref", "ptr") and not any(c in s_ for c in CARRIERS):
                    plain.add(i)
            if not plain:
                break
            sites = []
            for bi, bb in enumerate(body["blocks"]):
                if bb.get("c"):
                    continue
                for st in bb["s"]:
                    if st["k"] == "assign" and st["r"]["k"] == "agg" and st["r"]["ak"].get("def") in ("gc::Gc", "gc_weak::GcWeak"):
                        sites += [(st.get("l"), o, st["r"]["ak"]["def"]) for o in st["r"]["ops"]]
                t = bb["t"]
                if t and t["k"] == "call" and t["args"]:
                    r = t["f"].get("resolved")
                    name = norm(r["def"]) if r else norm(t["f"].get("def", ""))
                    if name in ctors:
                        sites.append((t.get("l"), t["args"][0], name))
            for (line, op, what) in sites:
                n += 1
                roots = {r0 for (r0, acc, fl) in coverage.chains_of(prog, body, defs, op)}
                bad = sorted(r0 for r0 in roots if r0 in plain)
                chk.inst("gc-made-only-from-carriers", "%s:%s[%s]" % (f["n"], what.split("::")[-1], config), not bad,
                         detail="safe `%s` makes a %s pointer (line %s) out of its plain reference / raw pointer argument(s) %s: "
                                "nothing vouches that the memory is a collector allocation with a header in front of it" % (
                                    f["n"], what, line, bad), loc="%s:%s" % (body["span"]["f"], line),
                         sample={"fn": f["n"], "pointer": what, "from_arguments": bad})
            break
    chk.extra.setdefault("gc_assembly_sites_in_safe_fns_with_plain_pointer_arguments", {})[config] = n


# ------------------------------------------------------------------------------------------------ thin prefix

def thin_prefix_exists(chk, prog, config="default"):
    """`Gc::as_thin_ref` hands safe code a `&'gc P::Thin` at the address of the value: every value of the pointee type,
    of every length, must begin with a valid `Thin`. For a sized `T` that is `T` itself; for a header-plus-slice the
    header (or nothing); for `[E]` and `str` - whose shortest value is empty - only a zero-sized `()`: with `Thin = E`
    the empty slice yields a reference to an element that was never constructed."""
    n = 0
    for im in prog.impls:
        if im.get("trait") != "meta::PtrMeta":
            continue
        thin = [it for it in im["items"] if it.get("name") == "Thin" and it.get("kind") == "AssocTy"]
        targs = [a for a in im.get("trait_args", []) if "ty" in a]
        if not thin or len(targs) < 2:
            chk.inst("thin-prefix-exists-in-every-value", "%s[%s]" % (im.get("self_s"), config), False,
                     detail="impl PtrMeta for %s: associated type Thin / pointee type not found" % im.get("self_s"))
            continue
        n += 1
        x = prog.ty(targs[1]["ty"])
        t = thin[0].get("ty_s") or ""
        k = x.get("k")
        if k in ("slice", "str"):
            ok, why = t == "()", "the shortest value of `%s` is empty: only `()` is there in every value" % x.get("s")
        elif k == "adt" and x.get("def") == "slice::SliceWithHeader":
            hdr = prog.ty(x["args"][0]["ty"]).get("s") if x.get("args") and "ty" in x["args"][0] else None
            ok, why = t in ("()", hdr), "every value begins with the header `%s` (and may have no elements)" % hdr
        elif k == "adt" and x.get("def") == "static_wrapper::Static":
            ok = t.startswith("static_wrapper::Static<") and "::Thin>" in t
            why = "the transparent wrapper delegates to the wrapped type's Thin"
        else:
            ok, why = t in ("()", x.get("s")), "a sized value begins with itself"
        chk.inst("thin-prefix-exists-in-every-value", "%s for %s[%s]" % (im.get("self_s"), x.get("s"), config), ok,
                 detail="impl PtrMeta<%s> for %s declares Thin = `%s`: %s - safe Gc::as_thin_ref would hand out a reference "
                        "to a value that need not exist" % (x.get("s"), im.get("self_s"), t, why),
                 loc="%s:%s" % (im["span"]["f"], im["span"]["l"]), sample={"impl": im.get("self_s"), "pointee": x.get("s"), "thin": t})
    chk.floor("ptr-meta-impls[%s]" % config, n, 4)


# ------------------------------------------------------------------------------------------------ trusted traits

def trusted_traits_are_unsafe(chk, prog, config="default"):
    """Safe functions (Gc::as_thin, as_thin_ref, the Deref of a thin Gc) dereference what `PtrMeta::from_thin` returns and
    read `PtrMetadata` bytes from in front of the allocation - also for pointers the library itself makes with its own
    marker `UnitPtrMeta` (unsize!, erase_kind). An implementation is trusted by safe code, so the trait must be `unsafe`
    to implement: as a safe trait, a downstream `impl PtrMeta<dyn LocalTrait, M> for UnitPtrMeta` (orphan-legal, no
    overlap with the blanket impl for sized T) forges pointers in forbid(unsafe_code) code. Decided from the compiler's
    trait facts; AllocMeta is covered through its supertrait bound."""
    ts = {t["path"]: t for t in prog.f.get("traits", [])}
    t = ts.get("meta::PtrMeta")
    if not chk.anchor("meta::PtrMeta", t is not None):
        return
    chk.inst("trusted-traits-are-unsafe", "meta::PtrMeta[%s]" % config, bool(t.get("unsafe")),
             detail="`PtrMeta` is a safe trait although safe code dereferences what its implementations return: a downstream "
                    "crate can implement it for the library's own marker type and an unsized local type",
             loc="%s:%s" % (t["span"]["f"], t["span"]["l"]) if t.get("span") else None)
