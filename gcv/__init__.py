"""gcv: static-analysis rule engines for the gc-arena properties C01..C20 (see /verif/DESIGN.md)."""
