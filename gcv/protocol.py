"""Abstract reachability of Context::do_collection and the Arena collection methods (C08 / C09 exit
structure / C01-O5 / O8). The driver loop, PhaseGuard, the derived comparisons on Phase/Stop/RunUntil
and the Arena wrappers are interpreted from their MIR; mark_one / sweep_one are replaced by
summaries justified by their own tables (Break iff nothing owed / cursor empty), the debt read is
nondeterministic."""
from gcv import gcmodel, interp
from gcv.gcmodel import obj, some, none, OPT
from gcv.interp import TOP, UNIT, adt, ref, I

METHODS = {
    "collect_debt": "arena::Arena::collect_debt",
    "mark_debt": "arena::Arena::mark_debt",
    "finish_marking": "arena::Arena::finish_marking",
    "cycle_debt": "arena::Arena::cycle_debt",
    "finish_cycle": "arena::Arena::finish_cycle",
    "start_sweeping": "arena::MarkedArena::start_sweeping",
    "collection_phase": "arena::Arena::collection_phase",
}

CF = "core::ops::control_flow::ControlFlow"


class Protocol:
    def __init__(self, prog):
        self.prog = prog
        self.m = gcmodel.GcModel(prog, allow_panic=True, extra_prims=self.summaries())
        self.m.ip.max_steps = 200000

    def summaries(self):
        P = {}
        m = lambda: self.m

        def flag_idx():
            return self.m.ctx_index("root_needs_trace")

        def get_field(st, name):
            return st.mem[("ctx",)][3][self.m.ctx_index(name)]

        def set_field(st, name, v):
            cur = st.mem[("ctx",)]
            f = list(cur[3])
            f[self.m.ctx_index(name)] = v
            st.mem[("ctx",)] = ("adt", cur[1], cur[2], tuple(f))

        def mark_one(ip, st, args, info):
            flag = get_field(st, "root_needs_trace")
            ph = get_field(st, "phase")
            st.g["steps"] = st.g.get("steps", ()) + ("mark",) if len(st.g.get("steps", ())) < 3 else st.g.get("steps")
            pending = self.m.flag_decode(flag) == 1
            st.event("mark_step", "Continue" if pending else "Break")
            if pending:
                s2 = st.fork()
                set_field(s2, "root_needs_trace", self.m.flag_value(False))
                s3 = st.fork()
                worked = self.m.step_values("mark_one")[0]
                return [(st, "ret", worked), (s2, "ret", worked),
                        (s3, "panic", "user Collect::trace")]
            return [(st, "ret", self.m.step_values("mark_one")[1])]

        def sweep_one(ip, st, args, info):
            sw = get_field(st, "sweep")
            st.g["steps"] = st.g.get("steps", ()) + ("sweep",) if len(st.g.get("steps", ())) < 3 else st.g.get("steps")
            st.event("sweep_step", "Continue" if (sw[0] == "adt" and sw[2] == 1) else "Break")
            if sw[0] == "adt" and sw[2] == 1:
                s2 = st.fork()
                set_field(s2, "sweep", none())
                s3 = st.fork()
                worked = self.m.step_values("sweep_one")[0]
                return [(st, "ret", worked), (s2, "ret", worked),
                        (s3, "panic", "user Drop")]
            return [(st, "ret", self.m.step_values("sweep_one")[1])]

        def switch_hook(ip, st, args, info):
            ph = args[1]
            name = gcmodel.phase_name(self.prog, ph)
            cur = self.m.snapshot(st)["phase"]
            sw = st.g.get("switches", ())
            if len(sw) < 12:
                st.g["switches"] = sw + ((cur, name),)
            else:
                st.g["switch_overflow"] = True
                # a single collection call that keeps changing phase: it runs whole cycles back to back (with the debt
                # read nondeterministic nothing ever stops it) - not a path worth following to the step budget
                raise interp.InterpError("[pacing] one collection call passes through more than 12 phase changes (%s ...): "
                                         "it starts new cycles without returning - a debt-driven call performs at most the "
                                         "rest of the running cycle and one further whole cycle" % (list(sw[:6]),))
            st.event("switch", cur, name)
            return NotImplemented

        def enter_hook(ip, st, args, info):
            ph = args[1]
            if ph[0] == "adt" and ph[1] == OPT and ph[2] == 1:
                name = gcmodel.phase_name(self.prog, ph[3][0])
                st.g["switches"] = st.g.get("switches", ()) + ((self.m.snapshot(st)["phase"], name),)
                st.event("switch", self.m.snapshot(st)["phase"], name)
            return NotImplemented

        def debt(ip, st, args, info):
            # nondeterministic; remember the last answer for the exit-structure clauses
            s2 = st.fork()
            st.g["last_debt"] = "pos"
            s2.g["last_debt"] = "zero"
            st.g["debt_reads"] = min(st.g.get("debt_reads", 0) + 1, 3)
            s2.g["debt_reads"] = min(s2.g.get("debt_reads", 0) + 1, 3)
            st.event("debt", "pos")
            s2.event("debt", "zero")
            return [(st, "ret", ("f", 1.0)), (s2, "ret", ("f", 0.0))]

        def finish_cycle(ip, st, args, info):
            # what the argument means is read off Metrics::finish_cycle itself (1: it forgets the outstanding debt,
            # 0: it carries it over), so a bool and an equivalent two-variant enum are the same thing here
            from gcv import rules_debt
            b = args[1]
            v = rules_debt.finish_cycle_mode(self.prog, b) if b[0] in ("i", "adt") else "?"
            st.event("finish_cycle", v)
            st.g["finish_cycle"] = st.g.get("finish_cycle", ()) + (v,)
            return [(st, "ret", UNIT)]

        P["context::Context::mark_one"] = mark_one
        P["context::Context::sweep_one"] = sweep_one
        P["context::PhaseGuard::switch"] = switch_hook
        P["context::PhaseGuard::enter"] = enter_hook
        P["metrics::Metrics::allocation_debt"] = debt

        def debt_predicate(polarity):
            def h(ip, st, args, info):
                out = debt(ip, st, args, info)
                return [(s, k, I(1 if ((v[1] > 0) == polarity) else 0)) for (s, k, v) in out]
            return h
        from gcv import rules_debt
        for fn, pol in rules_debt.debt_predicates(self.prog).items():
            P[fn] = debt_predicate(pol)
        P["metrics::Metrics::finish_cycle"] = finish_cycle
        return P

    def entry_states(self):
        """Reachable abstract entry states of a collection call: (phase, pending mark work, cursor, list)."""
        out = []
        for all_ in (None, 1):
            out.append(("Sleep", 1, None, all_))
            out.append(("Mark", 1, None, all_))
            out.append(("Mark", 0, None, all_))
            out.append(("Sweep", 0, None, all_))
            if all_:
                out.append(("Sweep", 0, 1, all_))
        return out

    def run(self, method, entry):
        ph, flag, sweep, all_ = entry
        st = self.m.mk_state(phase=ph, root_needs_trace=bool(flag), sweep=sweep, all_=all_,
                             objs={1: {"colour": "W"}})
        st.mem[("arena",)] = gcmodel.arena_value(self.prog)
        self_ref = ref(("arena",), ())
        name = METHODS[method]
        if method == "start_sweeping":
            args = [adt("arena::MarkedArena", 0, (self_ref,))]
        else:
            args = [self_ref]
        outs = self.m.run(name, args, st)
        res = []
        for o in outs:
            snap = self.m.snapshot(o.st)
            ret = None
            v = o.value
            if v is not None and v[0] == "adt" and v[1] == OPT:
                ret = "Some" if v[2] == 1 else "None"
            elif v is not None and v[0] == "adt":
                a = self.m.ip.adt_info(v[1])
                if a and a["kind"] == "enum":
                    ret = a["variants"][v[2]]["name"]
            res.append({
                "kind": o.kind, "ret": ret, "phase": snap["phase"], "pending": snap["root_needs_trace"],
                "sweep": snap["sweep"], "switches": o.st.g.get("switches", ()),
                "steps": o.st.g.get("steps", ()), "last_debt": o.st.g.get("last_debt"),
                "debt_reads": o.st.g.get("debt_reads", 0), "finish_cycle": o.st.g.get("finish_cycle", ()),
                "events": [e for e in o.ev if e[0] in ("switch", "mark_step", "sweep_step", "debt", "finish_cycle",
                                                       "panic", "loop_closed", "unreachable_reached")],
                "overflow": o.st.g.get("switch_overflow", False),
                "all": snap["all"],
            })
        return res
