"""C17/C04: (1) flag encoding of GcHeader decided by interpreting the accessors' own MIR on an abstract
address domain (vtable address = opaque base with low 4 bits zero, alignment read from GcVtable's
layout); (2) sibling term agreement between GcPtr::alloc and the vtable's dealloc closure on
value-numbered uninterpreted terms; (3) prefix_header_layout returns Layout::extend unmodified."""
import itertools
import re

from gcv import interp
from gcv.interp import Interp, State, TOP, UNIT, adt, ref, I
from gcv.model import norm

HDR = "gc_ptr::GcHeader"
COLOURS = ["White", "WhiteWeak", "Gray", "Black"]


def _closure_call(prog, ip, st, f, args):
    key = interp.closure_body_key(prog, f)
    if not key:
        raise interp.Unmodelled("closure body " + str(f[1]))
    body = prog.bodies[key]
    envt = prog.ty(body["locals"][1])
    if envt.get("k") == "ref":
        env = st.new_alloc("env", f)
        a0 = ref(env, ())
    else:
        a0 = f
    return [(st, "call", (key, [a0] + list(args)))]


def flag_prims(prog):
    def align_of(ip, st, args, info):
        ga = info["f"].get("args", [])
        al = None
        if ga and "ty" in ga[0]:
            t = prog.ty(ga[0]["ty"])
            if t.get("k") == "adt":
                a = prog.all_adts.get(t["def"])
                if a:
                    al = a.get("repr_align") or 8
        return [(st, "ret", I(al) if al else TOP)]

    def addr(ip, st, args, info):
        return [(st, "ret", args[0])]

    def map_addr(ip, st, args, info):
        return _closure_call(prog, ip, st, args[1], [args[0]])

    def with_addr(ip, st, args, info):
        return [(st, "ret", args[1])]

    P = {
        "core::mem::align_of": align_of,
        "core::ptr::const_ptr::<impl *const T>::addr": addr,
        "core::ptr::mut_ptr::<impl *mut T>::addr": addr,
        "core::ptr::const_ptr::<impl *const T>::map_addr": map_addr,
        "core::ptr::mut_ptr::<impl *mut T>::map_addr": map_addr,
        "core::ptr::const_ptr::<impl *const T>::with_addr": with_addr,
    }
    return P


def _hdr_state(prog, low):
    st = State()
    a = prog.all_adts[HDR]
    names = [f["name"] for f in a["variants"][0]["fields"]]
    vals = {"next": adt("core::option::Option", 0, ()), "tagged_vtable": ("addr", "vtable", low)}
    st.mem[("hdr",)] = adt(HDR, 0, [vals.get(n, TOP) for n in names])
    return st, names.index("tagged_vtable")


def _run1(ip, prog, name, args, st):
    keys = prog.seed_n.get(name)
    if not keys:
        raise KeyError(name)
    outs = ip.run(keys[0], args, st)
    outs = [o for o in outs if o.kind == "return"]
    if len(outs) != 1:
        raise interp.InterpError("%s: %d normal outcomes" % (name, len(outs)))
    return outs[0]


def header_writers(prog):
    """Functions of gc_ptr.rs that write the tagged vtable cell (Cell::<*const GcVtable>::{set,update,replace,..})."""
    prog.edges()
    out = set()
    for e in prog.edges():
        if e.callee in ("core::cell::Cell::update", "core::cell::Cell::set", "core::cell::Cell::replace",
                        "core::cell::Cell::swap", "core::cell::Cell::take") and e.args and "GcVtable" in e.args:
            out.add(prog.fn_of_closure(e.caller))
    return sorted(out)


def _param_values(prog, tid):
    """The finite value set of a flag parameter (bool or the colour enum), as (values, decode)."""
    t = prog.ty(tid)
    if t.get("k") == "bool":
        return [I(0), I(1)], (lambda v: v[1])
    if t.get("k") == "adt" and t.get("def") == "types::GcColor":
        return [adt("types::GcColor", COLOURS.index(c), ()) for c in COLOURS], (lambda v: COLOURS[v[2]])
    return None, None


PINNED_SETTERS = {"gc_ptr::GcHeader::set_color": "color", "gc_ptr::GcHeader::set_needs_trace": "needs_trace",
                  "gc_ptr::GcHeader::set_live": "is_live"}


def needs_trace_establishers(prog):
    """{function: index of the argument that becomes the header's needs-trace flag}, read off the effect of every
    function that writes the tagged vtable word (and of the header constructor): calling it with false / true makes
    GcHeader::needs_trace() return false / true."""
    ip = Interp(prog, prims=flag_prims(prog), strict=True)
    ip.lenient_std = False
    nt = "gc_ptr::GcHeader::needs_trace"
    out = {}
    if nt not in prog.seed_n:
        return out
    ctors = sorted(n for n, ks in prog.seed_n.items()
                   if ks and prog.ty(prog.bodies[ks[0]]["locals"][0]).get("s") == HDR and "{closure" not in n)
    direct = header_writers(prog)
    via = []
    prog.edges()
    for n_, ks in prog.seed_n.items():
        if n_.startswith("gc_ptr::") and "{closure" not in n_ and ks and n_ not in direct:
            b_ = prog.bodies.get(ks[0])
            if b_ and (b_.get("argc") or 0) >= 2 and prog.ty(b_["locals"][1]).get("s", "").lstrip("&") == HDR and \
                    any(prog.ty(b_["locals"][i]).get("k") == "bool" for i in range(2, b_["argc"] + 1)):
                reach = prog.reachable_from([n_])
                if any(d in reach for d in direct):
                    via.append(n_)
    for w in list(direct) + sorted(via) + [c for c in ctors]:
        keys = prog.seed_n.get(w) or []
        b = prog.bodies.get(keys[0]) if keys else None
        if not b or w in out:
            continue
        argc = b.get("argc") or 0
        bools = [i for i in range(1, argc + 1) if prog.ty(b["locals"][i]).get("k") == "bool"]
        for i in bools:
            try:
                seen = []
                for v in (0, 1):
                    args = []
                    st = State()
                    for j in range(1, argc + 1):
                        t = prog.ty(b["locals"][j])
                        if j == i:
                            args.append(I(v))
                        elif t.get("s", "").lstrip("&") == HDR and t.get("k") == "ref":
                            st, _ = _hdr_state(prog, 0)
                            args.append(ref(("hdr",), ()))
                        elif "GcVtable" in t.get("s", ""):
                            args.append(("addr", "vtable", 0))
                        elif t.get("k") == "bool":
                            args.append(I(0))
                        else:
                            raise interp.Unmodelled("parameter type " + t.get("s", "?"))
                    o = _run1(ip, prog, w, args, st)
                    st2 = o.st
                    if ("hdr",) not in st2.mem:
                        st2 = State()
                        st2.mem[("hdr",)] = o.value
                    seen.append(_run1(ip, prog, nt, [ref(("hdr",), ())], st2.fork()).value)
                if seen == [I(0), I(1)]:
                    out[w] = i - 1
                    break
            except (interp.Unmodelled, interp.InterpError, KeyError):
                continue
    return out


def flag_encoding(chk, prog, config="default"):
    """Every function that writes the tagged vtable word is interpreted on all 16 states of the low bits and every value
    of its flag parameter. What a writer sets is read off its effect, not its name: it may change exactly one of the
    three attributes (colour, needs-trace, live), to a value that is a function of its argument alone - the argument
    itself for the setters the collector model treats as primitives - and it never disturbs the other two or the
    vtable address. Each attribute must have an establisher (a setter, or a parameter of GcHeader::new)."""
    ip = Interp(prog, prims=flag_prims(prog), strict=True)
    ip.lenient_std = False
    getters = {
        "color": ("gc_ptr::GcHeader::color", lambda v: COLOURS[v[2]] if v[0] == "adt" else None),
        "needs_trace": ("gc_ptr::GcHeader::needs_trace", lambda v: v[1] if v[0] == "i" else None),
        "is_live": ("gc_ptr::GcHeader::is_live", lambda v: v[1] if v[0] == "i" else None),
        "vtable": ("gc_ptr::GcHeader::vtable", lambda v: v),
    }
    for g in getters.values():
        chk.anchor(g[0], g[0] in prog.seed_n)
    direct = header_writers(prog)
    # the functions that decide what is written: header methods taking one flag / colour argument from which a store to
    # the tagged word is reachable (directly, or through a private plumbing helper that applies a closure to the word)
    prog.edges()
    setters = []        # (fn, values, decode)
    shaped = {}
    for n_, ks in prog.seed_n.items():
        if not n_.startswith("gc_ptr::") or "{closure" in n_ or not ks:
            continue
        b = prog.bodies.get(ks[0])
        if b and b.get("argc") == 2 and prog.ty(b["locals"][1]).get("s", "").lstrip("&") == HDR:
            vals, dec = _param_values(prog, b["locals"][2])
            if vals is not None:
                shaped[n_] = (vals, dec)
    writers = []
    for n_, (vals, dec) in sorted(shaped.items()):
        reach = prog.reachable_from([n_])
        if n_ in direct or any(d in reach for d in direct):
            setters.append((n_, vals, dec))
            writers.append(n_)
    # a direct writer that is not itself such a method must be reachable only through them (or the constructor)
    from gcv.props import common as _common
    allowed = set(writers) | {"gc_ptr::GcHeader::new"}
    extra = []
    for w in direct:
        if w in allowed:
            continue
        esc = _common.escapes(prog, w, allowed)
        if esc is not None:
            extra.append("%s (reachable from %s)" % (w, esc))
    writers = sorted(set(writers) | set(direct))
    chk.inst("vtable-word-writers-analysed", "gc_ptr::GcHeader.tagged_vtable[%s]" % config, not extra,
             detail="the tagged vtable word is also written by %s, which the encode/decode analysis does not cover (not a "
                    "header method taking one flag or colour argument): the vtable of a live object could be rewritten (it "
                    "would be destructed as another type)" % extra,
             sample={"writers": writers})
    chk.floor("vtable-word-writers[%s]" % config, len(writers), 2)

    def read_all(st):
        res = {}
        for gname, (fn, dec) in getters.items():
            o = _run1(ip, prog, fn, [ref(("hdr",), ())], st.fork())
            res[gname] = dec(o.value)
        return res
    n = 0
    befores = {}
    for low in range(16):
        st0, _ = _hdr_state(prog, low)
        try:
            before = befores[low] = read_all(st0)
        except (interp.Unmodelled, interp.InterpError, KeyError) as e:
            chk.inst("flag-encoding", "getters(low=%d)[%s]" % (low, config), False, detail="could not be analysed: %s" % e)
            return
        # untagging always recovers the aligned base
        chk.inst("flag-encoding", "vtable(low=%d)[%s]" % (low, config), before["vtable"] in (("addr", "vtable", 0), ref(("V", "?"), ())) or
                 (before["vtable"][0] == "addr" and before["vtable"][2] == 0),
                 detail="GcHeader::vtable() returns %s for tag bits %d: the untagged pointer is not the vtable address" % (
                     before["vtable"], low), nontrivial=True)
    established = {}
    for (fn, values, dec) in setters:
        short = fn.split("::")[-1]
        results = {}       # (low, value) -> after
        failed = False
        for low in range(16):
            st0, _ = _hdr_state(prog, low)
            for v in values:
                n += 1
                try:
                    o = _run1(ip, prog, fn, [ref(("hdr",), ()), v], st0.fork())
                    results[(low, dec(v))] = read_all(o.st)
                except (interp.Unmodelled, interp.InterpError, KeyError) as e:
                    chk.inst("flag-encoding", "%s(%s,low=%d)[%s]" % (short, dec(v), low, config), False,
                             detail="could not be analysed: %s" % e)
                    failed = True
        if failed:
            continue
        changed = sorted({a for (low, v), after in results.items() for a in getters if after[a] != befores[low][a]})
        attr = PINNED_SETTERS.get(fn)
        if attr is None:
            flags = [a for a in changed if a != "vtable"]
            attr = flags[0] if len(flags) == 1 else None
            if attr is None and not changed:
                attr = "(nothing)"
        for (low, v), after in sorted(results.items(), key=str):
            before = befores[low]
            probs = []
            if attr is None:
                probs.append("changes %s: not the setter of one attribute" % changed)
            elif attr != "(nothing)":
                if fn in PINNED_SETTERS:
                    if after[attr] != v:
                        probs.append("%s() returns %s after %s(%s)" % (attr, after[attr], short, v))
                else:
                    same = {results[(l2, v)][attr] for l2 in range(16)}
                    if len(same) != 1:
                        probs.append("%s() after %s(%s) depends on the previous flag bits (%s)" % (attr, short, v, sorted(same, key=str)))
            for other in getters:
                if other != attr and after[other] != before[other]:
                    probs.append("%s changed from %s to %s" % (other, before[other], after[other]))
            chk.inst("flag-encoding", "%s(%s,low=%d)[%s]" % (short, v, low, config), not probs,
                     detail="; ".join(probs),
                     sample={"setter": fn, "value": v, "tag_bits_before": low, "sets": attr,
                             "after": {k: str(x) for k, x in after.items()}} if (low, v) in ((0, values and dec(values[0])), (13, dec(values[-1]))) else None)
        if attr and attr != "(nothing)":
            # an establisher of `attr`: every value of the attribute can be produced
            reach = {results[(0, dec(v))][attr] for v in values}
            established.setdefault(attr, []).append((fn, sorted(reach, key=str)))
    chk.extra["flag_states"] = 16
    chk.extra["setter_getter_round_trips"] = n
    # a fresh header (GcHeader::new) decodes as White, not live, unlinked; its needs-trace flag is false, or the value of a
    # bool parameter of the constructor (which is then the establisher of that attribute): the allocation state the
    # automaton starts from (live and needs-trace are then decided by the builder, checked in C01 / C04)
    if chk.anchor("gc_ptr::GcHeader::new", "gc_ptr::GcHeader::new" in prog.seed_n):
        try:
            from gcv.gcmodel import variant_name
            key = prog.seed_n["gc_ptr::GcHeader::new"][0]
            b = prog.bodies[key]
            argc = b.get("argc") or 1
            spaces = []
            for i in range(2, argc + 1):
                vals, dec = _param_values(prog, b["locals"][i])
                if vals is None or prog.ty(b["locals"][i]).get("k") != "bool":
                    raise interp.Unmodelled("parameter %d of GcHeader::new is not a flag" % i)
                spaces.append(vals)
            probs = []
            nt_seen = {}
            for combo in itertools.product(*spaces):
                o = _run1(ip, prog, "gc_ptr::GcHeader::new", [("addr", "vtable", 0)] + list(combo), State())
                st = State()
                st.mem[("hdr",)] = o.value
                res = {}
                for gname, (fn, dec) in getters.items():
                    v = _run1(ip, prog, fn, [ref(("hdr",), ())], st.fork()).value
                    res[gname] = variant_name(prog, "types::GcColor", v[2]) if gname == "color" and v[0] == "adt" else dec(v)
                nxt = _run1(ip, prog, "gc_ptr::GcHeader::next", [ref(("hdr",), ())], st.fork()).value
                tag = "(%s)" % ",".join(str(c[1]) for c in combo) if combo else ""
                if res["color"] != "White":
                    probs.append("colour %s%s" % (res["color"], tag))
                if res["is_live"] != 0:
                    probs.append("flagged live before a value exists%s" % tag)
                if not (res["vtable"][0] == "addr" and res["vtable"][2] == 0):
                    probs.append("vtable() of the fresh header is %s%s" % (res["vtable"], tag))
                if not (nxt[0] == "adt" and nxt[2] == 0):
                    probs.append("link %s%s" % (nxt, tag))
                nt_seen[tuple(c[1] for c in combo)] = res["needs_trace"]
            which = [i for i in range(len(spaces)) if all(nt == c[i] for c, nt in nt_seen.items())]
            if spaces and which:
                established.setdefault("needs_trace", []).append(("gc_ptr::GcHeader::new#%d" % (which[0] + 2), [0, 1]))
            elif any(nt != 0 for nt in nt_seen.values()):
                probs.append("needs-trace of a fresh header is %s: neither false nor the value of a constructor parameter" % (
                    sorted(set(nt_seen.values()), key=str),))
            chk.inst("fresh-header-state", "gc_ptr::GcHeader::new[%s]" % config, not probs,
                     detail="a fresh header is not (White, not live, needs-trace false or as passed, unlinked): %s" % "; ".join(probs))
        except (interp.Unmodelled, interp.InterpError, KeyError) as e:
            chk.inst("fresh-header-state", "gc_ptr::GcHeader::new[%s]" % config, False, detail="could not be analysed: %s" % e)
    for attr, full in (("color", COLOURS), ("needs_trace", [0, 1]), ("is_live", [0, 1])):
        est = established.get(attr, [])
        ok = any(sorted(r, key=str) == sorted(full, key=str) for _, r in est)
        chk.inst("flag-established", "%s[%s]" % (attr, config), ok,
                 detail="no function writing the header word can produce every value of `%s` (setters found: %s): the "
                        "attribute could never be set" % (attr, est), sample={"establishers": [e[0] for e in est]})
    chk.extra.setdefault("flag_establishers", {})[config] = {a: [e[0] for e in v] for a, v in established.items()}
    # the list link accessors (primitives of the typestate engine): set_next(x) then next() gives x back and the
    # flags / vtable word are untouched, for an empty and a non-empty link
    for fnname in ("gc_ptr::GcHeader::next", "gc_ptr::GcHeader::set_next"):
        chk.anchor(fnname, fnname in prog.seed_n)
    if "gc_ptr::GcHeader::next" in prog.seed_n and "gc_ptr::GcHeader::set_next" in prog.seed_n:
        for low in (0, 13):
            for link in (adt("core::option::Option", 0, ()), adt("core::option::Option", 1, (("obj", 5),))):
                st0, _ = _hdr_state(prog, low)
                name = "set_next/next(%s,low=%d)[%s]" % ("None" if link[2] == 0 else "Some", low, config)
                try:
                    before = read_all(st0)
                    o = _run1(ip, prog, "gc_ptr::GcHeader::set_next", [ref(("hdr",), ()), link], st0.fork())
                    got = _run1(ip, prog, "gc_ptr::GcHeader::next", [ref(("hdr",), ())], o.st.fork()).value
                    after = read_all(o.st)
                except (interp.Unmodelled, interp.InterpError, KeyError) as e:
                    chk.inst("header-link-round-trip", name, False, detail="could not be analysed: %s" % e)
                    continue
                probs = []
                if got != link:
                    probs.append("next() returns %s after set_next(%s)" % (got, link))
                if after != before:
                    probs.append("set_next changed the flags / vtable word: %s -> %s" % (before, after))
                chk.inst("header-link-round-trip", name, not probs, detail="; ".join(probs))


# ------------------------------------------------------------------------------------------------ term agreement

def _last(name):
    return name.split("::")[-1]


def _fallible(prog, st, info, T):
    """A term-valued result whose destination is an Option / Result local, as its two variants: the success variant
    carries unwrap(T) - the same term `.unwrap()` / `.expect(..)` give - so that a `match` or `let .. else` on the
    result and an unwrap of it are the same thing to the comparison of terms."""
    t, fr = info.get("term"), info.get("caller")
    d = t.get("d") if t else None
    if not d or d.get("p") or fr is None:
        return None
    ty = prog.ty(fr.body["locals"][d["l"]])
    if ty.get("k") != "adt":
        return None
    inner = ("app", "unwrap", (T,))
    if ty.get("def") == "core::option::Option":
        return [(st, "ret", adt("core::option::Option", 1, (inner,))), (st.fork(), "ret", adt("core::option::Option", 0, ()))]
    if ty.get("def") == "core::result::Result":
        return [(st, "ret", adt("core::result::Result", 0, (inner,))), (st.fork(), "ret", adt("core::result::Result", 1, (TOP,)))]
    return None


def term_prims(prog):
    def unwrap(ip, st, args, info):
        v = args[0]
        if v[0] == "adt" and v[1] == "core::option::Option":
            return [(st, "ret", v[3][0])] if v[2] == 1 else [(st, "panic", "unwrap of None")]
        if v[0] == "adt" and v[1] == "core::result::Result":
            return [(st, "ret", v[3][0])] if v[2] == 0 else [(st, "panic", "unwrap of Err")]
        return [(st, "ret", ("app", "unwrap", (v,)))]

    def nn_new(ip, st, args, info):
        s2 = st.fork()
        return [(st, "ret", adt("core::option::Option", 1, (args[0],))),
                (s2, "ret", adt("core::option::Option", 0, ()))]

    def ident(ip, st, args, info):
        return [(st, "ret", args[0])]

    def val(ip, st, a):
        # by-reference arguments (e.g. `layout.size()` takes &self): use the referenced value in the term
        if isinstance(a, tuple) and a and a[0] == "ref":
            try:
                return ip.read(st, a[1], a[2])
            except interp.InterpError:
                return a
        return a

    def ident_deref(ip, st, args, info):
        return [(st, "ret", val(ip, st, args[0]))]

    def op(name):
        def h(ip, st, args, info):
            T = ("app", name, tuple(val(ip, st, a) for a in args))
            return _fallible(prog, st, info, T) or [(st, "ret", T)]
        return h

    def alloc(ip, st, args, info):
        st.event("alloc", args[0])
        return [(st, "ret", ("sym", "block"))]

    def dealloc(ip, st, args, info):
        st.event("dealloc", args[0], args[1])
        return [(st, "ret", UNIT)]

    def write(ip, st, args, info):
        st.event("write", args[0], args[1])
        return [(st, "ret", UNIT)]

    def read(ip, st, args, info):
        return [(st, "ret", ("app", "read", (args[0],)))]

    def size_of(ip, st, args, info):
        return [(st, "ret", ("sym", "size_of<%s>" % (info["f"].get("s", "").split("::<")[-1].rstrip(">"))))]

    def opaque_true(ip, st, args, info):
        return [(st, "ret", I(1))]

    def diverge(ip, st, args, info):
        return [(st, "panic", "alloc error")]

    def elementwise(byte_name):
        # p.add(n) / p.sub(n) on a pointer to u8 is p.byte_add(n) / p.byte_sub(n)
        def h(ip, st, args, info):
            ga = [prog.ty_s(a["ty"]) for a in info["f"].get("args", []) if "ty" in a]
            if ga and ga[0] in ("u8", "i8"):
                return [(st, "ret", ("app", byte_name, tuple(val(ip, st, a) for a in args)))]
            return [(st, "ret", ("app", info["def"], tuple(val(ip, st, a) for a in args)))]
        return h

    P = {}
    for pre in ("core::ptr::non_null::NonNull::", "core::ptr::mut_ptr::<impl *mut T>::", "core::ptr::const_ptr::<impl *const T>::"):
        P[pre + "add"] = elementwise("byte_add")
        P[pre + "sub"] = elementwise("byte_sub")
        P[pre + "byte_add"] = op("byte_add")
        P[pre + "byte_sub"] = op("byte_sub")
        P[pre + "write"] = write
        P[pre + "read"] = read
    P["core::ptr::write"] = write
    P["core::ptr::read"] = read
    for n in ("core::ptr::from_ref", "core::ptr::from_mut", "core::ptr::non_null::NonNull::from_mut",
              "<core::ptr::non_null::NonNull as core::convert::From<&T>>::from",
              "<core::ptr::non_null::NonNull as core::convert::From<&mut T>>::from"):
        P[n] = ident
    for n in ("core::option::Option::expect", "core::option::Option::unwrap", "core::result::Result::expect",
              "core::result::Result::unwrap", "core::option::Option::unwrap_unchecked"):
        P[n] = unwrap
    P["core::ptr::non_null::NonNull::new"] = nn_new
    for n in ("core::ptr::non_null::NonNull::cast", "core::ptr::non_null::NonNull::as_ptr",
              "core::ptr::non_null::NonNull::new_unchecked", "core::ptr::mut_ptr::<impl *mut T>::cast",
              "core::ptr::const_ptr::<impl *const T>::cast", "core::ptr::const_ptr::<impl *const T>::cast_mut",
              "core::ptr::mut_ptr::<impl *mut T>::cast_const", "core::ptr::non_null::NonNull::from_ref"):
        P[n] = ident
    P["core::ptr::non_null::NonNull::as_ref"] = ident_deref
    P["core::ptr::non_null::NonNull::byte_add"] = op("byte_add")
    P["core::ptr::non_null::NonNull::byte_sub"] = op("byte_sub")
    P["core::alloc::layout::Layout::size"] = op("size")
    P["core::alloc::layout::Layout::align"] = op("align")
    P["gc_ptr::prefix_header_layout"] = op("prefix_header_layout")
    P["gc_ptr::GcHeader::new"] = op("GcHeader::new")
    P["alloc::alloc::alloc"] = alloc
    P["alloc::alloc::dealloc"] = dealloc
    P["alloc::alloc::handle_alloc_error"] = diverge
    P["core::ptr::non_null::NonNull::write"] = write
    P["core::ptr::non_null::NonNull::read"] = read
    P["core::mem::size_of"] = size_of
    P["core::ptr::non_null::NonNull::is_aligned"] = opaque_true
    P["core::ptr::const_ptr::<impl *const T>::addr"] = op("addr")
    P["core::ptr::mut_ptr::<impl *mut T>::addr"] = op("addr")
    P["core::num::<impl usize>::is_multiple_of"] = opaque_true
    return P


def _opaque_trait(ip, st, args, info):
    d = info.get("declared") or info["def"]
    vals = []
    for a in args:
        if isinstance(a, tuple) and a and a[0] == "ref":
            try:
                a = ip.read(st, a[1], a[2])
            except interp.InterpError:
                pass
        vals.append(a)
    T = ("app", d, tuple(vals))
    return _fallible(ip.prog, st, info, T) or [(st, "ret", T)]


def _subst(t, mapping):
    if t in mapping:
        return mapping[t]
    if isinstance(t, tuple):
        return tuple(_subst(x, mapping) for x in t)
    return t


def _fmt(t, depth=0):
    if not isinstance(t, tuple):
        return str(t)
    if t and t[0] == "sym":
        return t[1].split("::")[-1] if depth else t[1]
    if t and t[0] == "app":
        return "%s(%s)" % (_last(str(t[1])), ", ".join(_fmt(x, depth + 1) for x in t[2]))
    if t and t[0] == "i":
        return str(t[1])
    return str(t[0])


def agreement(chk, prog, config="default", alignment_clauses=True):
    alloc_k = prog.seed_n.get("gc_ptr::GcPtr::alloc")
    slots, inits = prog.vtable_slots()
    from gcv import rules_prims
    dealloc_c = slots.get(rules_prims._slot_index(prog, "dealloc"))
    if not chk.anchor("gc_ptr::GcPtr::alloc", bool(alloc_k)) or not chk.anchor("GcVtable.dealloc slot", dealloc_c in prog.seed_n):
        return
    ip = Interp(prog, prims=term_prims(prog), opaque_call=_opaque_trait, strict=True)
    ip.lenient_std = True
    try:
        a_outs = [o for o in ip.run(alloc_k[0], [("sym", "ptr_meta")], State()) if o.kind == "return"]
        # the slot holds a closure (environment first) or a named function
        d_args = ([adt("closure:x", 0, ())] if "{closure" in dealloc_c else []) + [("sym", "value_ptr")]
        d_outs = [o for o in ip.run(prog.seed_n[dealloc_c][0], d_args, State()) if o.kind == "return"]
    except (interp.Unmodelled, interp.InterpError, KeyError, IndexError) as e:
        chk.inst("layout-term-agreement", "alloc-vs-dealloc[%s]" % config, False, detail="could not be analysed: %s: %s" % (type(e).__name__, e))
        return
    probs = []
    a_terms = set()
    for o in a_outs:
        al = [e for e in o.ev if e[0] == "alloc"]
        wr = [e for e in o.ev if e[0] == "write"]
        if len(al) != 1:
            probs.append("allocation path requests %d blocks" % len(al))
            continue
        a_terms.add((al[0][1], tuple((w[1], w[2]) for w in wr), o.value))
    d_terms = set()
    for o in d_outs:
        de = [e for e in o.ev if e[0] == "dealloc"]
        if len(de) != 1:
            probs.append("release path frees %d blocks" % len(de))
            continue
        d_terms.add((de[0][1], de[0][2]))
    if not a_terms or not d_terms:
        probs.append("no allocation / release path could be extracted")
    pairs = [(a, d) for a in sorted(a_terms, key=str) for d in sorted(d_terms, key=str)]
    sample_terms = None
    for ((L_a, writes, ret), (p_d, L_d)) in pairs[:16]:
        if probs:
            break
        # value pointer handed out by alloc: the pointer wrapped in the returned GcPtr (through from_thin)
        vp = None
        off_a = None
        for (addr, val) in writes:
            pass
        # find byte_add(block, off)
        def find(t, pred):
            if pred(t):
                return t
            if isinstance(t, tuple):
                for x in t:
                    r = find(x, pred)
                    if r is not None:
                        return r
            return None
        vp = find(ret, lambda t: isinstance(t, tuple) and t[:2] == ("app", "byte_add"))
        if vp is None or vp[2][0] != ("sym", "block"):
            probs.append("the value pointer returned by alloc is not `block + offset` (%s)" % _fmt(ret))
        else:
            off_a = vp[2][1]
            # metadata written in alloc: address -> value
            wmap = {}
            for (addr, val) in writes:
                wmap[("app", "read", (addr,))] = val
            mapping = {("sym", "value_ptr"): vp}
            L_d2 = _subst(L_d, mapping)
            p_d2 = _subst(p_d, mapping)
            # reader offset == writer offset: every read(..) in the release layout must hit a written address
            reads = []
            def coll(t):
                if isinstance(t, tuple):
                    if t[:2] == ("app", "read"):
                        reads.append(t)
                    for x in t:
                        coll(x)
            coll(L_d2)
            coll(p_d2)
            for r in reads:
                if r not in wmap:
                    probs.append("release reads per-value metadata at `%s`, which allocation never wrote (writer/reader "
                                 "offset mismatch); written addresses: %s" % (_fmt(r[2][0]), [_fmt(a) for (a, v) in writes]))
            L_d3 = _subst(L_d2, wmap)
            p_d3 = _subst(p_d2, wmap)
            if L_d3 != L_a:
                probs.append("release layout `%s` differs from request layout `%s`" % (_fmt(L_d3), _fmt(L_a)))
            want_p = ("app", "byte_sub", (vp, off_a))
            if p_d3 != want_p:
                probs.append("released address `%s` is not `value - offset` for the offset used at allocation (`%s`)" % (
                    _fmt(p_d3), _fmt(want_p)))
            # header written immediately in front of the value, metadata at META_HEADER_LAYOUT.size() in front
            hdr_w = [a for (a, v) in writes if isinstance(v, tuple) and v[:2] == ("app", "GcHeader::new")]
            if len(hdr_w) != 1 or hdr_w[0][:2] != ("app", "byte_sub") or hdr_w[0][2][0] != vp or "size_of<" not in str(hdr_w[0][2][1]) \
                    or "GcHeader" not in str(hdr_w[0][2][1]):
                probs.append("the header is not written at `value - size_of::<GcHeader>()` (%s)" % [_fmt(a) for a in hdr_w])
            meta_w = [(a, v) for (a, v) in writes if v == ("sym", "ptr_meta")]
            if len(meta_w) != 1:
                probs.append("the per-value metadata argument is not stored exactly once")
            if find(ret, lambda t: t == ("sym", "ptr_meta")) is None:
                probs.append("the returned fat pointer is not built from the stored metadata argument")
    chk.inst("layout-term-agreement", "alloc-vs-dealloc[%s]" % config, not probs, detail="; ".join(probs[:3]),
             sample={"request_layout": _fmt(pairs[0][0][0]), "release_layout": _fmt(pairs[0][1][1]),
                     "released_address": _fmt(pairs[0][1][0]), "path_pairs_compared": len(pairs),
                     "writes": [(_fmt(a), _fmt(v)) for (a, v) in pairs[0][0][1]]} if pairs else None)
    # header(): value - size_of::<GcHeader>() (reader side of the header offset)
    hk = prog.seed_n.get("gc_ptr::GcPtr::header")
    if chk.anchor("gc_ptr::GcPtr::header", bool(hk)):
        st = State()
        st.mem[("p",)] = adt("gc_ptr::GcPtr", 0, (("sym", "value_ptr"),))
        try:
            outs = [o for o in ip.run(hk[0], [ref(("p",), ())], st) if o.kind == "return"]
            vals = {o.value for o in outs}
            ok = len(vals) == 1
            v = next(iter(vals)) if vals else None
            ok = ok and isinstance(v, tuple) and v[:2] == ("app", "byte_sub") and v[2][0] == ("sym", "value_ptr") \
                and "GcHeader" in str(v[2][1]) and "size_of<" in str(v[2][1])
            chk.inst("header-offset-agreement", "gc_ptr::GcPtr::header[%s]" % config, ok,
                     detail="header() reads the header at `%s`, allocation writes it at `value - size_of::<GcHeader>()`" % _fmt(v),
                     sample={"header_address": _fmt(v)})
        except (interp.Unmodelled, interp.InterpError) as e:
            chk.inst("header-offset-agreement", "gc_ptr::GcPtr::header[%s]" % config, False, detail="could not be analysed: %s" % e)
    # prefix_header_layout returns Layout::extend unmodified (what makes the value aligned and disjoint from the header:
    # C17's clause; request / release agreement - C04 - does not depend on it)
    pk = prog.seed_n.get("gc_ptr::prefix_header_layout")
    if alignment_clauses and chk.anchor("gc_ptr::prefix_header_layout", bool(pk)):
        def extend(ip_, st, args, info):
            args = [ip_.read(st, a[1], a[2]) if (isinstance(a, tuple) and a and a[0] == "ref") else a for a in args]
            s2 = st.fork()
            ok = adt("core::result::Result", 0, (adt("(tuple)", 0, (("app", "extend.layout", tuple(args)), ("app", "extend.offset", tuple(args)))),))
            return [(st, "ret", ok), (s2, "ret", adt("core::result::Result", 1, (("sym", "layout_error"),)))]
        prims = term_prims(prog)
        del prims["gc_ptr::prefix_header_layout"]
        prims["core::alloc::layout::Layout::extend"] = extend
        ip2 = Interp(prog, prims=prims, opaque_call=_opaque_trait, strict=True)
        ip2.lenient_std = True
        try:
            outs = [o for o in ip2.run(pk[0], [("sym", "header"), ("sym", "value")], State()) if o.kind == "return"]
            want_ok = adt("core::result::Result", 0, (adt("(tuple)", 0, (
                ("app", "extend.layout", (("sym", "header"), ("sym", "value"))),
                ("app", "extend.offset", (("sym", "header"), ("sym", "value"))))),))
            oks = {o.value for o in outs if o.value[2] == 0}
            errs = {o.value for o in outs if o.value[2] == 1}
            chk.inst("prefix_header_layout-is-extend", "gc_ptr::prefix_header_layout[%s]" % config,
                     oks == {want_ok} and len(errs) == 1,
                     detail="prefix_header_layout does not return header.extend(value) unmodified: %s" % [_fmt(v) for v in oks])
        except (interp.Unmodelled, interp.InterpError) as e:
            chk.inst("prefix_header_layout-is-extend", "gc_ptr::prefix_header_layout[%s]" % config, False,
                     detail="could not be analysed: %s" % e)


# ------------------------------------------------------------------------------------------------ value layouts
def value_layouts(chk, prog, config="default"):
    """Every `AllocMeta::layout` implementor, interpreted on uninterpreted terms: on every path that returns a
    layout, the layout must depend on every type parameter of the value type it describes (a slice-with-header
    layout that does not mention the element type cannot carry the element's alignment; one that does not
    mention the header cannot carry its size). This is a necessary condition of "aligned for the value and
    large enough", decided per path - a fast path for one length that forgets a component is reported. The
    arithmetic of Layout::extend / pad_to_align itself stays delegated to std."""
    import re as _re

    def tyname(info):
        s = info["f"].get("s", "")
        m = _re.search(r"::<(.*)>$", s)
        return m.group(1) if m else "?"

    def l_new(ip, st, args, info):
        return [(st, "ret", ("app", "Layout::new", (("sym", "ty:" + tyname(info)),)))]

    def l_array(ip, st, args, info):
        s2 = st.fork()
        return [(st, "ret", adt("core::result::Result", 0, (("app", "Layout::array", (("sym", "ty:" + tyname(info)), args[0])),))),
                (s2, "ret", adt("core::result::Result", 1, (("sym", "LayoutError"),)))]

    def val(ip, st, a):
        if isinstance(a, tuple) and a and a[0] == "ref":
            try:
                return ip.read(st, a[1], a[2])
            except interp.InterpError:
                return a
        return a

    def l_extend(ip, st, args, info):
        a, b = val(ip, st, args[0]), val(ip, st, args[1])
        s2 = st.fork()
        return [(st, "ret", adt("core::result::Result", 0, (("adt", "(,)", 0, (("app", "extend", (a, b)), ("app", "extend_offset", (a, b)))),))),
                (s2, "ret", adt("core::result::Result", 1, (("sym", "LayoutError"),)))]

    def l_pad(ip, st, args, info):
        return [(st, "ret", ("app", "pad_to_align", (val(ip, st, args[0]),)))]

    def l_fsa(ip, st, args, info):
        s2 = st.fork()
        return [(st, "ret", adt("core::result::Result", 0, (("app", "from_size_align", tuple(args)),))),
                (s2, "ret", adt("core::result::Result", 1, (("sym", "LayoutError"),)))]

    def size_of(ip, st, args, info):
        return [(st, "ret", ("sym", "ty:" + tyname(info) + ":size"))]

    def align_of(ip, st, args, info):
        return [(st, "ret", ("sym", "ty:" + tyname(info) + ":align"))]
    prims = {"core::alloc::layout::Layout::new": l_new, "core::alloc::layout::Layout::array": l_array,
             "core::alloc::layout::Layout::extend": l_extend, "core::alloc::layout::Layout::pad_to_align": l_pad,
             "core::alloc::layout::Layout::from_size_align": l_fsa, "core::mem::size_of": size_of,
             "core::mem::align_of": align_of}
    n = 0
    for im in prog.impls:
        if im.get("trait") != "meta::AllocMeta":
            continue
        item = [i for i in im["items"] if i["name"] == "layout"]
        if not item:
            continue
        fn = norm(item[0]["path"])
        keys = [k for k in prog.seed_n.get(fn, []) if prog.bodies[k]["def"] == item[0]["path"]] or prog.seed_n.get(fn, [])
        if not chk.anchor(item[0]["path"], bool(keys), "(config %s)" % config):
            continue
        vty = prog.ty(im["trait_args"][1]["ty"])
        params = sorted(set(_re.findall(r"\b([A-Z][A-Za-z0-9]*)\b", vty["s"])) & {g["name"] for g in im["generics"] if g["kind"] == "type"})
        def delegated(ip_, st, args, info):
            # a generic call resolved only at instantiation (e.g. `P::layout` of a wrapped implementor): keep
            # the callee as written, with its type arguments, as an uninterpreted term
            return [(st, "ret", ("app", info.get("f", {}).get("s") or info.get("declared") or info["def"], tuple(args)))]
        ip = Interp(prog, prims=dict(prims), opaque_call=delegated, strict=True)
        ip.lenient_std = True
        n += 1
        try:
            outs = ip.run(keys[0], [("sym", "type_meta"), ("sym", "ptr_meta")], State())
        except (interp.Unmodelled, interp.InterpError) as e:
            chk.inst("value-layout-depends-on-its-type", "%s[%s]" % (im["self_s"], config), False,
                     detail="AllocMeta::layout of %s could not be analysed: %s" % (im["self_s"], e))
            continue
        probs = []
        somes = 0
        for o in outs:
            if o.kind != "return":
                continue
            v = o.value
            if not (v[0] == "adt" and v[1] == "core::option::Option"):
                # delegated to another implementor (generic P::layout): the term names the callee with its type
                txt = _fmt(v, 0) if isinstance(v, tuple) else str(v)
            elif v[2] == 0:
                continue
            else:
                txt = _fmt(v[3][0], 0)
            somes += 1
            full = repr(v)
            missing = [p for p in params if not _re.search(r"\b%s\b" % _re.escape(p), full)]
            if missing:
                cons = "; ".join("%s %s %s" % (_fmt(a, 0), "".join(sorted(r)), _fmt(b, 0)) for (a, b), r in o.st.cons.items())
                probs.append("a path%s returns the layout `%s`, which does not depend on type parameter(s) %s of the value type "
                             "`%s`: for a %s with larger alignment or size the block is too weakly aligned / too small" % (
                                 (" (taken when %s)" % cons) if cons else "", txt[:160], missing, vty["s"], "/".join(missing)))
        if not somes:
            probs.append("no path returns a layout")
        chk.inst("value-layout-depends-on-its-type", "%s[%s]" % (im["self_s"], config), not probs,
                 detail="; ".join(sorted(set(probs))[:2]), loc="%s:%s" % (im["span"]["f"], im["span"]["l"]),
                 sample={"implementor": im["self_s"], "value_type": vty["s"], "parameters": params, "paths": somes})
    chk.floor("AllocMeta-impls[%s]" % config, n, 3)


# ------------------------------------------------------------------------------------------------ metadata written once

WRITE_FNS = ("::write", "::write_unaligned", "::write_volatile", "::replace", "::swap", "::copy_from", "::copy_from_nonoverlapping",
             "::copy_to", "::copy_to_nonoverlapping")


def meta_written_only_at_allocation(chk, prog, config="default"):
    """The release path recomputes the block's layout from the per-value metadata stored in front of the header (the slice
    length, say). "Released with the layout it was requested with" therefore needs that metadata to be written once, by
    GcPtr::alloc, from the very value the request layout was computed from - and never again: a later writer (a
    builder "shrinking" a partially initialised slice) makes every later release pass a different layout to the
    allocator. Every call that writes a value of a `PtrMetadata` type through a pointer must sit in GcPtr::alloc or
    in a private helper reachable only through it."""
    from gcv.props import common as _common
    prog.edges()
    n = 0
    allowed = {"gc_ptr::GcPtr::alloc"}
    seen = set()
    for e in prog.edges():
        if not e.callee or not e.args or "PtrMetadata" not in e.args:
            continue
        if not (e.callee.startswith(("core::ptr::", "core::intrinsics::")) and e.callee.endswith(WRITE_FNS)):
            continue
        # the written type (the pointee of the pointer type argument) is the metadata itself
        if not re.search(r"::<\s*<[^<>]*(?:<[^<>]*(?:<[^<>]*>[^<>]*)*>[^<>]*)*>::PtrMetadata\s*>::", e.args):
            continue
        caller = prog.fn_of_closure(e.caller)
        if caller in seen:
            continue
        seen.add(caller)
        n += 1
        esc = None if caller in allowed else _common.escapes(prog, caller, allowed)
        chk.inst("ptr-meta-written-only-at-allocation", "%s[%s]" % (caller, config), caller in allowed or esc is None,
                 detail="`%s` overwrites the per-value metadata stored in front of the header (reachable from `%s`): the "
                        "release path recomputes the block's layout from it, so the block is no longer returned with the "
                        "layout it was requested with" % (caller, esc), loc="%s:%s" % (e.file, e.line),
                 sample={"writer": caller, "call": e.callee})
    chk.floor("ptr-meta-writers[%s]" % config, n, 1)
