"""Evidence files, violation / known-finding reporting, exit status."""
import json
import os
import sys
import time

VERIF = os.path.dirname(os.path.dirname(os.path.abspath(__file__)))
KNOWN = os.path.join(VERIF, "known_findings.json")


def load_known():
    try:
        with open(KNOWN) as f:
            k = json.load(f)
    except FileNotFoundError:
        k = {"open": [], "fixed": []}
    return k


class Check:
    """Collects rule instances for one property run."""

    def __init__(self, pid, tier="quick", seed=0):
        self.pid = pid
        self.tier = tier
        self.seed = seed
        self.t0 = time.time()
        self.instances = []  # (rule, instance, ok, nontrivial, detail)
        self.violations = []  # dicts
        self.samples = []
        self.extra = {}
        self.explanation = []
        self.assumptions = []
        self.not_decided = []
        self.floors = {}
        self.controls = {}
        self.info = []
        self.cfg = None

    # a rule instance that was evaluated; ok=False registers a violation
    def inst(self, rule, instance, ok, detail="", loc=None, nontrivial=True, sample=None):
        if self.cfg and self.cfg != "default":
            instance = "%s[%s]" % (instance, self.cfg)
        self.instances.append((rule, instance, bool(ok), bool(nontrivial)))
        if not ok:
            self.violation(rule, instance, detail, loc)
        if sample is not None and len(self.samples) < 12:
            self.samples.append(sample)
        return ok

    def violation(self, rule, instance, detail, loc=None):
        key = "%s|%s|%s" % (self.pid, rule, instance)
        for v in self.violations:
            if v["key"] == key:
                v.setdefault("more", []).append({"detail": detail, "loc": loc})
                return
        self.violations.append({"key": key, "property": self.pid, "rule": rule, "instance": instance,
                                "detail": detail, "loc": loc})

    def floor(self, name, count, minimum):
        """Fail closed when fewer instances than counted by hand on the pinned tree were found."""
        self.floors[name] = {"count": count, "floor": minimum}
        if count < minimum:
            self.violation("COUNT-BELOW-FLOOR", name,
                           "rule matched %d instance(s), expected at least %d (a rule matching nothing "
                           "must not pass vacuously)" % (count, minimum))

    def anchor(self, name, present, detail=""):
        if not present:
            self.violation("ANCHOR-MISSING", name, "anchor `%s` could not be resolved in the analysed "
                           "program %s" % (name, detail))
        return present

    def control(self, name, fired):
        self.controls[name] = bool(fired)
        if not fired:
            self.violation("POSITIVE-CONTROL-SILENT", name, "the rule did not fire on its positive control")

    def explain(self, text):
        self.explanation.append(text)

    def note(self, text):
        self.info.append(text)

    def finish(self):
        known = load_known()
        open_keys = {k["key"]: k for k in known.get("open", [])}
        new = []
        listed = []
        for v in self.violations:
            if v["key"] in open_keys:
                listed.append(v)
            else:
                new.append(v)
        evaluations = len(self.instances)
        distinct = len({(r, i) for (r, i, ok, nt) in self.instances if nt})
        cov = {
            "explanation": " ".join(self.explanation) or "static rule evaluation",
            "evaluations": evaluations,
            "distinct_nontrivial": distinct,
            "rule": "one evaluation = one (rule, instance) pair decided from the compiler's facts/MIR of the "
                    "current tree; non-trivial = the verdict depended on analysed code (not satisfied by an "
                    "exception-table entry, not vacuous)",
            "samples": self.samples or [{"rule": r, "instance": i, "ok": ok} for (r, i, ok, nt) in self.instances[:5]],
            "rules": sorted({r for (r, i, ok, nt) in self.instances}),
            "floors": self.floors,
            "positive_controls_fired": self.controls,
            "not_decided": self.not_decided,
            "known_findings_matched": [v["key"] for v in listed],
            "info": self.info[:40],
        }
        cov.update(self.extra)
        ev = {
            "property_id": self.pid,
            "tier": self.tier,
            "seed": self.seed,
            "level": "other",
            "coverage": cov,
            "assumptions": self.assumptions,
            "wall_s": round(time.time() - self.t0, 3),
            "violations": len(new),
        }
        evdir = os.environ.get("GCV_EVIDENCE_DIR") or os.path.join(VERIF, "evidence")
        os.makedirs(evdir, exist_ok=True)
        with open(os.path.join(evdir, self.pid + ".json"), "w") as f:
            json.dump(ev, f, indent=1, sort_keys=True)
        for v in listed:
            print("KNOWN-FINDING: property=%s %s" % (self.pid, open_keys[v["key"]].get("what", v["key"])))
        if new:
            rdir = os.path.join(os.environ.get("GCV_EVIDENCE_DIR") or os.path.join(VERIF, "out"), "replay")
            os.makedirs(rdir, exist_ok=True)
            for n, v in enumerate(new):
                rp = os.path.join(rdir, "%s-%d.json" % (self.pid, n))
                with open(rp, "w") as f:
                    json.dump(v, f, indent=1)
                loc = v.get("loc")
                print("  [%s] %s: %s%s" % (v["rule"], v["instance"], v["detail"], (" @ " + str(loc)) if loc else ""))
                print("VIOLATION property=%s replay=%s" % (self.pid, rp))
            return 1
        print("OK property=%s tier=%s rule_instances=%d distinct_nontrivial=%d wall=%.1fs" % (
            self.pid, self.tier, evaluations, distinct, time.time() - self.t0))
        return 0
