"""Shared loader for the typestate engine: Program + extracted Tables + Automaton per configuration,
and the glue that evaluates a spec over a table and registers rule instances."""
from gcv import facts, model, tables, automaton, spec

_cache = {}


def engine(config="default"):
    config = config or "default"
    if config not in _cache:
        fx = facts.load(config)
        prog = model.Program(fx, config)
        T = tables.Tables(prog)
        _cache[config] = (prog, T)
    return _cache[config]


def configs(tier):
    # thorough: every feature configuration, longer lists / queues in the collector-step tables
    tables.THOROUGH = tier != "quick"
    return ["default"] if tier == "quick" else ["default", "nodefault", "all"]


_auto = {}


def auto(config="default"):
    if config not in _auto:
        prog, T = engine(config)
        _auto[config] = automaton.Automaton(T)
    return _auto[config]


def armed_default(row):
    return True


ARMED = {
    # rows whose pre-state can occur (see DESIGN.md §3.3 point 4 and automaton.ASSUMPTIONS); the other rows
    # are extracted and reported as information only
    "trace": lambda r: r.pre["phase"] == "Mark" and r.pre["live"] == 1,
    "trace_weak": lambda r: r.pre["phase"] == "Mark",
    "upgrade": lambda r: r.pre["phase"] != "Drop",
    "resurrect": lambda r: r.pre["phase"] == "Mark" and r.pre["live"] == 1,
    "make_gray_again": lambda r: r.pre["phase"] == "Mark" and r.pre["colour"] == "B" and r.pre["live"] == 1,
    "backward_barrier": lambda r: not r.pre["child"].endswith(":0"),
    "backward_barrier_weak": armed_default,
    "forward_barrier": lambda r: r.pre["Clive"] == 1,
    "forward_barrier_weak": armed_default,
    "root_barrier": armed_default,
    "gray_remaining": armed_default,
    "mark_one": armed_default,
    "sweep_one": lambda r: r.pre.get("cursor") != "G",
    "link": armed_default,
    "drop_all": armed_default,
    "weak_resurrect": lambda r: r.pre["phase"] == "Mark" or r.pre["live"] == 0,
    "gc_is_dead": lambda r: r.pre["phase"] == "Mark",
    "weak_is_dead": lambda r: r.pre["phase"] == "Mark",
}

SPECS = {
    "trace": spec.spec_trace,
    "trace_weak": spec.spec_trace_weak,
    "upgrade": spec.spec_upgrade,
    "resurrect": spec.spec_resurrect,
    "make_gray_again": spec.spec_make_gray_again,
    "backward_barrier": spec.spec_backward_barrier,
    "backward_barrier_weak": lambda r: spec.spec_backward_barrier(r, True),
    "forward_barrier": spec.spec_forward_barrier,
    "forward_barrier_weak": lambda r: spec.spec_forward_barrier(r, True),
    "root_barrier": spec.spec_root_barrier,
    "gray_remaining": spec.spec_gray_remaining,
    "mark_one": spec.spec_mark_one,
    "sweep_one": spec.spec_sweep_one,
    "link": spec.spec_link,
    "drop_all": spec.spec_drop_all,
    "weak_upgrade": spec.spec_weak_upgrade,
    "weak_is_dropped": spec.spec_weak_is_dropped,
    "weak_is_dead": spec.spec_is_dead,
    "gc_is_dead": spec.spec_is_dead,
    "weak_resurrect": spec.spec_weak_resurrect,
    "adopt": spec.spec_adopt,
    "root_paths": spec.spec_root_paths,
}


import re as _re


def aspect_of(problem):
    """Which clause family a spec problem belongs to, so that each property only alarms on its own clauses:
    credits (work-credit / metric events), count (Gc count), panic (collector code panics / abnormal exit of a
    call that must not panic), safety (colours, queues, list shape, destruct/free, frame conditions)."""
    m = _re.match(r"^\[([a-z-]+)\] ", problem)
    if m:
        return m.group(1)
    if _re.search(r"Gc count", problem):
        return "count"
    if _re.search(r"credit|metric event", problem):
        return "credits"
    if _re.match(r"^(panics:|exit kind|exit unwind|exit abort|path panics)", problem) or problem.startswith("exit "):
        return "panic"
    return "safety"


ALL_ASPECTS = frozenset(["stw", "leak", "safety", "credits", "credits-over", "credits-under", "credits-repeat", "count", "panic", "reclaim", "reporting", "once", "weak", "unwind", "timing", "overmark", "overmark-strong"])


def apply(chk, rule, table, config=None, only=None, specfn=None, aspects=None):
    """Evaluate the spec of `table` on every extracted row; one rule instance per row."""
    aspects = frozenset(aspects) if aspects else ALL_ASPECTS
    config = config or chk.cfg or "default"
    prog, T = engine(config)
    rows = T.get(table)
    fn = specfn or SPECS[table]
    armed = ARMED.get(table, armed_default)
    n = 0
    for r in rows:
        if only and not only(r):
            continue
        probs = [p for p in fn(r) if aspect_of(p) in aspects or p.startswith("could not be analysed")]
        if armed(r):
            n += 1
            sample = None
            if n in (1, 7):
                sample = {"table": table, "pre": r.pre, "outcomes": [o.brief() for o in r.outs][:3]}
            chk.inst(rule, r.key(), not probs, detail="; ".join(probs[:4]), sample=sample)
        else:
            # unreachable pre-state: information only
            chk.instances.append((rule + ":info", r.key(), True, False))
    chk.extra.setdefault("tables", {})[table] = {"rows": len(rows), "armed": n,
                                                 "outcomes": sum(len(r.outs) for r in rows)}
    return n


def report_automaton(chk, invariants, config=None):
    """Register the automaton's invariant verdicts owned by this property."""
    config = config or chk.cfg or "default"
    A = auto(config)
    chk.extra["automaton"] = A.summary()
    chk.extra["abstract_states"] = A.summary()["states"]
    chk.extra["transitions"] = A.summary()["transitions"]
    for a in automaton.ASSUMPTIONS:
        if a not in chk.assumptions:
            chk.assumptions.append(a)
    mine = [p for p in A.problems if p[0] in invariants]
    seen = set()
    for inv in invariants:
        ps = [p for p in mine if p[0] == inv]
        if not ps:
            chk.inst("automaton-" + inv, "all-reachable-states", True,
                     sample={"invariant": inv, "reachable_states": A.summary()["states"],
                             "transitions": A.summary()["transitions"]})
        for p in ps:
            key = "%s:%s" % (p[1], p[2][:60])
            if key in seen:
                continue
            seen.add(key)
            chk.inst("automaton-" + inv, p[1], False,
                     detail="%s; shortest operation path from allocation: %s" % (p[2], " -> ".join(map(str, p[3]))))
