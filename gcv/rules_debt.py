"""C09/C10: sign / shape analysis of the debt formula. Metrics::allocation_debt, finish_cycle,
adjust_debt and the mark_gc_* helpers are interpreted from MIR with every MetricsInner field an opaque
symbol; float arithmetic builds uninterpreted terms, comparisons fork on the ordering domain."""
import itertools
from gcv import interp
from gcv.interp import Interp, State, TOP, UNIT, adt, ref, I

MI = "metrics::MetricsInner"
PACING = "metrics::Pacing"
CREDITS = {"marked_gcs": "mark_factor", "traced_gcs": "trace_factor", "remembered_gcs": "keep_factor",
           "dropped_gcs": "drop_factor", "freed_gcs": "free_factor"}
CYCLE_COUNTERS = ["allocated_gcs", "dropped_gcs", "freed_gcs", "marked_gcs", "traced_gcs", "remembered_gcs"]


def _names(prog, adt_path):
    return [f["name"] for f in prog.all_adts[adt_path]["variants"][0]["fields"]]


def _struct_of(prog, f):
    """The crate-local struct a field holds (directly or inside a Cell), or None."""
    t = prog.ty(f["ty"]) if "ty" in f else {}
    for _ in range(3):
        if t.get("k") == "adt" and t.get("def") in ("core::cell::Cell", "core::cell::UnsafeCell", "core::cell::RefCell") and t.get("args"):
            x = t["args"][0].get("ty")
            t = prog.ty(x) if x is not None else {}
        else:
            break
    if t.get("k") == "adt" and t.get("local"):
        a = prog.all_adts.get(t["def"])
        if a and a["kind"] == "struct":
            return t["def"]
    return None


def leaf_paths(prog, adt_path=MI, prefix=()):
    """leaf field name -> index path inside MetricsInner. The counters may be grouped into nested private structs
    (and `pacing` is one already) without any behaviour changing: a leaf is known by its own name."""
    out = {}
    for i, f in enumerate(prog.all_adts[adt_path]["variants"][0]["fields"]):
        sub = _struct_of(prog, f)
        if sub:
            out.update(leaf_paths(prog, sub, prefix + (i,)))
        else:
            out[f["name"]] = prefix + (i,)
    return out


def _mk(prog, adt_path):
    fields = []
    for f in prog.all_adts[adt_path]["variants"][0]["fields"]:
        sub = _struct_of(prog, f)
        fields.append(_mk(prog, sub) if sub else ("sym", f["name"]))
    return adt(adt_path, 0, fields)


def mk_state(prog):
    st = State()
    st.mem[("mi",)] = _mk(prog, MI)
    st.mem[("m",)] = adt("metrics::Metrics", 0, (ref(("mi",), ()),))
    return st


def field(prog, st, name):
    v = st.mem[("mi",)]
    for i in leaf_paths(prog)[name]:
        v = v[3][i]
    return v


def leaf_names(prog):
    pn = set(_names(prog, PACING)) if PACING in prog.all_adts else set()
    return [n for n in leaf_paths(prog) if n not in pn]


def prims():
    def rc_deref(ip, st, args, info):
        a = args[0]
        if a[0] == "ref":
            a = ip.read(st, a[1], a[2])
        return [(st, "ret", a)]

    def lattice(op):
        def h(ip, st, args, info):
            a, b = args[0], args[1]
            # idempotence: max(max(x, c), c) = max(x, c), max(c, c) = c (clamping an already clamped value again)
            for x, y in ((a, b), (b, a)):
                if y[0] in ("f", "i") and x == y:
                    return [(st, "ret", y)]
                if y[0] in ("f", "i") and x[0] == "app" and x[1] == op and y in x[2]:
                    return [(st, "ret", x)]
            return [(st, "ret", ("app", op, (a, b)))]
        return h
    fmax, fmin = lattice("max"), lattice("min")

    def checked(opname):
        # usize::checked_add / checked_sub on opaque counters: Some(a op b), or None (the overflowing case)
        def h(ip, st, args, info):
            s2 = st.fork()
            return [(st, "ret", adt("core::option::Option", 1, (("app", opname, (args[0], args[1])),))),
                    (s2, "ret", adt("core::option::Option", 0, ()))]
        return h
    return {"<alloc::rc::Rc as core::ops::deref::Deref>::deref": rc_deref,
            "core::f64::<impl f64>::max": fmax, "core::f64::<impl f64>::min": fmin,
            "std::f64::<impl f64>::max": fmax, "std::f64::<impl f64>::min": fmin,
            "core::num::<impl usize>::checked_sub": checked("Sub"), "core::num::<impl usize>::checked_add": checked("Add")}


def interp_for(prog):
    ip = Interp(prog, prims=prims(), strict=True)
    ip.lenient_std = True
    return ip


def syms(t, out=None):
    out = out if out is not None else set()
    if isinstance(t, tuple):
        if t and t[0] == "sym":
            out.add(t[1])
        else:
            for x in t:
                syms(x, out)
    return out


def polarity(t, sign=1, under_mul=None, acc=None):
    """acc: sym -> set of (sign, frozenset(co-factors symbols))."""
    acc = acc if acc is not None else {}
    if not isinstance(t, tuple) or not t:
        return acc
    if t[0] == "sym":
        acc.setdefault(t[1], set()).add((sign, frozenset(under_mul or ())))
        return acc
    if t[0] == "app":
        op, args = t[1], t[2]
        if op in ("Add", "AddUnchecked"):
            for a in args:
                polarity(a, sign, under_mul, acc)
        elif op in ("Sub", "SubUnchecked"):
            polarity(args[0], sign, under_mul, acc)
            polarity(args[1], -sign, under_mul, acc)
        elif op in ("Mul", "MulUnchecked"):
            sa, sb = syms(args[0]), syms(args[1])
            polarity(args[0], sign, (under_mul or set()) | sb, acc)
            polarity(args[1], sign, (under_mul or set()) | sa, acc)
        elif op in ("max", "min"):
            # monotone but not linear: an input that is clamped inside the formula no longer moves the
            # result one-for-one ("grows by exactly x"), so it is recorded with a pseudo co-factor
            for a in args:
                polarity(a, sign, (under_mul or set()) | {"~" + op}, acc)
        elif op == "as_f64" or op.startswith("."):
            for a in args:
                polarity(a, sign, under_mul, acc)
        elif op == "Neg":
            polarity(args[0], -sign, under_mul, acc)
        else:
            for a in args:
                polarity(a, 0, under_mul, acc)
    return acc


def fmt(t):
    if not isinstance(t, tuple):
        return str(t)
    if t and t[0] == "sym":
        return t[1]
    if t and t[0] == "f":
        return str(t[1])
    if t and t[0] == "i":
        return str(t[1])
    if t and t[0] == "app":
        return "%s(%s)" % (t[1], ", ".join(fmt(x) for x in t[2]))
    return t[0]


def debt_outcomes(prog):
    ip = interp_for(prog)
    k = prog.seed_n["metrics::Metrics::allocation_debt"][0]
    st = mk_state(prog)
    outs = ip.run(k, [ref(("m",), ())], st)
    return [o for o in outs if o.kind == "return"], outs


# ------------------------------------------------------------------------------------------------ debt predicates
def _atom(a, b, rel):
    """Canonical atom of the ordering domain: `x - y ? 0` is `x ? y`; the textually smaller term goes first."""
    ZERO = (("f", 0.0), ("i", 0))
    flip = str.maketrans("<>", "><")
    # max(x, 0) ? 0 is a question about x: `>` iff x > 0, `=` iff x <= 0, `<` never
    for _ in range(2):
        if b in ZERO and a[0] == "app" and a[1] == "max" and len(a[2]) == 2 and any(z in ZERO for z in a[2]):
            x = [t for t in a[2] if t not in ZERO] or [ZERO[0]]
            rel = frozenset((">" if ">" in rel else "") + ("<=" if "=" in rel else ""))
            a = x[0]
        elif a in ZERO and b[0] == "app" and b[1] == "max" and len(b[2]) == 2 and any(z in ZERO for z in b[2]):
            a, b, rel = b, a, frozenset("".join(rel).translate(flip))
            continue
        break
    if b in ZERO and a[0] == "app" and a[1] == "Sub" and len(a[2]) == 2:
        a, b = a[2]
    elif a in ZERO and b[0] == "app" and b[1] == "Sub" and len(b[2]) == 2:
        a, b, rel = b[2][0], b[2][1], frozenset("".join(rel).translate(flip))
    ka, kb = fmt(a), fmt(b)
    if kb < ka:
        ka, kb, rel = kb, ka, frozenset("".join(rel).translate(flip))
    return (ka, kb), frozenset(rel)


def _conj(cons, extra=None):
    c = {}
    for (a, b), rel in list(cons.items()) + ([extra] if extra else []):
        k, r = _atom(a, b, rel)
        c[k] = c.get(k, frozenset("<=>")) & r
    return None if any(not r for r in c.values()) else c


def _positive_dnf(rets, of_debt):
    """The condition under which a function's result is positive (a debt) / true (a predicate), as a list of
    conjunctions of ordering atoms; None when a result has a form the comparison does not understand."""
    ZERO = ("f", 0.0)
    SAT = {"Eq": "=", "Ne": "<>", "Lt": "<", "Le": "<=", "Gt": ">", "Ge": ">="}
    dnf = []
    for o in rets:
        v = o.value
        if of_debt:
            if v == ZERO:
                continue
            if v[0] == "app" and v[1] == "max" and ZERO in v[2] and len(v[2]) == 2:
                x = [a for a in v[2] if a != ZERO] or [ZERO]
                c = _conj(o.st.cons, ((x[0], ZERO), frozenset(">")))
            else:
                return None
        else:
            if v == I(0):
                continue
            if v == I(1):
                c = _conj(o.st.cons)
            elif v[0] == "cmp" and v[1] in SAT:
                c = _conj(o.st.cons, ((v[2], v[3]), frozenset(SAT[v[1]])))
            else:
                return None
        if c is not None:
            dnf.append(c)
    return dnf


def _dnf_equal(d1, d2, negate2=False):
    atoms = sorted({k for d in (d1, d2) for c in d for k in c})
    if len(atoms) > 9:
        return False
    for combo in itertools.product("<=>", repeat=len(atoms)):
        a = dict(zip(atoms, combo))
        v1 = any(all(a[k] in r for k, r in c.items()) for c in d1)
        v2 = any(all(a[k] in r for k, r in c.items()) for c in d2)
        if v1 != (v2 != negate2):
            return False
    return True


def debt_predicates(prog):
    """{function: polarity}: the methods of Metrics taking only &self and returning bool that are, on the ordering
    domain, the same question as `allocation_debt() > 0.0` (polarity True) or its negation (False). Decided by
    interpreting both on opaque counters and comparing the conditions of a positive answer as propositional
    formulas over the comparisons made (x.max(0) > 0 iff x > 0; x - y > 0 iff x > y). The collector model treats
    such a predicate as a read of the debt."""
    cached = getattr(prog, "_debt_predicates", None)
    if cached is not None:
        return cached
    out = {}
    prog._debt_predicates = out
    base = "metrics::Metrics::allocation_debt"
    if base not in prog.seed_n:
        return out
    cands = []
    for n, ks in prog.seed_n.items():
        if not n.startswith("metrics::Metrics::") or "{closure" in n or n == base or not ks:
            continue
        b = prog.bodies[ks[0]]
        if b.get("argc") == 1 and prog.ty(b["locals"][0]).get("k") == "bool" and prog.ty(b["locals"][1]).get("k") == "ref":
            cands.append(n)
    if not cands:
        return out
    try:
        rets, allouts = debt_outcomes(prog)
        want = _positive_dnf(rets, True)
    except (interp.Unmodelled, interp.InterpError):
        return out
    if want is None or any(o.kind != "return" for o in allouts):
        return out
    for n in cands:
        try:
            ip = interp_for(prog)
            outs = ip.run(prog.seed_n[n][0], [ref(("m",), ())], mk_state(prog))
        except (interp.Unmodelled, interp.InterpError):
            continue
        if any(o.kind != "return" for o in outs):
            continue
        got = _positive_dnf(outs, False)
        if got is None:
            continue
        if _dnf_equal(want, got):
            out[n] = True
        elif _dnf_equal(want, got, negate2=True):
            out[n] = False
    return out


def check_predicates(chk, prog):
    """Every bool-returning question the collector puts to Metrics between two steps must be the debt question: a
    predicate that answers differently from `allocation_debt() > 0` on some counter values makes collect_debt stop
    early (debt left unpaid) or run on (work not proportional)."""
    preds = debt_predicates(prog)
    prog.edges()
    asked = sorted({e.callee for e in prog.edges() if e.callee and e.caller and e.callee.startswith("metrics::Metrics::") and e.caller.startswith("context::")
                    and e.callee in prog.seed_n and prog.bodies[prog.seed_n[e.callee][0]].get("argc") == 1
                    and prog.ty(prog.bodies[prog.seed_n[e.callee][0]]["locals"][0]).get("k") == "bool"})
    for fn in asked:
        chk.inst("debt-predicate-equivalence", fn, fn in preds,
                 detail="the collector asks `%s` between steps, and it is not the same question as allocation_debt() > 0 on "
                        "the ordering domain (the conditions of a positive answer differ)" % fn,
                 sample={"polarity": preds.get(fn)})
    chk.extra["debt_predicates"] = {k: v for k, v in preds.items()}


def check_formula(chk, prog, for_c10=False):
    fn = "metrics::Metrics::allocation_debt"
    if not chk.anchor(fn, fn in prog.seed_n):
        return
    try:
        rets, allouts = debt_outcomes(prog)
    except (interp.Unmodelled, interp.InterpError) as e:
        chk.inst("debt-formula", fn, False, detail="could not be analysed: %s" % e)
        return
    probs = []
    ZERO = ("f", 0.0)
    main = []
    empty_seen = False
    for o in rets:
        cons = {(fmt(a), fmt(b)): r for (a, b), r in o.st.cons.items()}
        tg = cons.get(("total_gcs", "0"))
        v = o.value
        if tg == frozenset("="):
            empty_seen = True
            # "zero for an arena holding no allocations" is C10's clause only
            if v != ZERO and for_c10:
                probs.append("an arena holding no allocations reports debt `%s`" % fmt(v))
            if len(cons) != 1 and for_c10:
                probs.append("the empty-arena test is not the first decision of allocation_debt")
            continue
        clamped = v == ZERO or (v[0] == "app" and v[1] == "max" and ZERO in v[2])
        if not clamped:
            probs.append("a return value is not clamped at zero: `%s`" % fmt(v))
        if v != ZERO:
            main.append(v)
    if not empty_seen and for_c10:
        probs.append("no path returns zero for total_gcs == 0")
    if any(o.kind != "return" for o in allouts):
        bad = [e for o in allouts if o.kind != "return" for e in o.ev if e[0] == "panic"]
        probs.append("allocation_debt can panic: %s" % bad[:1])
    if len(main) != 1:
        probs.append("expected one non-constant debt expression, found %d" % len(main))
    chk.inst("debt-clamped-and-zero-when-empty", fn, not probs, detail="; ".join(sorted(set(probs))[:3]),
             sample={"paths": len(rets), "expression": fmt(main[0]) if main else None})
    if len(main) != 1:
        return
    x = [a for a in main[0][2] if a != ZERO][0]
    pol = polarity(x)
    probs = []
    # "grows by exactly x after adjust_debt(x)" is C10's clause; C09's premises exclude artificial adjustments
    for debit in (("allocated_gcs", "artificial_debt") if for_c10 else ("allocated_gcs",)):
        p = pol.get(debit)
        if p != {(1, frozenset())}:
            probs.append("`%s` must enter the debt positively with unit coefficient (found %s)" % (debit, _pp(p)))
    p = pol.get("wakeup_amount")
    if p != {(-1, frozenset())}:
        probs.append("`wakeup_amount` must enter the debt negatively with unit coefficient (found %s)" % _pp(p))
    for c, f in CREDITS.items():
        p = pol.get(c)
        if not p or any(s != -1 for (s, co) in p):
            probs.append("work counter `%s` must reduce the debt (found %s): collection work would not pay debt / would "
                         "add to it" % (c, _pp(p)))
        elif any(co != frozenset([f]) for (s, co) in p):
            probs.append("work counter `%s` must be weighted by its own pacing factor `%s` (found %s)" % (c, f, _pp(p)))
    extra = set(pol) - set(CREDITS) - set(CREDITS.values()) - {"allocated_gcs", "artificial_debt", "wakeup_amount"}
    if extra:
        probs.append("unexpected inputs of the debt formula: %s" % sorted(extra))
    chk.inst("debt-formula-polarity", fn, not probs, detail="; ".join(sorted(set(probs))[:3]),
             sample={"expression": fmt(x), "polarity": {k: _pp(v) for k, v in sorted(pol.items())}})


def _pp(p):
    if not p:
        return "absent"
    return sorted(("%s%s" % ("+" if s > 0 else ("-" if s < 0 else "?"), ("*" + "*".join(sorted(co))) if co else "")) for (s, co) in p)


def finish_cycle_arg_values(prog):
    """The abstract values the `reset_debt` parameter of Metrics::finish_cycle can take: both booleans, or every
    variant of a crate-local fieldless enum (a bool may be replaced by a two-variant enum without any behaviour
    changing). [(label, value)]"""
    fn = "metrics::Metrics::finish_cycle"
    b = prog.bodies[prog.seed_n[fn][0]]
    t = prog.ty(b["locals"][2]) if len(b["locals"]) > 2 else {}
    if t.get("k") == "adt" and t.get("local"):
        a = prog.all_adts.get(t["def"])
        if a and a["kind"] == "enum" and not any(v["fields"] for v in a["variants"]):
            return [(v["name"], adt(t["def"], i, ())) for i, v in enumerate(a["variants"])]
    return [("true", I(1)), ("false", I(0))]


_fc_cache = {}


def finish_cycle_outcomes(prog, val):
    """(mode, problems, sample) for finish_cycle called with argument `val`. mode is 'reset' when the call forgets
    the outstanding debt (artificial debt 0 on every path) and 'carry' when it takes the outstanding allocation debt
    over into the next cycle; the problems are those of the better fitting reading."""
    key = (id(prog), val)
    if key in _fc_cache:
        return _fc_cache[key]
    fn = "metrics::Metrics::finish_cycle"
    ip = interp_for(prog)
    ZERO = ("f", 0.0)
    try:
        allowed_carry = {o.value for o in debt_outcomes(prog)[0]}
    except (interp.Unmodelled, interp.InterpError):
        allowed_carry = None
    st = mk_state(prog)
    try:
        outs = [o for o in ip.run(prog.seed_n[fn][0], [ref(("m",), ()), val], st) if o.kind == "return"]
    except (interp.Unmodelled, interp.InterpError) as e:
        r = (None, ["could not be analysed: %s" % e], None)
        _fc_cache[key] = r
        return r
    common = []
    as_reset = []
    as_carry = []
    if not outs:
        common.append("no normal outcome")
    for o in outs:
        for c in CYCLE_COUNTERS:
            if field(prog, o.st, c) not in (I(0),):
                common.append("cycle counter `%s` is not reset (left as %s): work of the finished cycle pays debt of "
                              "the next one" % (c, fmt(field(prog, o.st, c))))
        w = field(prog, o.st, "wakeup_amount")
        want_a = ("app", "Mul", (("app", "as_f64", (("sym", "remembered_gcs"),)), ("sym", "sleep_factor")))
        want_a2 = ("app", "Mul", (("sym", "sleep_factor"), ("app", "as_f64", (("sym", "remembered_gcs"),))))
        want_b = ("app", "as_f64", (("sym", "min_sleep"),))
        ok_w = w[0] == "app" and w[1] == "max" and set(w[2]) in ({want_a, want_b}, {want_a2, want_b})
        if not ok_w:
            common.append("wake-up amount is `%s`, specification says max(remembered * sleep_factor, min_sleep)" % fmt(w))
        a = field(prog, o.st, "artificial_debt")
        if a != ZERO:
            as_reset.append("debt is carried over (`%s`) although an atomic full cycle was performed" % fmt(a))
        if a == ("sym", "artificial_debt") or (a != ZERO and not (a[0] == "app" and a[1] == "max")):
            as_carry.append("carried-over debt is `%s`, specification says the (clamped) outstanding allocation debt" % fmt(a))
        elif allowed_carry is not None and a not in allowed_carry:
            as_carry.append("carried-over debt `%s` is not the allocation debt of the cycle that just finished (it is "
                            "computed after the cycle's own wake-up amount / counters were already replaced)" % fmt(a)[:300])
        for keep in ("total_gcs",):
            if field(prog, o.st, keep) != ("sym", keep):
                common.append("finish_cycle changed %s" % keep)
    all_zero = bool(outs) and all(field(prog, o.st, "artificial_debt") == ZERO for o in outs)
    mode = "reset" if all_zero else "carry"
    sample = fmt(field(prog, outs[0].st, "wakeup_amount")) if outs else None
    r = (mode, common + (as_reset if mode == "reset" else as_carry), sample)
    _fc_cache[key] = r
    return r


def finish_cycle_mode(prog, val):
    """1 = this argument makes finish_cycle forget the debt, 0 = carry it over, '?' = undecidable."""
    try:
        mode = finish_cycle_outcomes(prog, val)[0]
    except Exception:
        return "?"
    return {"reset": 1, "carry": 0}.get(mode, "?")


def check_finish_cycle(chk, prog):
    fn = "metrics::Metrics::finish_cycle"
    if not chk.anchor(fn, fn in prog.seed_n):
        return
    vals = finish_cycle_arg_values(prog)
    modes = {}
    for label, val in vals:
        mode, probs, sample = finish_cycle_outcomes(prog, val)
        modes[label] = mode
        # instance keys keep the historical names for the boolean form
        name = "finish_cycle(reset_debt=%s)" % ({"true": "1", "false": "0"}.get(label, label))
        if label == "true" and mode != "reset":
            # the boolean parameter is called reset_debt: `true` is specified to forget the debt
            mode, probs = "reset", [p_ for p_ in probs] + ["finish_cycle(reset_debt = true) does not forget the outstanding debt"]
        chk.inst("finish_cycle-shape", name, not probs, detail="; ".join(sorted(set(probs))[:3]),
                 sample={"argument": label, "reading": mode, "wakeup_amount": sample})
    if len(vals) >= 2 and set(modes.values()) != {"reset", "carry"}:
        chk.inst("finish_cycle-shape", "finish_cycle(modes)", False,
                 detail="finish_cycle must be able both to forget the debt (after an atomic full cycle) and to carry it over; "
                        "its argument values behave as %s" % modes)


def simp(t):
    """x + 0 = x, x - 0 = x, 0 * x = 0, as_f64(0) = 0.0 (finite values; see the assumption recorded with the rule)."""
    if not isinstance(t, tuple) or not t or t[0] != "app":
        return t
    op, args = t[1], tuple(simp(a) for a in t[2])
    zero = lambda v: v in (("f", 0.0), ("i", 0))
    if op in ("Add", "AddUnchecked") and len(args) == 2:
        if zero(args[0]):
            return args[1]
        if zero(args[1]):
            return args[0]
    if op in ("Sub", "SubUnchecked") and len(args) == 2 and zero(args[1]):
        return args[0]
    if op in ("Mul", "MulUnchecked") and len(args) == 2 and (zero(args[0]) or zero(args[1])):
        return ("f", 0.0)
    if op == "as_f64" and len(args) == 1 and zero(args[0]):
        return ("f", 0.0)
    if op in ("max", "min") and len(args) == 2 and args[0] == args[1]:
        return args[0]
    return ("app", op, args)


def check_sleep(chk, prog):
    """C09, the clauses about a finished cycle, decided on terms with the sign analysis (finite pacing values assumed):
    (i) right after a cycle that was rolled over with the debt forgotten (what the driver does after an atomic full
    cycle) the debt is zero on every path; (ii) from then on, with `a` allocations made since and no collection work,
    the debt is exactly max(a - W, 0) with W = max(survivors * sleep_factor, min_sleep): zero while a <= W (the
    collector stays asleep), positive as soon as a exceeds W."""
    fn, dn = "metrics::Metrics::finish_cycle", "metrics::Metrics::allocation_debt"
    if not (fn in prog.seed_n and dn in prog.seed_n):
        return
    ZERO = ("f", 0.0)
    reset_vals = [(lab, v) for (lab, v) in finish_cycle_arg_values(prog) if finish_cycle_outcomes(prog, v)[0] == "reset"]
    if not reset_vals:
        chk.inst("debt-after-roll-over", "finish_cycle(reset)", False, detail="no argument value makes finish_cycle forget the debt")
        return
    ip = interp_for(prog)
    W_a = ("app", "Mul", (("app", "as_f64", (("sym", "remembered_gcs"),)), ("sym", "sleep_factor")))
    W_a2 = ("app", "Mul", (("sym", "sleep_factor"), ("app", "as_f64", (("sym", "remembered_gcs"),))))
    W_b = ("app", "as_f64", (("sym", "min_sleep"),))
    for (lab, val) in reset_vals:
        try:
            posts = [o for o in ip.run(prog.seed_n[fn][0], [ref(("m",), ()), val], mk_state(prog)) if o.kind == "return"]
        except (interp.Unmodelled, interp.InterpError) as e:
            chk.inst("debt-after-roll-over", "finish_cycle(%s)" % lab, False, detail="could not be analysed: %s" % e)
            continue
        for mode in ("no-allocation", "a-allocations"):
            probs = []
            for po in posts:
                st = po.st.fork()
                st.frames = []
                st.cons = {}
                if mode == "a-allocations":
                    # `a` allocations since the roll-over: allocated_gcs = a (an unsigned count), total_gcs grows as well
                    v = st.mem[("mi",)]
                    def setf(v_, path, new):
                        if not path:
                            return new
                        f = list(v_[3])
                        f[path[0]] = setf(f[path[0]], path[1:], new)
                        return (v_[0], v_[1], v_[2], tuple(f))
                    st.mem[("mi",)] = setf(v, leaf_paths(prog)["allocated_gcs"], ("sym", "a"))
                try:
                    outs = [o for o in ip.run(prog.seed_n[dn][0], [ref(("m",), ())], st) if o.kind == "return"]
                except (interp.Unmodelled, interp.InterpError) as e:
                    probs.append("could not be analysed: %s" % e)
                    continue
                if not outs:
                    probs.append("allocation_debt has no normal outcome after the roll-over")
                for o in outs:
                    v = simp(o.value)
                    if mode == "no-allocation":
                        if v != ZERO:
                            probs.append("the debt right after a roll-over that forgets the debt can be `%s`, not zero: a debt-driven "
                                         "call would not return with zero debt after an atomic full cycle" % fmt(v)[:200])
                    else:
                        if v == ZERO:
                            continue
                        ok = False
                        if v[0] == "app" and v[1] == "max" and ZERO in v[2]:
                            x = [t_ for t_ in v[2] if t_ != ZERO]
                            x = simp(x[0]) if x else None
                            if x and x[0] == "app" and x[1] in ("Sub", "SubUnchecked") and x[2][0] == ("app", "as_f64", (("sym", "a"),)):
                                w = x[2][1]
                                ok = w[0] == "app" and w[1] == "max" and set(w[2]) in ({W_a, W_b}, {W_a2, W_b})
                        if not ok:
                            probs.append("with `a` allocations since the roll-over and no work done the debt is `%s`, specification says "
                                         "max(a - max(survivors * sleep_factor, min_sleep), 0)" % fmt(v)[:260])
            chk.inst("debt-after-roll-over", "finish_cycle(%s):%s" % (lab, mode), not probs, detail="; ".join(sorted(set(probs))[:2]),
                     sample={"roll_over_argument": lab, "case": mode})


def check_helpers(chk, prog):
    ip = interp_for(prog)
    spec = {
        "mark_gc_allocated": {"total_gcs": "Add", "allocated_gcs": "Add"},
        "mark_gc_freed": {"total_gcs": "Sub", "freed_gcs": "Add"},
        "mark_gc_dropped": {"dropped_gcs": "Add"},
        "mark_gc_marked": {"marked_gcs": "Add"},
        "mark_gc_traced": {"traced_gcs": "Add"},
        "mark_gc_untraced": {"traced_gcs": "Sub"},
        "mark_gc_remembered": {"remembered_gcs": "Add"},
    }
    names = leaf_names(prog)
    for h, want in spec.items():
        fn = "metrics::Metrics::" + h
        if not chk.anchor(fn, fn in prog.seed_n):
            continue
        st = mk_state(prog)
        try:
            outs = [o for o in ip.run(prog.seed_n[fn][0], [ref(("m",), ()), ("sym", "n")], st) if o.kind == "return"]
        except (interp.Unmodelled, interp.InterpError) as e:
            chk.inst("metric-helper-shape", fn, False, detail="could not be analysed: %s" % e)
            continue
        probs = []
        if not outs:
            probs.append("no normal outcome")
        for o in outs:
            # a path on which the helper has established that its argument is 0 may leave the counters alone
            zero_arg = any(r == frozenset("=") and {a, b} == {("sym", "n"), I(0)} for (a, b), r in o.st.cons.items())
            for n in names:
                if n == "pacing":
                    continue
                v = field(prog, o.st, n)
                if n in want:
                    # exactly `field (+|-) n` (checked / unchecked / saturating forms of the same operation accepted)
                    ok = _is_op(v, want[n], n) or (zero_arg and v == ("sym", n))
                    if not ok:
                        probs.append("`%s` becomes `%s`, specification says %s(%s, n)" % (n, fmt(v), want[n], n))
                elif v != ("sym", n):
                    probs.append("`%s` changed to `%s`" % (n, fmt(v)))
        chk.inst("metric-helper-shape", fn, not probs, detail="; ".join(sorted(set(probs))[:3]))
    fn = "metrics::Metrics::adjust_debt"
    if chk.anchor(fn, fn in prog.seed_n):
        st = mk_state(prog)
        try:
            outs = [o for o in ip.run(prog.seed_n[fn][0], [ref(("m",), ()), ("sym", "x")], st) if o.kind == "return"]
            probs = []
            for o in outs:
                for n in names:
                    if n == "pacing":
                        continue
                    v = field(prog, o.st, n)
                    if n == "artificial_debt":
                        if not _is_op(v, "Add", n, other="x"):
                            probs.append("artificial_debt becomes `%s`, specification says artificial_debt + x" % fmt(v))
                    elif v != ("sym", n):
                        probs.append("adjust_debt changed `%s`" % n)
            if not outs:
                probs.append("no normal outcome")
            chk.inst("adjust_debt-shape", fn, not probs, detail="; ".join(sorted(set(probs))[:3]))
        except (interp.Unmodelled, interp.InterpError) as e:
            chk.inst("adjust_debt-shape", fn, False, detail="could not be analysed: %s" % e)


def _is_op(v, op, name, other="n"):
    if v[0] != "app":
        return False
    # saturating / checked forms of the same operation are accepted (no alarm for a more defensive helper)
    if op == "Sub" and str(v[1]).endswith(("saturating_sub",)) and tuple(v[2]) == (("sym", name), ("sym", other)):
        return True
    if op == "Add" and str(v[1]).endswith(("saturating_add",)) and set(v[2]) == {("sym", name), ("sym", other)}:
        return True
    if v[1] in (op, op + "Unchecked") and set(v[2]) == {("sym", name), ("sym", other)}:
        return v[1].startswith("Sub") is False or v[2][0] == ("sym", name)
    # tuple projection of a checked operation: .0(OpWithOverflow(...)) is represented as app(op, ..) already
    if v[1].startswith(".") and v[2]:
        return _is_op(v[2][0], op, name, other)
    return False
