"""The primitive layer of the typestate model (DESIGN.md §3.2): the only hand-modelled functions.
Everything else in context.rs / arena.rs is interpreted from its MIR."""
from gcv import interp as I
from gcv.interp import TOP, UNIT, adt, ref, Interp, State
from gcv.model import norm

COLOURS = ["White", "WhiteWeak", "Gray", "Black"]
CSHORT = {"White": "W", "WhiteWeak": "WW", "Gray": "G", "Black": "B"}
CLONG = {v: k for k, v in CSHORT.items()}
PHASES = ["Mark", "Sweep", "Sleep", "Drop"]      # names only; indices are read from the analysed program


def variant_name(prog, defp, idx):
    """Name of variant `idx` of enum `defp` in the analysed program (declaration order may change)."""
    a = prog.all_adts.get(defp)
    if a is None or idx >= len(a["variants"]):
        return "?"
    return a["variants"][idx]["name"]


def phase_name(prog, v):
    return variant_name(prog, "context::Phase", v[2]) if v[0] == "adt" else "?"

OPT = "core::option::Option"


def none():
    return adt(OPT, 0, ())


def some(v):
    return adt(OPT, 1, (v,))


def obj(i):
    return ("obj", i)


def _obj_of(ip, st, v):
    """Resolve a GcPtr argument (by value, or behind &self / &mut self) to an object id."""
    if v[0] == "obj":
        return v[1]
    if v[0] == "adt":
        # pointer newtypes (GcPtr(NonNull(..)), Gc { ptr, .. }): the unique object leaf
        leaves = [x for x in v[3] if isinstance(x, tuple) and x and x[0] in ("obj", "adt", "ref")]
        for x in leaves:
            try:
                return _obj_of(ip, st, x)
            except I.InterpError:
                continue
    if v[0] == "ref":
        if v[1][0] == "H":
            return v[1][1]
        x = ip.read(st, v[1], v[2])
        if x[0] == "obj":
            return x[1]
    raise I.InterpError("expected a GcPtr, got %r" % (v,))


def arena_value(prog, cx=None):
    """An `Arena` value for the interpreter, built from the struct's own field list: the field that owns the collector
    context refers to the modelled context, the (possibly unsized, last) root field is an opaque root value, marker
    fields (PhantomData) are empty markers."""
    cx = cx if cx is not None else ref(("ctx",), ())
    a = prog.all_adts.get("arena::Arena")
    fields = []
    for f in (a["variants"][0]["fields"] if a else []):
        s_ = f.get("ty_s", "")
        if "Context" in s_:
            fields.append(cx)
        elif "Rootable<" in s_:
            fields.append(("sym", "root"))
        elif "PhantomData" in s_:
            fields.append(adt("core::marker::PhantomData", 0, ()))
        else:
            fields.append(TOP)
    if not fields:
        fields = [cx, ("sym", "root")]
    return adt("arena::Arena", 0, tuple(fields))


def _hdr(ip, st, v, what):
    if v[0] == "ref" and v[1][0] == "H":
        oid = v[1][1]
        o = st.objs[oid]
        if o.get("freed"):
            st.event("use_after_free", oid, what)
        return oid, o
    raise I.InterpError("expected &GcHeader, got %r" % (v,))


class GcModel:
    def __init__(self, prog, allow_panic=True, extra_prims=None, strict=True):
        self.prog = prog
        self.allow_panic = allow_panic
        prims = self.prims()
        if extra_prims:
            prims.update(extra_prims)
        from gcv import layout_terms
        for k, v in layout_terms.flag_prims(prog).items():
            prims.setdefault(k, v)
        self.ip = Interp(prog, prims=prims, opaque_call=self.opaque_call, strict=strict)
        self.ip.header_read = self._header_read
        self.ip.header_write = self._header_write
        self._codec = None
        self.ctx_def = "context::Context"
        a = prog.all_adts[self.ctx_def]
        self.ctx_fields = [f["name"] for f in a["variants"][0]["fields"]]
        self._resolve_roles(a)

    # ------------------------------------------------------------------ what a collector step reports
    CF = "core::ops::control_flow::ControlFlow"

    def step_values(self, which):
        """(worked, exhausted): the values `mark_one` / `sweep_one` return for "one unit of work done, call again" and
        for "nothing left". ControlFlow::Continue / Break on the pinned tree. When the function returns a bool or a
        private fieldless two-variant enum instead, "exhausted" is, by definition, what it returns from the state with
        nothing pending (read off its own MIR) and "worked" is the other value; that the *driver* reads them the same
        way is what the protocol exploration of do_collection then decides."""
        cache = self.__dict__.setdefault("_step_values", {})
        if which in cache:
            return cache[which]
        fn = "context::Context::" + which
        cf = (adt(self.CF, 0, (UNIT,)), adt(self.CF, 1, (UNIT,)))
        keys = self.prog.seed_n.get(fn)
        if not keys:
            cache[which] = cf
            return cf
        rt = self.prog.ty(self.prog.bodies[keys[0]]["locals"][0])
        vals = None
        if rt.get("k") == "bool":
            vals = [I.I(0), I.I(1)]
        elif rt.get("k") == "adt" and rt.get("def") != self.CF:
            a = self.prog.all_adts.get(rt["def"])
            if a and a["kind"] == "enum" and len(a["variants"]) == 2 and not any(v["fields"] for v in a["variants"]):
                vals = [adt(rt["def"], 0, ()), adt(rt["def"], 1, ())]
        if vals is None:
            cache[which] = cf
            return cf
        if which == "mark_one":
            st = self.mk_state(phase="Mark", root_needs_trace=False)
        else:
            st = self.mk_state(phase="Sweep")
        st.mem[("root",)] = ("sym", "rootval")
        args = [self.ctx_ref()] + ([ref(("root",), ())] if which == "mark_one" else [])
        outs = [o for o in self.run(fn, args, st) if o.kind == "return"]
        got = {o.value for o in outs}
        if len(got) != 1 or next(iter(got)) not in vals:
            raise I.InterpError("%s returns %s from the state with nothing pending: cannot tell which value of its result "
                                "type means exhausted" % (fn, sorted(map(str, got))))
        ex = next(iter(got))
        cache[which] = ([v for v in vals if v != ex][0], ex)
        return cache[which]

    def step_ret_map(self, which):
        w, e = self.step_values(which)
        if w[0] == "adt" and w[1] == self.CF:
            return None
        return {w: "Continue", e: "Break"}

    # ------------------------------------------------------------------ the header word
    # The accessors GcHeader::{color, set_color, needs_trace, set_needs_trace, is_live, set_live, next, set_next} are
    # primitives of the model (their encode/decode round trips are decided by the flag-encoding analysis of C17). Any
    # *other* code that reads or writes the header's fields directly (a new accessor testing one bit of the tagged
    # word, say) is interpreted from its own MIR over the concrete word: the abstract (colour, needs-trace, live) of
    # the object is encoded into the low bits with the code read off the tree's own getters, and a written word is
    # decoded back with them.
    def header_codec(self):
        if self._codec is not None:
            return self._codec
        from gcv import layout_terms as LT
        prog = self.prog
        ip = Interp(prog, prims=LT.flag_prims(prog), strict=True)
        ip.lenient_std = False
        dec = {}
        try:
            for low in range(16):
                st0, _ = LT._hdr_state(prog, low)
                c = LT._run1(ip, prog, "gc_ptr::GcHeader::color", [ref(("hdr",), ())], st0.fork()).value
                nt = LT._run1(ip, prog, "gc_ptr::GcHeader::needs_trace", [ref(("hdr",), ())], st0.fork()).value
                lv = LT._run1(ip, prog, "gc_ptr::GcHeader::is_live", [ref(("hdr",), ())], st0.fork()).value
                if c[0] != "adt" or nt[0] != "i" or lv[0] != "i":
                    raise I.InterpError("getters do not decode tag bits %d" % low)
                dec[low] = (CSHORT[variant_name(prog, "types::GcColor", c[2])], nt[1], lv[1])
        except (I.InterpError, I.Unmodelled, KeyError) as e:
            raise I.Unmodelled("raw access to a GcHeader field, and the header word's code could not be read off the "
                               "getters (%s)" % e)
        enc = {}
        for low in sorted(dec):
            enc.setdefault(dec[low], low)
        a = prog.all_adts["gc_ptr::GcHeader"]
        names = [f["name"] for f in a["variants"][0]["fields"]]
        self._codec = (enc, dec, names)
        return self._codec

    def _header_read(self, ip, st, oid, path):
        enc, dec, names = self.header_codec()
        o = st.objs[oid]
        if o.get("freed"):
            st.event("use_after_free", oid, "header word")
        if not path:
            raise I.Unmodelled("a GcHeader read as a whole value")
        f = names[path[0]]
        if f == "tagged_vtable":
            key = (o["colour"], o["nt"], o["live"])
            if key not in enc:
                return TOP
            return ("addr", "vtable", enc[key])
        if f == "next":
            n = o["next"]
            if n == "?":
                return TOP
            v = none() if n is None else some(obj(n))
            for step in path[1:]:
                v = ip.project(v, step)
            return v
        return TOP

    def _header_write(self, ip, st, oid, path, val):
        enc, dec, names = self.header_codec()
        o = st.objs[oid]
        if o.get("freed"):
            st.event("use_after_free", oid, "header word")
        f = names[path[0]] if path else None
        if f == "tagged_vtable":
            if val[0] != "addr" or val[1] != "vtable" or val[2] not in dec:
                raise I.InterpError("the tagged vtable word of object %s is overwritten with %r" % (oid, val))
            c, nt, lv = dec[val[2]]
            if c != o["colour"]:
                st.event("set_color", oid, o["colour"], c)
                o["colour"] = c
            if nt != o["nt"]:
                st.event("set_needs_trace", oid, o["nt"], nt)
                o["nt"] = nt
            if lv != o["live"]:
                st.event("set_live", oid, o["live"], lv)
                o["live"] = lv
            return
        if f == "next" and len(path) == 1 and val[0] == "adt" and val[1] == OPT:
            o["next"] = None if val[2] == 0 else (val[3][0][1] if val[3][0][0] == "obj" else "?")
            st.event("set_next", oid, o["next"])
            return
        raise I.InterpError("raw write into field %r of a GcHeader" % (f,))

    # ------------------------------------------------------------------ which field of Context plays which role
    ROLES = ("metrics", "phase", "all", "sweep", "sweep_prev", "root_needs_trace", "gray", "gray_again")

    def _resolve_roles(self, a):
        """The model speaks of eight roles of the collector context. A role is the field of that name when there is
        one; otherwise it is found by type where the type identifies it (a private field may be renamed, and the
        root flag may be a two-variant enum instead of a bool, without any behaviour changing). The polarity of an
        enum-typed root flag is read off the code: the value under which mark_one traces the root."""
        prog = self.prog
        fields = a["variants"][0]["fields"]
        role = {n: n for n in self.ROLES if n in self.ctx_fields}
        taken = set(role.values())

        def tys(f):
            return prog.ty(f["ty"]) if "ty" in f else {}

        def inner(t, wrapper):
            if t.get("k") == "adt" and t.get("def") == wrapper and t.get("args"):
                x = t["args"][0].get("ty")
                return prog.ty(x) if x is not None else {}
            return None

        def is_opt_gcptr(t):
            i = inner(t, OPT)
            return i is not None and i.get("def") == "gc_ptr::GcPtr"

        def two_variant_enum(t):
            if t.get("k") != "adt" or not t.get("local"):
                return False
            e = prog.all_adts.get(t["def"])
            return bool(e and e["kind"] == "enum" and len(e["variants"]) == 2 and not any(v["fields"] for v in e["variants"]))

        cands = {
            "metrics": [f["name"] for f in fields if tys(f).get("def") == "metrics::Metrics"],
            "phase": [f["name"] for f in fields if tys(f).get("def") == "context::Phase"],
            "sweep": [f["name"] for f in fields if is_opt_gcptr(tys(f))],
            "root_needs_trace": [f["name"] for f in fields if tys(f).get("k") == "bool" or two_variant_enum(tys(f))],
        }
        for r, names in cands.items():
            if r not in role:
                names = [n for n in names if n not in taken]
                if len(names) == 1:
                    role[r] = names[0]
                    taken.add(names[0])
        # the two queues and the two list cells have one type each: by declaration order when exactly two remain
        cells = [f["name"] for f in fields if f["name"] not in taken and (inner(tys(f), "core::cell::Cell") or {}).get("def") == OPT]
        if "all" not in role and "sweep_prev" not in role and len(cells) == 2:
            role["all"], role["sweep_prev"] = cells
        queues = [f["name"] for f in fields if f["name"] not in taken and tys(f).get("k") == "adt" and tys(f).get("local")
                  and tys(f).get("def") not in ("metrics::Metrics", "context::Phase") and not two_variant_enum(tys(f))]
        if "gray" not in role and "gray_again" not in role and len(queues) == 2:
            role["gray"], role["gray_again"] = queues
        self.role = role
        self.missing_roles = [r for r in self.ROLES if r not in role]
        self.queue_def = None
        if "gray" in role:
            self.queue_def = tys(fields[self.ctx_fields.index(role["gray"])]).get("def")
        # encoding of the root flag
        self.flag_enum = None
        self._flag_true_variant = None
        if "root_needs_trace" in role:
            t = tys(fields[self.ctx_fields.index(role["root_needs_trace"])])
            if t.get("k") != "bool":
                self.flag_enum = t["def"]

    def flag_value(self, b):
        if self.flag_enum is None:
            return I.I(1 if b else 0)
        tv = self._flag_polarity()
        return adt(self.flag_enum, tv if b else 1 - tv, ())

    def flag_decode(self, v):
        if self.flag_enum is None:
            return v[1] if v[0] == "i" else "?"
        if v[0] == "adt" and v[1] == self.flag_enum:
            return 1 if v[2] == self._flag_polarity() else 0
        return "?"

    def _flag_polarity(self):
        """Variant index of the enum-typed root flag that means `the root still has to be traced`: the one under
        which mark_one, with both queues empty, calls the root's trace."""
        if self._flag_true_variant is not None:
            return self._flag_true_variant
        hits = []
        for vi in (0, 1):
            self._flag_true_variant = vi          # provisional, so that mk_state can encode
            st = self.mk_state(phase="Mark", root_needs_trace=True)
            try:
                outs = self.ip.run(self.key_of("context::Context::mark_one"), [self.ctx_ref(), ("sym", "root")], st)
            except (I.Unmodelled, I.InterpError, KeyError):
                outs = []
            if any(e[0] == "user_trace" for o in outs for e in o.ev):
                hits.append(vi)
        if len(hits) != 1:
            self._flag_true_variant = None
            raise I.InterpError("cannot tell which value of the root flag `%s` means that the root needs tracing "
                                "(mark_one traces the root under %d of its 2 values)" % (self.role["root_needs_trace"], len(hits)))
        self._flag_true_variant = hits[0]
        return hits[0]

    # ------------------------------------------------------------------ state construction
    def color(self, c):
        return self.ip.enum("types::GcColor", CLONG.get(c, c))

    def phase(self, p):
        return self.ip.enum("context::Phase", p)

    def mk_state(self, phase="Mark", root_needs_trace=False, gray=(), gray_again=(), all_=None, sweep=None,
                 sweep_prev=None, objs=None):
        st = State()
        vals = {
            "metrics": ("sym", "metrics"),
            "phase": self.phase(phase),
            "all": some(obj(all_)) if all_ is not None else none(),
            "sweep": some(obj(sweep)) if sweep is not None else none(),
            "sweep_prev": some(obj(sweep_prev)) if sweep_prev is not None else none(),
            "root_needs_trace": self.flag_value(root_needs_trace),
            "gray": adt(self.queue_def or "context::Queue", 0, (("vec", tuple(obj(i) for i in gray)),)),
            "gray_again": adt(self.queue_def or "context::Queue", 0, (("vec", tuple(obj(i) for i in gray_again)),)),
        }
        if self.missing_roles:
            raise I.InterpError("Context has no field for the role(s) %s" % self.missing_roles)
        by_field = {self.role[r]: v for r, v in vals.items()}
        fields = []
        for n in self.ctx_fields:
            fields.append(by_field.get(n, TOP))
        st.mem[("ctx",)] = adt(self.ctx_def, 0, fields)
        for i, o in (objs or {}).items():
            d = {"colour": "W", "live": 1, "nt": 1, "next": None, "dropped": 0, "freed": 0}
            d.update(o)
            st.objs[i] = d
        return st

    def ctx_ref(self):
        return ref(("ctx",), ())

    def ctx_index(self, name):
        return self.ctx_fields.index(self.role.get(name, name))

    def ctx_get(self, st, name):
        v = st.mem[("ctx",)]
        return v[3][self.ctx_index(name)]

    def snapshot(self, st):
        """Abstract post-state of the collector (for tables)."""
        def optobj(v):
            if v[0] == "adt" and v[1] == OPT:
                return None if v[2] == 0 else (v[3][0][1] if v[3][0][0] == "obj" else "?")
            return "?"
        ph = self.ctx_get(st, "phase")
        q = lambda v: tuple(x[1] for x in v[3][0][1]) if v[0] == "adt" and v[3][0][0] == "vec" else "?"
        rn = self.ctx_get(st, "root_needs_trace")
        return {
            "phase": phase_name(self.prog, ph),
            "root_needs_trace": self.flag_decode(rn),
            "gray": q(self.ctx_get(st, "gray")),
            "gray_again": q(self.ctx_get(st, "gray_again")),
            "all": optobj(self.ctx_get(st, "all")),
            "sweep": optobj(self.ctx_get(st, "sweep")),
            "sweep_prev": optobj(self.ctx_get(st, "sweep_prev")),
            "objs": {i: dict(o) for i, o in st.objs.items()},
        }

    def key_of(self, name):
        ks = self.prog.seed_n.get(name)
        if not ks:
            raise KeyError(name)
        return ks[0]

    def run(self, name, args, st):
        return self.ip.run(self.key_of(name), args, st)

    # ------------------------------------------------------------------ opaque user code
    def opaque_call(self, ip, st, args, info):
        d = info.get("declared") or info["def"]
        if d == "collect::Collect::trace":
            st.event("user_trace", "root")
            out = [(st, "ret", UNIT)]
            if self.allow_panic:
                s2 = st.fork()
                out.append((s2, "panic", "user Collect::trace"))
            return out
        if d in ("core::ops::function::FnOnce::call_once", "core::ops::function::FnMut::call_mut",
                 "core::ops::function::Fn::call"):
            snap = self.snapshot(st) if ("ctx",) in st.mem else {}
            st.event("callback", snap.get("phase"), snap.get("root_needs_trace"))
            out = [(st, "ret", TOP)]
            if self.allow_panic:
                s2 = st.fork()
                out.append((s2, "panic", "callback"))
            return out
        if d == "barrier::Unlock::unlock_unchecked":
            st.event("unlocked")
            return [(st, "ret", ("valref", "?"))]
        return NotImplemented

    # ------------------------------------------------------------------ primitives
    def prims(self):
        m = self
        P = {}
        ip_prims = I.BASE_PRIMS

        def header(ip, st, args, info):
            oid = _obj_of(ip, st, args[0])
            if st.objs[oid].get("freed"):
                st.event("use_after_free", oid, "header")
            return [(st, "ret", ref(("H", oid), ()))]

        def erase(ip, st, args, info):
            return [(st, "ret", obj(_obj_of(ip, st, args[0])))]

        def addr_eq(ip, st, args, info):
            a = _obj_of(ip, st, args[0])
            b = _obj_of(ip, st, args[1])
            return [(st, "ret", I.I(1 if a == b else 0))]

        def color(ip, st, args, info):
            oid, o = _hdr(ip, st, args[0], "color")
            return [(st, "ret", m.color(o["colour"]))]

        def set_color(ip, st, args, info):
            oid, o = _hdr(ip, st, args[0], "set_color")
            c = args[1]
            new = CSHORT[variant_name(m.prog, "types::GcColor", c[2])]
            st.event("set_color", oid, o["colour"], new)
            o["colour"] = new
            return [(st, "ret", UNIT)]

        def getter(field, what):
            def h(ip, st, args, info):
                oid, o = _hdr(ip, st, args[0], what)
                return [(st, "ret", I.I(o[field]))]
            return h

        def setter(field, what):
            def h(ip, st, args, info):
                oid, o = _hdr(ip, st, args[0], what)
                v = args[1]
                st.event(what, oid, o[field], v[1] if v[0] == "i" else "?")
                o[field] = v[1] if v[0] == "i" else "?"
                return [(st, "ret", UNIT)]
            return h

        def next_(ip, st, args, info):
            oid, o = _hdr(ip, st, args[0], "next")
            n = o["next"]
            if n == "?":
                return [(st, "ret", TOP)]
            return [(st, "ret", none() if n is None else some(obj(n)))]

        def set_next(ip, st, args, info):
            oid, o = _hdr(ip, st, args[0], "set_next")
            v = args[1]
            if v[0] == "adt" and v[1] == OPT:
                o["next"] = None if v[2] == 0 else (v[3][0][1] if v[3][0][0] == "obj" else "?")
            else:
                o["next"] = "?"
            st.event("set_next", oid, o["next"])
            return [(st, "ret", UNIT)]

        def drop_in_place(ip, st, args, info):
            oid = _obj_of(ip, st, args[0])
            o = st.objs[oid]
            if o.get("freed"):
                st.event("use_after_free", oid, "drop_in_place")
            if o.get("dropped"):
                st.event("double_drop", oid)
            st.event("dropped", oid, o["colour"], o["live"])
            o["dropped"] = o.get("dropped", 0) + 1
            out = [(st, "ret", UNIT)]
            if m.allow_panic:
                s2 = st.fork()
                out.append((s2, "panic", "user Drop"))
            return out

        def dealloc(ip, st, args, info):
            oid = _obj_of(ip, st, args[0])
            o = st.objs[oid]
            if o.get("freed"):
                st.event("double_free", oid)
            st.event("freed", oid, o["colour"], o["live"])
            o["freed"] = o.get("freed", 0) + 1
            return [(st, "ret", UNIT)]

        def trace_value(ip, st, args, info):
            oid = _obj_of(ip, st, args[0])
            o = st.objs[oid]
            if o.get("freed") or o.get("dropped") or not o["live"]:
                st.event("trace_of_dead_value", oid)
            st.event("trace_value", oid, o["colour"])
            out = [(st, "ret", UNIT)]
            if m.allow_panic:
                s2 = st.fork()
                out.append((s2, "panic", "user Collect::trace"))
            return out

        def metric(name):
            def h(ip, st, args, info):
                n = args[1]
                st.event("metric", name, n[1] if n[0] == "i" else "?")
                return [(st, "ret", UNIT)]
            return h

        def allocation_debt(ip, st, args, info):
            st.event("debt_read")
            return [(st, "ret", TOP)]

        def finish_cycle(ip, st, args, info):
            b = args[1]
            st.event("finish_cycle", b[1] if b[0] == "i" else "?")
            return [(st, "ret", UNIT)]

        def metrics_new(ip, st, args, info):
            return [(st, "ret", ("sym", "metrics"))]

        def total_gc_count(ip, st, args, info):
            return [(st, "ret", TOP)]

        def as_ref(ip, st, args, info):
            oid = _obj_of(ip, st, args[0])
            o = st.objs[oid]
            if o.get("freed") or o.get("dropped") or not o["live"]:
                st.event("deref_of_dead_value", oid)
            st.event("value_ref", oid)
            return [(st, "ret", ("valref", oid))]

        def cell_store(name):
            def h(ip, st, args, info):
                if name.startswith("RefCell::") and args and args[0][0] == "ref" and args[0][1] in st.mem:
                    # a RefCell in the collector's own modelled memory (not inside an allocated value)
                    return (I.p_refcell_try_borrow if "try" in name else I.p_refcell_borrow)(ip, st, args, info)
                st.event("cell_store", name)
                return [(st, "ret", TOP)]
            return h

        def once_set(ip, st, args, info):
            # OnceCell::set: Ok(()) (stored) or Err(value) (already initialised)
            s2 = st.fork()
            st.event("cell_store", "OnceCell::set")
            return [(st, "ret", adt("core::result::Result", 0, (UNIT,))),
                    (s2, "ret", adt("core::result::Result", 1, (args[1],)))]

        def once_get_or_init(ip, st, args, info):
            # already initialised: closure not called; otherwise closure runs, then the value is stored
            s2 = st.fork()
            s2.event("once_already_init")
            f = args[1]
            body_key = None
            if f[0] == "adt" and str(f[1]).startswith("closure:"):
                body_key = I.closure_body_key(m.prog, f)
            out = [(s2, "ret", ("valref", "?"))]
            if body_key:
                env = st.new_alloc("env", f)
                body = m.prog.bodies[body_key]
                envt = m.prog.ty(body["locals"][1])
                a0 = ref(env, ()) if envt.get("k") == "ref" else f
                st.event("once_init_closure")
                out.append((st, "call", (body_key, [a0])))
            return out

        P["gc_ptr::GcPtr::as_ptr"] = erase
        P["gc_ptr::GcPtr::from_ptr"] = erase
        P["gc::GcStore::from_store"] = erase
        P["gc::GcStore::to_store"] = erase
        P["gc_ptr::GcPtr::as_ref"] = as_ref
        for nme in ("Cell::swap", "Cell::replace", "Cell::take", "Cell::update", "RefCell::swap", "RefCell::replace",
                    "RefCell::replace_with", "RefCell::take", "RefCell::update"):
            def mk(nme=nme):
                base = ip_prims.get("core::cell::" + nme)

                def h(ip, st, args, info):
                    # on the collector's own modelled memory: the interpreter's cell semantics; on a value inside an
                    # allocation (opaque to the model): a store event
                    if args and args[0][0] == "ref" and args[0][1] in st.mem and base is not None:
                        return base(ip, st, args, info)
                    if args and args[0][0] == "ref" and args[0][1] in st.mem:
                        return NotImplemented
                    st.event("cell_store", nme)
                    return [(st, "ret", TOP)]
                return h
            P["core::cell::" + nme] = mk()
        P["core::cell::RefCell::borrow_mut"] = cell_store("RefCell::borrow_mut")
        P["core::cell::RefCell::try_borrow_mut"] = cell_store("RefCell::try_borrow_mut")
        P["core::cell::once::OnceCell::set"] = once_set
        P["core::cell::once::OnceCell::get_or_init"] = once_get_or_init
        P["gc_ptr::GcPtr::header"] = header
        P["gc_ptr::GcPtr::erase"] = erase
        P["gc_ptr::GcPtr::addr_eq"] = addr_eq
        P["<gc_ptr::GcPtr as core::clone::Clone>::clone"] = erase
        P["gc_ptr::GcHeader::color"] = color
        P["gc_ptr::GcHeader::set_color"] = set_color
        P["gc_ptr::GcHeader::needs_trace"] = getter("nt", "needs_trace")
        P["gc_ptr::GcHeader::set_needs_trace"] = setter("nt", "set_needs_trace")
        P["gc_ptr::GcHeader::is_live"] = getter("live", "is_live")
        P["gc_ptr::GcHeader::set_live"] = setter("live", "set_live")
        P["gc_ptr::GcHeader::next"] = next_
        P["gc_ptr::GcHeader::set_next"] = set_next
        P["gc_ptr::GcPtr::drop_in_place"] = drop_in_place
        P["gc_ptr::GcPtr::dealloc"] = dealloc
        P["gc_ptr::GcPtr::trace_value"] = trace_value
        for nme in ("allocated", "dropped", "freed", "marked", "traced", "untraced", "remembered"):
            P["metrics::Metrics::mark_gc_" + nme] = metric(nme)
        P["metrics::Metrics::allocation_debt"] = allocation_debt

        def debt_predicate(ip, st, args, info):
            # a Metrics method proven to ask `allocation_debt() > 0` (rules_debt.debt_predicates): a read of the debt
            st.event("debt_read")
            s2 = st.fork()
            return [(st, "ret", I.I(1)), (s2, "ret", I.I(0))]
        try:
            from gcv import rules_debt
            for fn in rules_debt.debt_predicates(m.prog):
                P[fn] = debt_predicate
        except Exception:
            pass
        P["metrics::Metrics::finish_cycle"] = finish_cycle
        P["metrics::Metrics::new"] = metrics_new
        P["<metrics::Metrics as core::clone::Clone>::clone"] = metrics_new
        P["metrics::Metrics::total_gc_count"] = total_gc_count
        P["metrics::Metrics::arena_id"] = total_gc_count  # logging only (tracing feature)
        return P
