"""E6 wiring: run the bounded heap exploration (gcv/heap.py, DESIGN.md §11) once per analysed tree and let each property
report the invariants it owns. The exploration result is cached next to the fact files (content-addressed by the tree, the
tier and the engine's own sources), so the checks of one tree share one exploration; every check still reports what
was explored and whether it computed or reused it."""
import fcntl
import hashlib
import json
import os
import time

from gcv import facts, model

# invariant -> what it states (DESIGN.md §11)
TEXT = {
    "H1": "no object strongly reachable from the root is destructed or released, and no collector step touches a released or "
          "destructed value",
    "H2": "no value is destructed twice and no block released twice; dropping the arena destructs every live value once and "
          "releases every block once",
    "H3": "a weak pointer held by a reachable object never refers to a released block; upgrade succeeds for strongly reachable "
          "targets and never hands out a destructed one",
    "H4": "finish_cycle(); finish_cycle() leaves exactly the strongly reachable objects undestructed and releases every other "
          "block unless a reachable weak pointer refers to it",
    "H5": "when a MarkedArena is handed out no strongly reachable object is dead; a resurrected object and its strong closure "
          "are not destructed by the cycle in progress",
    "H6": "the Gc count equals the number of unreleased allocations and no counter goes below zero",
    "PANIC": "no collection call panics in collector code",
    "PANIC-mutator": "no write barrier / allocation / upgrade / resurrect call panics",
}

PARAMS = {
    # tier -> list of (label, K, depth, allow_panic, budget seconds)
    "quick": [("calm", 2, 5, False, 120), ("faults", 2, 4, True, 120)],
    "thorough": [("calm", 2, 9, False, 900), ("calm-3", 3, 5, False, 600), ("faults", 2, 6, True, 600)],
}


def _src_hash():
    h = hashlib.sha256()
    here = os.path.dirname(os.path.abspath(__file__))
    for f in ("heap.py", "heap_check.py", "gcmodel.py", "interp.py", "tables.py", "canon.py", "model.py", "layout_terms.py"):
        with open(os.path.join(here, f), "rb") as fh:
            h.update(fh.read())
    return h.hexdigest()[:12]


def explore(tier, config="default"):
    """{label: {"violations": [[inv, text, [ops...]]...], "stats": {...}, "errors": [...]}} for the current tree."""
    from gcv import heap
    repo = facts.REPO
    th = facts.tree_hash(repo)
    d = os.path.join(facts.CACHE, th)
    os.makedirs(d, exist_ok=True)
    path = os.path.join(d, "heap-%s-%s-%s%s.json" % (tier, config, _src_hash(),
                                                         ("-cap%s" % os.environ["GCV_HEAP_DEPTH_CAP"]) if os.environ.get("GCV_HEAP_DEPTH_CAP") else ""))
    with open(path + ".lock", "w") as lk:
        fcntl.flock(lk, fcntl.LOCK_EX)
        if os.path.exists(path):
            with open(path) as f:
                r = json.load(f)
            r["_reused"] = True
            return r
        prog = model.Program(facts.load(config), config)
        out = {}
        jobs = int(os.environ.get("GCV_HEAP_JOBS") or max(1, min(12, (os.cpu_count() or 2) - 2)))
        cap = int(os.environ.get("GCV_HEAP_DEPTH_CAP") or 0)     # selftest only: replaying hundreds of broken variants
        for (label, K, depth, faults, budget) in PARAMS[tier]:
            if cap:
                depth = min(depth, cap)
            h = heap.Heap(prog, K=K, allow_panic=faults)
            t0 = time.time()
            v, stats = h.explore(depth, budget, jobs=jobs)
            stats.update({"K": K, "depth": depth, "faults": faults, "jobs": jobs})
            out[label] = {"violations": [[inv, text, path_] for (inv, text), path_ in v.items()], "stats": stats,
                          "errors": h.all_errors[:10]}
        tmp = path + ".tmp%d" % os.getpid()
        with open(tmp, "w") as f:
            json.dump(out, f)
        os.replace(tmp, path)
        out["_reused"] = False
        return out


def report(chk, tier, owns, fault_owns=(), rule="heap-exploration"):
    """owns: invariants this property reports from the fault-free exploration(s); fault_owns: from the exploration with
    injected panics (C11)."""
    try:
        res = explore(tier)
    except facts.BuildError:
        raise
    reused = res.pop("_reused", False)
    chk.explain("Bounded heap exploration (E6, DESIGN.md §11): the collector's MIR is abstractly interpreted over every heap of "
                "at most K objects (colours, liveness, needs-trace, list links, strong and weak edges from the root and between "
                "objects) reachable from the empty arena by at most `depth` API operations - allocation, adoption through "
                "every sanctioned barrier path, edge removal, upgrade, resurrect, and the collection calls with the debt read "
                "nondeterministic (every stopping point) - with user Collect::trace specified as exact (it may panic after any "
                "prefix of the children in the fault exploration). The invariants are the property statements themselves, in "
                "terms of reachability from the root; end-to-end oracles (two full cycles, finish_marking, arena drop) are run "
                "from every explored state. A bounded exploration: no violation among the explored abstract heaps.")
    chk.not_decided.append("heaps with more than K objects / operation sequences longer than the explored depth (bounded exploration; "
                           "the unbounded argument is the induction of DESIGN.md §7 over the per-primitive tables)")
    for a in ("E6: user Collect::trace is exact - it reports every strong child to trace_gc and every weak child to trace_gc_weak "
              "(discharged for derived and provided impls by C15 / C16) - or panics after a prefix of them",
              "E6: the mutator reaches objects only from the root through strong edges, through a successful upgrade, or by "
              "allocating them (what the brand / borrow rules of C12 and C03 give safe code)"):
        if a not in chk.assumptions:
            chk.assumptions.append(a)
    summary = {}
    for label, r in res.items():
        st = r["stats"]
        summary[label] = {k: st.get(k) for k in ("K", "depth", "faults", "states", "transitions", "interpreter_runs", "wall_s",
                                                 "stopped_by_budget", "levels")}
        mine = fault_owns if st.get("faults") else owns
        if r["errors"]:
            chk.inst(rule, "%s:analysable" % label, False,
                     detail="the heap exploration could not interpret a transition: %s" % r["errors"][0][:400])
        by_inv = {}
        for inv, text, ops in r["violations"]:
            by_inv.setdefault(inv, []).append((text, ops))
        for inv in mine:
            vs = by_inv.get(inv, [])
            if not vs:
                chk.inst(rule, "%s:%s" % (label, inv), True,
                         sample={"invariant": TEXT.get(inv, inv), "exploration": label, "states": st.get("states"),
                                 "transitions": st.get("transitions"), "K": st.get("K"), "depth": st.get("depth")})
            for (text, ops) in vs[:4]:
                chk.inst(rule, "%s:%s:%s" % (label, inv, text[:160]), False,
                         detail="%s VIOLATED: %s. Shortest operation sequence from the empty arena: %s" % (
                             TEXT.get(inv, inv), text, " ; ".join(ops)))
        n_states = st.get("states") or 0
        chk.floor("heap-states[%s]" % label, n_states, 200 if st.get("K", 2) >= 2 else 20)
    chk.extra.setdefault("heap_exploration", {}).update(summary)
    chk.extra["heap_exploration_reused_from_cache"] = bool(reused)
