"""Builder rules on slice.rs / gc.rs (C11, C18): CFG / dataflow facts about the slice builder."""
from gcv import cfg
from gcv.model import norm

WSW = "slice::GcSliceWithHeaderSliceBuilder::write_slice_with"
SB_DROP = "<slice::GcSliceWithHeaderSliceBuilder as core::ops::drop::Drop>::drop"
SB = "slice::GcSliceWithHeaderSliceBuilder"


def _field_idx(prog, adt, name):
    a = prog.all_adts[adt]
    return [i for i, f in enumerate(a["variants"][0]["fields"]) if f["name"] == name][0]


def builder_drop_order(chk, prog, rule="builder-drop-order"):
    """What dropping a slice builder does is its drop glue: its own Drop impl (if any), then its fields in declaration
    order. Whatever the pieces are - one impl doing both jobs today, a guard field and the inner block tomorrow - no step
    that releases the block (reaches GcPtr::dealloc) may come before a step that destructs initialised parts (calls
    ptr::drop_in_place on them): the destructors would run on freed memory."""
    from gcv.interp import Interp
    prog.edges()
    ip = Interp(prog, prims={}, strict=False)
    n = 0
    for bt in (SB, "slice::GcSliceBuilder", "slice::GcStrBuilder"):
        tids = [i for i, t in enumerate(prog.types) if t.get("k") == "adt" and t.get("def") == bt]
        if not tids:
            continue
        plan = ip.drop_plan(tids[0])
        steps = []
        for (_k, impl, path) in plan:
            d = norm(impl)
            reach = prog.reachable_from([d]) if d in prog.seed_n else {}
            calls = {e.callee for e in prog.calls_from(d)} if d in prog.seed_n else set()
            releases = "gc_ptr::GcPtr::dealloc" in reach
            destructs = any(c and c.startswith("core::ptr::") and c.endswith("drop_in_place") for c in calls)
            steps.append((d, path, releases, destructs))
        n += 1
        bad = []
        released_by = None
        for (d, path, rel, des) in steps:
            if des and released_by is not None and not rel:
                bad.append("`%s` (field path %s) destructs initialised parts after `%s` has released the block" % (d, list(path), released_by))
            if rel and not des and released_by is None:
                released_by = d
            elif rel and des:
                released_by = released_by or None      # one impl doing both: its internal order is the term rule's business
        chk.inst(rule, bt, not bad, detail="; ".join(bad) + " - fields are dropped in declaration order" if bad else "",
                 sample={"type": bt, "drop_glue_steps": [{"impl": d, "field_path": list(p), "releases": r, "destructs": ds}
                                                         for (d, p, r, ds) in steps]})
    chk.floor("slice-builder-types-with-drop-glue", n, 1)


def slice_builder_unwind(chk, prog):
    prog.edges()
    builder_drop_order(chk, prog)
    if not chk.anchor(WSW, WSW in prog.seed_n) or not chk.anchor(SB_DROP, SB_DROP in prog.seed_n):
        return
    b = prog.bodies[prog.seed_n[WSW][0]]
    try:
        il = _field_idx(prog, SB, "init_length")
    except (IndexError, KeyError, TypeError):
        chk.anchor(SB + ".init_length", False)
        return
    cb = [i for i, bb in enumerate(b["blocks"]) if bb["t"] and bb["t"]["k"] == "call" and not bb["t"]["f"].get("indirect")
          and norm(bb["t"]["f"]["def"]).startswith("core::ops::function::Fn") and not bb["t"]["f"].get("resolved")]
    wr = [i for i, bb in enumerate(b["blocks"]) if bb["t"] and bb["t"]["k"] == "call" and not bb["t"]["f"].get("indirect")
          and norm(bb["t"]["f"]["def"]) in ("core::mem::maybe_uninit::MaybeUninit::write", "core::ptr::write",
                                            "core::ptr::mut_ptr::<impl *mut T>::write")]
    asg = []
    for i, bb in enumerate(b["blocks"]):
        for s in bb["s"]:
            if s["k"] == "assign" and s["p"]["p"] and s["p"]["p"][-1] == ["f", il] and s["p"]["l"] == 1:
                asg.append((i, s))
    ok = len(cb) == 1 and len(wr) >= 1 and len(asg) >= 1
    chk.inst("slice-builder:shape", WSW, ok,
             detail="expected one element-constructor call, an element write and an init_length update; found "
                    "%d/%d/%d" % (len(cb), len(wr), len(asg)))
    if not ok:
        return
    dom = cfg.dominators(b, unwind=False)
    # every update of init_length (there may be several after a refactor) must come after the constructor call
    # and an element write, and store the index of the element just written plus one
    after_write = all(any(w in dom[ab] for w in wr) and cb[0] in dom[ab] for (ab, _s) in asg)
    chk.inst("slice-builder:init_length-after-write", WSW, after_write,
             detail="init_length is updated on a path where the element has not been written yet: a panic in the "
                    "next constructor call would destruct uninitialised memory")
    chk.inst("slice-builder:init_length-is-index-plus-one", WSW, all(_is_index_plus_one(b, s_["r"]) for (_ab, s_) in asg),
             detail="init_length is not assigned `i + 1` of the element just written")
    # unwind edge of the constructor call reaches the builder's Drop
    u = cfg.unwind_succ(b["blocks"][cb[0]])
    reached = False
    if u is not None:
        for x in cfg.reach_from(b, [u], unwind=True):
            t = b["blocks"][x]["t"]
            if t and t["k"] == "drop" and prog.adt_of(t["ty"]) == SB:
                reached = True
    chk.inst("slice-builder:constructor-panic-drops-builder", WSW, reached,
             detail="the unwind edge of the element constructor does not reach the drop of the builder (the "
                    "initialised prefix and the block would leak) or the builder is forgotten too early")
    # normal completion must not drop the builder (it is consumed by assume_init)
    rets = cfg.return_blocks(b)
    norm_drop = False
    for x in cfg.reach_from(b, [0], unwind=False):
        t = b["blocks"][x]["t"]
        if t and t["k"] == "drop" and prog.adt_of(t["ty"]) == SB and not b["blocks"][x]["c"]:
            norm_drop = True
    chk.inst("slice-builder:no-drop-on-completion", WSW, not norm_drop,
             detail="the builder is dropped on a normal path of write_slice_with: a completed allocation would be "
                    "destructed and released while a Gc to it is returned")
    slice_builder_drop(chk, prog)


def slice_builder_drop(chk, prog):
    """Drop for the slice builder, interpreted on terms: whatever helpers it goes through, it destructs the value
    `header + first init_length elements` exactly once and releases the block afterwards. The prefix length may be
    clamped to the allocated length (they cannot differ: init_length counts elements written into the slice);
    orderings that contradict init_length <= allocated length are not states of a builder."""
    from gcv import interp
    from gcv.interp import Interp, State, UNIT, adt, ref
    a = prog.all_adts.get(SB)
    names = [f["name"] for f in a["variants"][0]["fields"]]
    if not chk.anchor(SB + ".init_length", "init_length" in names):
        return
    INIT, ALLOC = ("sym", "init_length"), ("sym", "allocated_len")

    def ev(name, ret=UNIT):
        def h(ip, st, args, info):
            st.event(name, args[0] if args else None)
            return [(st, "ret", ret)]
        return h

    def term(name):
        def h(ip, st, args, info):
            return [(st, "ret", ("app", name, tuple(args)))]
        return h

    def const(v):
        return lambda ip, st, args, info: [(st, "ret", v)]
    prims = {
        "gc::GcBuilder::as_ptr": const(("sym", "whole")),
        "slice::GcSliceWithHeaderSliceBuilder::slice_ptr": const(("sym", "slice_ptr")),
        "slice::SliceWithHeader::ptr_to_thin": term("thin"),
        "slice::SliceWithHeader::ptr_from_thin": term("fat"),
        "core::ptr::drop_in_place": ev("destruct"),
        "core::ptr::mut_ptr::<impl *mut T>::drop_in_place": ev("destruct"),
        "core::mem::manually_drop::ManuallyDrop::drop": ev("release"),
        "<gc::GcBuilder as core::ops::drop::Drop>::drop": ev("release"),
        "core::ptr::mut_ptr::<impl *mut [T]>::len": const(ALLOC),
        "core::ptr::const_ptr::<impl *const [T]>::len": const(ALLOC),
        "core::ptr::non_null::NonNull::<[T]>::len": const(ALLOC),
        "core::slice::<impl [T]>::len": const(ALLOC),
        "core::ptr::metadata::metadata": const(ALLOC),
    }

    def needs_drop(ip, st, args, info):
        # mem::needs_drop::<X>(): on the `false` answer destructing a value of type X is a no-op, so leaving it out is
        # the same behaviour; remember for which X the path assumed it
        ga = info["f"].get("args", [])
        x = prog.ty(ga[0]["ty"]) if ga and "ty" in ga[0] else {}
        s2 = st.fork()
        s2.g["no_drop_glue"] = tuple(sorted(set(s2.g.get("no_drop_glue", ())) | {x.get("s", "?")}))
        return [(st, "ret", interp.I(1)), (s2, "ret", interp.I(0))]
    prims["core::mem::needs_drop"] = needs_drop
    prims["core::intrinsics::needs_drop"] = needs_drop
    # the value the builder holds: the pointee of GcBuilder::as_ptr in the Drop body (SliceWithHeader<H, E>)
    vt = prog.all_adts.get("slice::SliceWithHeader")
    value_tys = set()
    if vt:
        ps = [g for g in ("H", "E")]
        value_tys = {"slice::SliceWithHeader<%s>" % ", ".join(ps)}
    ip = Interp(prog, prims=prims, strict=True)
    ip.lenient_std = True
    st = State()
    st.mem[("b",)] = adt(SB, 0, tuple(INIT if n == "init_length" else ("sym", n) for n in names))
    try:
        outs = ip.run(prog.seed_n[SB_DROP][0], [ref(("b",), ())], st)
    except (interp.Unmodelled, interp.InterpError) as e:
        chk.inst("slice-builder:drop-prefix-is-init_length", SB_DROP, False, detail="could not be analysed: %s" % e)
        return
    probs_len, probs_order = [], []
    n = 0
    for o in outs:
        rel = None
        for (x, y), r in o.st.cons.items():
            if (x, y) == (INIT, ALLOC):
                rel = r
            elif (x, y) == (ALLOC, INIT):
                rel = frozenset("".join(r).translate(str.maketrans("<>", "><")))
        if rel is not None and rel <= frozenset(">"):
            continue            # init_length > allocated length: not a builder state
        n += 1
        if o.kind != "return":
            probs_order.append("the builder's Drop can panic (%s)" % [e for e in o.ev if e[0] == "panic"][:1])
            continue
        d = [i for i, e in enumerate(o.ev) if e[0] == "destruct"]
        rl = [i for i, e in enumerate(o.ev) if e[0] == "release"]
        glue_free = set(o.st.g.get("no_drop_glue", ()))
        if not d and len(rl) == 1 and (glue_free & value_tys or {"H", "E"} <= glue_free):
            continue            # nothing to destruct: the held value's type has no drop glue on this path
        if len(d) != 1 or len(rl) != 1 or d[0] > rl[0]:
            probs_order.append("the builder's Drop does not destruct the initialised part (once) before releasing the block "
                               "(%d destruct, %d release event(s))" % (len(d), len(rl)))
        for i in d:
            lens = _fat_lengths(o.ev[i][1])
            good = {INIT, ("app", "min", (INIT, ALLOC)), ("app", "min", (ALLOC, INIT))}
            if rel is not None and rel <= frozenset("<="):
                good.add(INIT)
            if rel is not None and rel <= frozenset("="):
                good.add(ALLOC)
            if not lens or not all(l in good for l in lens):
                probs_len.append("the number of elements destructed by the builder's Drop is not init_length (it is %s)" % (
                    [_fmt(l) for l in lens] or "not a prefix of the allocated value"))
    if n == 0:
        probs_order.append("no outcome explored")
    chk.inst("slice-builder:drop-prefix-is-init_length", SB_DROP, not probs_len, detail="; ".join(sorted(set(probs_len))[:2]))
    chk.inst("slice-builder:destruct-then-release", SB_DROP, not probs_order, detail="; ".join(sorted(set(probs_order))[:2]))


def _fat_lengths(v, out=None):
    out = out if out is not None else []
    if isinstance(v, tuple):
        if len(v) == 3 and v[0] == "app" and v[1] == "fat" and len(v[2]) == 2:
            out.append(v[2][1])
        else:
            for x in v:
                _fat_lengths(x, out)
    return out


def _fmt(t):
    if isinstance(t, tuple) and t and t[0] == "sym":
        return t[1]
    if isinstance(t, tuple) and t and t[0] == "app":
        return "%s(%s)" % (t[1], ", ".join(_fmt(x) for x in t[2]))
    if isinstance(t, tuple) and t and t[0] in ("i", "f"):
        return str(t[1])
    return str(t)


def pointer_range_loops(chk, prog, rule="no-pointer-range-loop-over-generic-elements"):
    """A loop whose exit test compares two raw pointers to a *generic* element type (`while next != end` with
    `end = start.add(len)`) runs zero times when the element type is zero-sized, whatever `len` is: `add` does not
    move a pointer to a ZST. In a builder this completes an allocation none of whose elements was constructed (seed
    C18-c). Counting loops and the std slice iterators (which special-case ZSTs) are not affected."""
    n = 0
    for d_raw, key in prog.seed.items():
        b = prog.bodies[key]
        if not b["span"]["f"].endswith((".rs",)):
            continue
        n += 1
        defs = {}
        for bb in b["blocks"]:
            for st in bb["s"]:
                if st["k"] == "assign" and not st["p"]["p"]:
                    defs.setdefault(st["p"]["l"], []).append(st["r"])

        def ptr_to_param(op):
            if op.get("k") not in ("copy", "move") or op["p"]["p"]:
                return False
            try:
                t = prog.ty(b["locals"][op["p"]["l"]])
            except (IndexError, KeyError):
                return False
            inner = None
            if t.get("k") == "ptr":
                inner = prog.ty(t["ty"])
            elif t.get("k") == "adt" and t.get("def") == "core::ptr::non_null::NonNull" and t.get("args"):
                x = t["args"][0].get("ty")
                inner = prog.ty(x) if x is not None else None
            return bool(inner) and inner.get("k") == "param"

        def is_ptr_cmp(op, depth=0):
            if depth > 4 or op.get("k") not in ("copy", "move") or op["p"]["p"]:
                return False
            for r in defs.get(op["p"]["l"], []):
                if r["k"] == "binop" and r["op"] in ("Eq", "Ne", "Lt", "Le", "Gt", "Ge") and ptr_to_param(r["a"]) and ptr_to_param(r["b"]):
                    return True
                if r["k"] in ("use", "unop") and is_ptr_cmp(r["o"], depth + 1):
                    return True
            return False
        bad = []
        for bi, bb in enumerate(b["blocks"]):
            t = bb["t"]
            if t and t["k"] == "switch" and is_ptr_cmp(t["o"]) and bi in cfg.reach_from(b, cfg.normal_succs(bb), unwind=False):
                bad.append(t["l"])
        if bad:
            chk.inst(rule, norm(d_raw), False,
                     detail="`%s` has a loop whose exit test compares raw pointers to a generic element type (line %s): for a "
                            "zero-sized element type the loop body never runs, so no element is constructed although the "
                            "allocation is completed with its full length" % (norm(d_raw), bad),
                     loc="%s:%s" % (b["span"]["f"], bad[0]))
    chk.inst(rule, "crate", True, nontrivial=False, sample={"bodies_scanned": n})


# allocation functions that (documentedly) do not keep the value they are given
# (ZstCache::alloc / alloc_static used to be excepted here - "the passed zero-sized value is given up right there, reviewed".
# It was a genuine defect (F10): the returned Gc<T> referred to a destructed value. Since fix 1f3a763 the cached pointer is
# used only where needs_drop::<T>() is false, which the rule below understands; the exception table is empty.)
VALUE_NOT_KEPT = {}


def value_moved_into_block(chk, prog, rule="value-moved-into-block"):
    """A function that is handed a value by the caller and returns a pointer / builder for an allocation of that
    value's type must *move* the value into the block on every normal path: a path on which the parameter is still
    owned by the function at its end destructs the value right there (inside the mutation callback) while the block
    registered with the arena is flagged live - the value is destructed again by the sweep or the arena drop."""
    n = 0
    for f in prog.f["fns"]:
        ins = f.get("inputs") or []
        out = f.get("output") or {}
        out_s = out.get("s", "")
        if not ("gc::Gc<" in out_s or "Builder<" in out_s) or f["n"] in VALUE_NOT_KEPT:
            continue
        if not (f.get("exported") or f.get("reachable")):
            # a private helper reachable only through the reviewed exceptions is part of them
            from gcv.props import common as _common
            if _common.escapes(prog, f["n"], set(VALUE_NOT_KEPT)) is None and list(prog.callers_of(f["n"])):
                continue
        for i, a in enumerate(ins):
            t = prog.ty(a["ty"])
            if t.get("k") != "param":
                continue
            import re as _re
            if not _re.search(r"(^|[^A-Za-z0-9_])%s($|[^A-Za-z0-9_])" % _re.escape(t["s"]), out_s):
                continue            # e.g. an element-constructor closure: not the allocated value
            for key in prog.seed_n.get(f["n"], []):
                b = prog.bodies[key]
                if b["def"] != f["path"]:
                    continue
                n += 1
                owned = {i + 1}
                changed = True
                while changed:
                    changed = False
                    for bb in b["blocks"]:
                        for st in bb["s"]:
                            if st["k"] == "assign" and not st["p"]["p"] and st["r"]["k"] == "use" and \
                                    st["r"]["o"].get("k") == "move" and not st["r"]["o"]["p"]["p"] and \
                                    st["r"]["o"]["p"]["l"] in owned and st["p"]["l"] not in owned:
                                owned.add(st["p"]["l"])
                                changed = True
                # blocks entered only after `needs_drop::<T>()` answered false for the value's own type: dropping the value
                # there runs no destructor - nothing the block would have to keep
                glue_free = set()
                for bi_, bb_ in enumerate(b["blocks"]):
                    t_ = bb_["t"]
                    if t_ and t_["k"] == "call" and norm((t_["f"].get("resolved") or t_["f"]).get("def", "")) in (
                            "core::mem::needs_drop", "core::intrinsics::needs_drop") and t_.get("t") is not None:
                        ga = [a_ for a_ in t_["f"].get("args", []) if "ty" in a_]
                        if not ga or prog.ty(ga[0]["ty"]).get("s") != t["s"]:
                            continue
                        res = t_["d"]["l"]
                        # follow to the switch on the result (possibly through a `!`)
                        for bj, bbj in enumerate(b["blocks"]):
                            tj = bbj["t"]
                            if not tj or tj["k"] != "switch" or tj["o"].get("k") not in ("copy", "move"):
                                continue
                            src = tj["o"]["p"]["l"]
                            negated = False
                            if src != res:
                                for s_ in bbj["s"]:
                                    if s_["k"] == "assign" and s_["p"]["l"] == src and s_["r"]["k"] == "unary" and \
                                            s_["r"].get("op") == "Not" and s_["r"]["o"].get("p", {}).get("l") == res:
                                        negated = True
                                if not negated:
                                    continue
                            zero_target = tj["targets"][tj["vals"].index(0)] if 0 in tj["vals"] else None
                            false_edge = tj["otherwise"] if negated else zero_target
                            if false_edge is not None:
                                dom_ = cfg.dominators(b, unwind=False)
                                glue_free |= {x for x in range(len(b["blocks"])) if false_edge in dom_[x]}
                bad = []
                for x in cfg.reach_from(b, [0], unwind=False):
                    tt = b["blocks"][x]["t"]
                    if tt and tt["k"] == "drop" and not b["blocks"][x].get("c") and tt["p"]["l"] in owned and x not in glue_free:
                        bad.append(tt["l"])
                chk.inst(rule, "%s(%s)" % (f["n"], a.get("name") or i), not bad,
                         detail="`%s` can reach its end still owning the value it was given for allocation (drop at line %s): "
                                "the value is destructed inside the callback while its block is registered as live, and again "
                                "by the collector" % (f["n"], bad),
                         sample={"function": f["n"], "parameter": i, "type": t["s"]})
    chk.floor("value-taking-allocation-functions", n, 3)


def _defs_of(body, local):
    out = []
    for bb in body["blocks"]:
        for s in bb["s"]:
            if s["k"] == "assign" and s["p"]["l"] == local and not s["p"]["p"]:
                out.append(("rv", s["r"]))
        t = bb["t"]
        if t and t["k"] == "call" and t["d"]["l"] == local and not t["d"]["p"]:
            out.append(("call", t))
    return out


def _is_index_plus_one(body, r, depth=0):
    if depth > 6:
        return False
    if r["k"] == "binop" and r["op"].startswith("Add"):
        ops = [r["a"], r["b"]]
        return any(o.get("k") == "const" and o.get("v", {}).get("int") == 1 for o in ops)
    if r["k"] == "use" and r["o"].get("k") in ("copy", "move"):
        pl = r["o"]["p"]
        for kind, d in _defs_of(body, pl["l"]):
            if kind == "rv" and _is_index_plus_one(body, d, depth + 1):
                return True
    return False


def _depends_only_on_field(body, op, field, depth=0):
    if depth > 6:
        return False
    if op.get("k") not in ("copy", "move"):
        return False
    pl = op["p"]
    if pl["p"] and pl["p"][-1] == ["f", field]:
        return True
    if pl["p"]:
        return False
    ds = _defs_of(body, pl["l"])
    if not ds:
        return False
    for kind, d in ds:
        if kind != "rv" or d["k"] != "use":
            return False
        if not _depends_only_on_field(body, d["o"], field, depth + 1):
            return False
    return True


# ------------------------------------------------------------------------------------------------ block exposure
BUILDER_TYPES = ("gc::GcBuilder", "slice::GcSliceWithHeaderBuilder", "slice::GcSliceWithHeaderSliceBuilder",
                 "slice::GcSliceBuilder", "slice::GcStrBuilder")
POINTER_CTORS = ("gc::Gc::from_ptr", "gc::Gc::from_ptr_with_kind", "gc::Gc::from_thin_ptr_with_kind",
                 "gc_weak::GcWeak::from_ptr", "gc_weak::GcWeak::from_ptr_with_kind")
DISARMING = ("core::mem::manually_drop::ManuallyDrop::new", "core::mem::manually_drop::ManuallyDrop::take")


def _builder_ty(prog, tid, depth=0):
    """Is this (a reference to / a ManuallyDrop of) one of the builder types?"""
    t = prog.ty(tid) if tid is not None else {}
    if t.get("k") in ("ref", "ptr") and depth < 3:
        return _builder_ty(prog, t.get("ty"), depth + 1)
    if t.get("k") == "adt":
        if t.get("def") in BUILDER_TYPES:
            return True
        if t.get("def", "").endswith("ManuallyDrop") and t.get("args") and depth < 3:
            return _builder_ty(prog, t["args"][0].get("ty"), depth + 1)
    return False


def block_exposed_only_after_disarm(chk, prog, rule="block-exposed-only-after-disarm"):
    """A block owned by a builder is released by the builder's Drop - on any unwinding out of the function that holds
    it. A Gc / GcWeak to that block may therefore be made only once the builder can no longer release it: after it has
    been disarmed (mem::forget, ManuallyDrop) or consumed by a completion function. A pointer made earlier and handed
    to user code (a constructor callback) dangles when that code panics: the block goes back to the allocator inside
    the mutation callback while a pointer obtained in it is still held."""
    from gcv import coverage
    n = 0
    examined = 0
    # pointer constructors by signature: crate functions that make a Gc / GcWeak out of a raw or GcPtr pointer
    ctors = set(POINTER_CTORS)
    for f in prog.f["fns"]:
        ins = f.get("inputs") or []
        out_s = (f.get("output") or {}).get("s", "")
        if ins and out_s.startswith(("gc::Gc<", "gc_weak::GcWeak<")) and \
                ins[0]["s"].startswith(("*const ", "*mut ", "gc_ptr::GcPtr<", "core::ptr::non_null::NonNull<")):
            ctors.add(f["n"])
    for key, body in prog.bodies.items():
        if "promoted[" in key or not body.get("local"):
            continue
        # every local of a builder type (parameters, and builders made in the function itself)
        holders = {i for i in range(1, len(body["locals"])) if _builder_ty(prog, body["locals"][i])}
        if not holders:
            continue
        examined += 1
        defs = coverage._defs(body)

        def origin(l, seen=()):
            """Follow plain moves / copies / reborrows back to the local the value first lived in."""
            ds = defs.get(l, [])
            if len(ds) == 1 and ds[0][0] == "rv" and l not in seen:
                r = ds[0][1]
                src = None
                if r["k"] in ("use", "cast") and r["o"].get("k") in ("copy", "move") and not [x for x in r["o"]["p"]["p"] if x[0] != "d"]:
                    src = r["o"]["p"]["l"]
                elif r["k"] in ("ref", "rawptr") and not [x for x in r["p"]["p"] if x[0] != "d"]:
                    src = r["p"]["l"]
                if src is not None and src in holders:
                    return origin(src, seen + (l,))
            return l

        def derives(op, depth=0, consumed=False, seen=frozenset()):
            """{(holder origin, consumed?)}: the builders an operand's value is taken from, and whether a disarming /
            consuming step lies on the way."""
            if op.get("k") not in ("copy", "move") or depth > 16:
                return set()
            l = op["p"]["l"]
            if l in holders:
                o_ = origin(l)
                t = prog.ty(body["locals"][o_])
                md = t.get("k") == "adt" and t.get("def", "").endswith("ManuallyDrop")
                # a reference obtained by a call (`Deref::deref(&manually_drop)`, an accessor): look through it
                if not md and o_ not in seen:
                    up = set()
                    for kind, d, _bi in defs.get(o_, []):
                        if kind == "call" and d["args"]:
                            up |= derives(d["args"][0], depth + 1, consumed, seen | {o_})
                    if up:
                        return up
                return {(o_, consumed or md)}
            if l in seen:
                return set()
            seen = seen | {l}
            out = set()
            for kind, d, _bi in defs.get(l, []):
                if kind == "rv":
                    if d["k"] in ("use", "cast"):
                        out |= derives(d["o"], depth + 1, consumed, seen)
                    elif d["k"] in ("ref", "rawptr"):
                        out |= derives({"k": "copy", "p": d["p"]}, depth + 1, consumed, seen)
                    elif d["k"] == "agg":
                        for o in d["ops"]:
                            out |= derives(o, depth + 1, consumed, seen)
                else:
                    t = d
                    if not t["args"]:
                        continue
                    f = t["f"]
                    r = f.get("resolved")
                    name = norm(r["def"]) if r else norm(f.get("def", ""))
                    c2 = consumed or name in DISARMING
                    fs = prog.fn_n.get(name)
                    if fs and (fs[0].get("inputs") or []):
                        t0 = prog.ty(fs[0]["inputs"][0]["ty"])
                        if t0.get("k") == "adt" and t0.get("def") in BUILDER_TYPES:
                            c2 = True           # a completion function took the builder by value
                    out |= derives(t["args"][0], depth + 1, c2, seen)
            return out
        dom = None
        exposures = []          # (block, line, operand, what)
        for bi, bb in enumerate(body["blocks"]):
            if bb.get("c"):
                continue
            for st in bb["s"]:
                if st["k"] == "assign" and st["r"]["k"] == "agg" and st["r"]["ak"].get("def") in ("gc::Gc", "gc_weak::GcWeak"):
                    for o in st["r"]["ops"]:
                        exposures.append((bi, st.get("l"), o, st["r"]["ak"]["def"]))
            t = bb["t"]
            if t and t["k"] == "call" and t["args"]:
                f = t["f"]
                r = f.get("resolved")
                name = norm(r["def"]) if r else norm(f.get("def", ""))
                if name in ctors:
                    exposures.append((bi, t.get("l"), t["args"][0], name))
        if not exposures:
            continue
        # disarming calls: mem::forget(builder)
        forgets = {}
        for bi, bb in enumerate(body["blocks"]):
            t = bb["t"]
            if t and t["k"] == "call" and t["args"] and norm((t["f"].get("resolved") or t["f"]).get("def", "")) == "core::mem::forget":
                for (h, _c) in derives(t["args"][0]):
                    forgets.setdefault(h, set()).add(bi)
        for (bi, line, op, what) in exposures:
            live = {h for (h, consumed) in derives(op) if not consumed}
            if not live:
                continue
            n += 1
            if dom is None:
                dom = cfg.dominators(body, unwind=False)
            bad = sorted(h for h in live if not any(fb in dom[bi] and fb != bi for fb in forgets.get(h, ())))
            chk.inst(rule, "%s:%s" % (norm(body["def"]), what.split("::")[-1]), not bad,
                     detail="`%s` makes a %s pointer to the block of a builder that can still release it (line %s: the "
                            "builder is neither forgotten nor consumed before): if code run afterwards unwinds, the "
                            "builder's Drop gives the block back to the allocator while the pointer is held" % (
                                norm(body["def"]), what, line),
                     loc="%s:%s" % (body["span"]["f"], line), sample={"function": norm(body["def"]), "pointer": what})
    chk.floor("functions-holding-a-builder", examined, 20)
    chk.extra["builder_block_exposures"] = {"functions_holding_a_builder": examined, "exposures_of_a_held_block": n,
                                            "pointer_constructors": sorted(ctors)}


# ------------------------------------------------------------------------------------------------ variance of the builders

def builders_invariant_in_value_type(chk, prog, rule="builders-invariant-in-value-type"):
    """A builder is registered - vtable (trace / drop entries), needs-trace flag - for the value type it has when it is
    made, and written with the value type it has when it is completed. The two are the same type only if the builder
    is *invariant* in every type parameter the value type is made of (as Gc itself is): with a covariant parameter,
    plain subtyping turns a builder registered for `Static<Box<dyn Fn() + 'static>>` (nothing to trace) into one that
    accepts a closure owning Gc pointers. The same holds for the metadata strategy parameters (M, P): the block is laid
    out, and its per-value metadata written, for the P the builder is made with and read back through the P of the
    finished Gc (F16 - they were exempt by name until a hunter showed two strategies related by subtyping). Every type
    parameter must be invariant (variances from the compiler)."""
    EXEMPT = set()
    n = 0
    for bt in BUILDER_TYPES:
        a = prog.adts.get(bt)
        if a is None:
            continue
        for g in a.get("generics", []):
            if g.get("kind") != "type" or g.get("name") in EXEMPT:
                continue
            n += 1
            chk.inst(rule, "%s<%s>" % (bt, g["name"]), g.get("variance") == "o",
                     detail="type parameter %s of %s has variance `%s` (must be invariant `o`): between registration and "
                            "completion the builder's value type can be changed by subtyping, so the allocation is registered "
                            "(vtable, needs-trace flag) for one type and written as another" % (g["name"], bt, g.get("variance")),
                     loc="%s:%s" % (a["span"]["f"], a["span"]["l"]), sample={"type": bt, "param": g["name"], "variance": g.get("variance")})
    chk.floor("builder-value-type-parameters", n, 10)
