"""Per-object typestate automaton (DESIGN.md §3.3 point 3): the union of the extracted transition
tables, with the phase protocol, explored by fixpoint from the allocation states. Safety invariants
S1..S8 are evaluated on every reachable state / transition.

State = (phase, colour, live, nt, queued, credited, region)
  queued   '-' | 'g' (gray queue) | 'ga' (gray_again queue)
  credited 0/1: a `traced` credit is outstanding for this object in the current cycle
  region   'out' | 'pend' (in the sweep snapshot, not yet visited by the cursor)
Terminal pseudo-states: 'FREED', 'UNLINKED' (destructor panicked after unlink: leaked, never revisited).

Applicability assumptions (printed in the evidence of every check using the automaton):
  A1  in Sweep, a not-yet-swept object that the mutator can still name is Black (strongly) or
      Black/WhiteWeak (weakly) — the conclusion of the tri-colour argument;
  A2  strong operations (strong trace, strong barriers, resurrect) apply only to objects whose value
      has not been destructed (live=1): no strong pointer to a shell is reachable."""
import collections

ASSUMPTIONS = [
    "A1: during Sweep a not-yet-swept object still nameable by the mutator is Black (via Gc) or Black/WhiteWeak (via GcWeak)",
    "A2: strong operations are applied only to objects with live=1 (no strong pointer to a shell is reachable)",
]


class Trans:
    __slots__ = ("src", "op", "dst", "events", "kind", "row")

    def __init__(self, src, op, dst, events, kind, row):
        self.src, self.op, self.dst, self.events, self.kind, self.row = src, op, dst, events, kind, row


class Automaton:
    def __init__(self, T):
        self.T = T
        self.idx = {}
        self.trans = []
        self.reach = {}
        # colours an *other* object handed to a mutator operation can have: those of the reachable states of the same
        # phase in which the mutator can name the object (grows with the exploration; joint fixpoint)
        self.present = {ph: {"strong": set(), "weak": set()} for ph in ("Sleep", "Mark", "Sweep")}
        self.problems = []  # (invariant, op-key, text, path)
        self._index()
        self._explore()

    # ------------------------------------------------------------------ table lookup
    def _index(self):
        for name in ("trace", "trace_weak", "upgrade", "resurrect", "backward_barrier", "backward_barrier_weak",
                     "forward_barrier", "forward_barrier_weak", "mark_one", "sweep_one"):
            d = {}
            for r in self.T.get(name):
                d[tuple(sorted(r.pre.items()))] = r
            self.idx[name] = d

    def row(self, name, **pre):
        return self.idx[name].get(tuple(sorted(pre.items())))

    # ------------------------------------------------------------------ successor computation
    def _apply(self, s, row, subject, opname):
        """Project each outcome of a table row onto the subject object: yields (dst, events, kind)."""
        (ph, col, live, nt, q, cred, reg) = s
        res = []
        if row is None:
            return res
        if row.err:
            self.problems.append(("ANALYSIS", opname, "row could not be analysed: %s" % row.err, s))
            return res
        for out in row.outs:
            po = out.post["objs"][subject]
            if po.get("freed"):
                res.append(("FREED", out, out.kind))
                continue
            # queue membership is projected relatively: the table row's initial queues need not contain
            # the subject, so only a push / pop performed by this run changes it
            def cnt(snap, k):
                return list(snap[k]).count(subject) if snap[k] != "?" else 0
            g0, g1 = cnt(row.init, "gray"), cnt(out.post, "gray")
            a0, a1 = cnt(row.init, "gray_again"), cnt(out.post, "gray_again")
            nq = q
            popped = (g1 < g0) or (a1 < a0)
            if popped:
                nq = "-"
            if (g1 > g0) or (a1 > a0):
                if nq != "-":
                    self.problems.append(("S7", opname, "object pushed onto a gray queue while already queued", s))
                nq = "g" if g1 > g0 else "ga"
            ncred = cred
            for e in out.ev:
                if e[0] == "metric" and e[1] == "traced":
                    if ncred == 1:
                        self.problems.append(("S4", opname, "second `traced` credit for an object that already "
                                              "holds one", s))
                    ncred = 1
                if e[0] == "metric" and e[1] == "untraced":
                    if ncred == 0:
                        self.problems.append(("S4", opname,
                                              "`mark_gc_untraced` fires for an object that holds no trace credit "
                                              "(traced_gcs underflows: debug panic / release wrap-around)", s))
                    ncred = 0
            dst = (out.post["phase"], po["colour"], po["live"], po["nt"], nq, ncred, reg)
            res.append((dst, out, out.kind))
        return res

    @staticmethod
    def accessible(s):
        (ph, col, live, nt, q, cred, reg) = s
        strong_ok = live == 1 and not (ph == "Sweep" and reg == "pend" and col != "B")
        weak_ok = not (ph == "Sweep" and reg == "pend" and col not in ("B", "WW"))
        return strong_ok, weak_ok

    def succ(self, s):
        (ph, col, live, nt, q, cred, reg) = s
        out = []

        def add(op, row, subject=1, fix=None):
            for (dst, o, kind) in self._apply(s, row, subject, op):
                if fix and dst not in ("FREED",):
                    dst = fix(dst, o)
                out.append(Trans(s, op, dst, o.ev, kind, row))

        strong_ok, weak_ok = self.accessible(s)
        others_strong = self.present[ph]["strong"]

        # ---- phase protocol (validated against do_collection's MIR by the C08 check)
        if ph == "Sleep":
            out.append(Trans(s, "phase:Sleep->Mark", ("Mark", col, live, nt, q, cred, reg), [], "return", None))
        if ph == "Mark" and q == "-":
            out.append(Trans(s, "phase:Mark->Sweep", ("Sweep", col, live, nt, q, cred, "pend"), [], "return", None))
        if ph == "Sweep" and reg != "pend":
            out.append(Trans(s, "phase:Sweep->Sleep", ("Sleep", col, live, nt, q, 0, "out"), [], "return", None))

        # ---- collector, marking
        if ph == "Mark":
            if live == 1:
                add("collector:trace", self.row("trace", phase=ph, colour=col, live=live, nt=nt))
            add("collector:trace_weak", self.row("trace_weak", phase=ph, colour=col, live=live, nt=nt))
            if q == "g":
                add("collector:mark_one(pop)", self.row("mark_one", gray=1, gray_again=0, flag=0, nt=nt))
            if q == "ga":
                add("collector:mark_one(pop)", self.row("mark_one", gray=0, gray_again=1, flag=0, nt=nt), subject=5)

        # ---- collector, sweeping
        if ph == "Sweep" and reg == "pend":
            for prev in ("None", "some"):
                r = self.row("sweep_one", cursor=col, live=live, prev=prev, next="some")

                def fix(dst, o, prev=prev):
                    d = list(dst)
                    d[6] = "out"
                    if o.has("dropped") and o.kind == "unwind" and col == "W":
                        return "UNLINKED"
                    return tuple(d)
                add("collector:sweep_one", r, fix=fix)

        # ---- mutator (inside callbacks), any phase
        if strong_ok:
            add("mutator:backward_barrier(parent=x,child=None)",
                self.row("backward_barrier", phase=ph, P=col, Pnt=nt, child="None"))
            for cc in ("W", "WW", "G", "B"):
                if cc not in others_strong:
                    continue
                add("mutator:backward_barrier(parent=x,child=%s)" % cc,
                    self.row("backward_barrier", phase=ph, P=col, Pnt=nt, child="other:%s:1" % cc))
                add("mutator:backward_barrier_weak(parent=x,child=%s)" % cc,
                    self.row("backward_barrier_weak", phase=ph, P=col, Pnt=nt, child="other:%s:1" % cc))
            for par in ("None", "W", "WW", "G", "B", "alias"):
                if par not in ("None", "alias") and par not in others_strong:
                    continue
                add("mutator:forward_barrier(parent=%s,child=x)" % par,
                    self.row("forward_barrier", phase=ph, C=col, Cnt=nt, Clive=live, parent=par), subject=2)
            if ph == "Mark":
                add("mutator:resurrect", self.row("resurrect", phase=ph, colour=col, live=live, nt=nt))
        if weak_ok:
            for par in ("None", "W", "WW", "G", "B"):
                if par != "None" and par not in others_strong:
                    continue
                add("mutator:forward_barrier_weak(parent=%s,child=x)" % par,
                    self.row("forward_barrier_weak", phase=ph, C=col, Cnt=nt, Clive=live, parent=par), subject=2)
            add("mutator:upgrade", self.row("upgrade", phase=ph, colour=col, live=live, nt=nt))
        return out

    # ------------------------------------------------------------------ exploration + invariants
    def _explore(self):
        init = []
        for ph in ("Sleep", "Mark", "Sweep"):
            for nt in (0, 1):
                init.append((ph, "W", 1, nt, "-", 0, "out"))
        work = collections.deque()
        def note(s):
            so, wo = self.accessible(s)
            grew = False
            if so and s[1] not in self.present[s[0]]["strong"]:
                self.present[s[0]]["strong"].add(s[1])
                grew = True
            if wo and s[1] not in self.present[s[0]]["weak"]:
                self.present[s[0]]["weak"].add(s[1])
            if grew:
                # a new colour another object can have in this phase: states of the phase get new operations
                for r in list(self.reach):
                    if r[0] == s[0] and r != s:
                        work.append(r)
        for s in init:
            self.reach[s] = None
            work.append(s)
        for s in init:
            note(s)
        seen_prob = set()
        seen_trans = set()
        while work:
            s = work.popleft()
            nprob = len(self.problems)
            ts = self.succ(s)
            # tag new problems with the state path
            for i in range(nprob, len(self.problems)):
                inv, op, text, st = self.problems[i]
                self.problems[i] = (inv, op, text, self.path_to(s))
            for t in ts:
                tk = (t.src, t.op, t.dst, t.kind, id(t.row))
                if tk in seen_trans:
                    continue
                seen_trans.add(tk)
                self.trans.append(t)
                self.check_transition(t)
                if t.dst in ("FREED", "UNLINKED"):
                    continue
                if t.dst not in self.reach:
                    self.reach[t.dst] = t
                    work.append(t.dst)
                    note(t.dst)
        for s in self.reach:
            self.check_state(s)
        # dedupe
        uniq = []
        for p in self.problems:
            k = (p[0], p[1], p[2])
            if k not in seen_prob:
                seen_prob.add(k)
                uniq.append(p)
        self.problems = uniq

    def path_to(self, s):
        out = []
        cur = s
        while cur is not None and self.reach.get(cur) is not None:
            t = self.reach[cur]
            out.append(t.op)
            cur = t.src
        out.reverse()
        return ["alloc%s" % (cur,)] + out if cur else out

    def check_state(self, s):
        (ph, col, live, nt, q, cred, reg) = s
        if (col == "G") != (q != "-"):
            self.problems.append(("S7", "state", "reachable state with colour=%s queued=%s (Gray <=> queued)" % (col, q),
                                  self.path_to(s) + [str(s)]))
        if ph in ("Sweep", "Sleep") and (col == "G" or q != "-"):
            if ph == "Sweep" and reg == "pend":
                self.problems.append(("S2", "state", "reachable state with a Gray/queued object in front of the sweep cursor: "
                                      "sweeping started before marking was complete", self.path_to(s) + [str(s)]))
            else:
                # marked (and queued) outside the mark phase, behind the cursor: the object is traced by the next
                # cycle and merely retained longer - exactness (C02), not safety
                self.problems.append(("S2o", "state", "object marked Gray / queued in phase %s outside the sweep snapshot: it "
                                      "starts the next cycle marked and is retained although unreachable" % ph,
                                      self.path_to(s) + [str(s)]))
        if ph == "Sleep" and col == "B" and live == 1 and nt == 0:
            # a Black object whose type holds no pointers loses no children by not being traced again: retention only
            self.problems.append(("S3o", "state", "pointer-free object is B while the collector sleeps: it is retained for "
                                  "another cycle although it may be unreachable", self.path_to(s) + [str(s)]))
        elif ph == "Sleep" and col not in ("W", "G"):
            # a live object that is not White when a cycle starts is never traced (safety, S3); a value-less shell
            # that is not White is merely never released (reclamation, S3r)
            # WhiteWeak at the start of a cycle is treated like White by strong tracing (no safety problem); the
            # object is merely kept one cycle longer as a shell if it turns out unreachable (reclamation)
            self.problems.append(("S3" if (live == 1 and col != "WW") else "S3r", "state",
                                  "%s is %s while the collector sleeps: the next cycle does not start clean" % (
                                      "object" if live == 1 else "shell", col), self.path_to(s) + [str(s)]))

    def check_transition(self, t):
        (ph, col, live, nt, q, cred, reg) = t.src
        # collector-internal panics on reachable pre-states (the crate's own debug assertions encode
        # unreachable cases; reaching one is a defect). User-code panics are modelled faults, not defects.
        for e in t.events:
            if e[0] == "panic" and not str(e[1]).startswith("user ") and e[1] != "callback":
                self.problems.append(("PANIC", t.op, "collector code panics (%s, %s in %s) from reachable state %s" % (
                    e[1], e[2], e[3], (t.src,)), self.path_to(t.src)))
            if e[0] in ("use_after_free", "double_drop", "double_free", "trace_of_dead_value", "unreachable_reached"):
                self.problems.append(("S6", t.op, "%s from reachable state %s" % (e[0], t.src), self.path_to(t.src)))
        drops = [e for e in t.events if e[0] == "dropped" and e[1] == 1]
        if drops:
            if live != 1:
                self.problems.append(("S6", t.op, "value destructed although live=0 (second destruction)",
                                      self.path_to(t.src)))
            if t.dst not in ("FREED", "UNLINKED") and t.dst[2] != 0:
                self.problems.append(("S6", t.op, "value destructed but the object stays live=1 and linked: a later "
                                      "sweep or the arena drop destructs it again", self.path_to(t.src)))
        if t.op.startswith("mutator:") and t.dst == "FREED":
            self.problems.append(("S1", t.op, "mutator operation frees an object", self.path_to(t.src)))
        if t.op == "collector:sweep_one" and t.dst == "FREED" and col != "W":
            # a weakly marked object is not strongly reachable: releasing its block breaks the weak-pointer
            # clause (C05, invariant S1w), not reachability-safety (C01, S1)
            self.problems.append(("S1w" if col == "WW" else "S1", t.op, "sweep frees a %s object%s" % (
                col, " (reachable weak pointers dangle)" if col == "WW" else ""), self.path_to(t.src)))
        if t.op == "mutator:upgrade":
            rets = {o.ret for o in t.row.outs}
            if 1 in rets and ph == "Sweep" and reg == "pend" and col != "B":
                self.problems.append(("S5", t.op, "upgrade succeeds for a %s object the running sweep will destruct" % col,
                                      self.path_to(t.src)))
        # live is monotone (is_dropped never reverts)
        if t.dst not in ("FREED", "UNLINKED") and live == 0 and t.dst[2] == 1:
            self.problems.append(("S6", t.op, "live flag reverts 0 -> 1", self.path_to(t.src)))

    def reachable_states(self):
        return set(self.reach)

    def summary(self):
        return {"states": len(self.reach), "transitions": len(self.trans)}
