"""E4: compile-fail / compile-pass witnesses. Each probe is one client program compiled twice against an
rlib of the current /repo (never run): with `--cfg bad` it must be rejected with the expected error
code / message class, without it (the twin, differing only in the `#[cfg(bad)]` lines) it must compile.

Probe header (first lines):
  //@ fail: E0521            expected rustc error code(s), `|`-separated alternatives, or ~regex on the message
  //@ features: all          (optional) needs the all-features rlib
  //@ what: one line"""
import concurrent.futures as cf
import json
import os
import re
import subprocess
import tempfile

from gcv import facts

VERIF = facts.VERIF
PROBES = os.path.join(VERIF, "probes")


class Probe:
    def __init__(self, path):
        self.path = path
        self.name = os.path.relpath(path, PROBES)
        self.fail = None
        self.features = "default"
        self.what = ""
        self.passonly = False
        with open(path) as f:
            for line in f:
                if not line.startswith("//@"):
                    break
                k, _, v = line[3:].strip().partition(":")
                k, v = k.strip(), v.strip()
                if k == "fail":
                    self.fail = [x.strip() for x in v.split("|")]
                elif k == "features":
                    self.features = v
                elif k == "what":
                    self.what = v
                elif k == "pass":
                    self.passonly = True


def _compile(probe, bad, libdir, tmp):
    out = os.path.join(tmp, re.sub(r"[^A-Za-z0-9]", "_", probe.name) + ("_bad" if bad else "_ok"))
    os.makedirs(out, exist_ok=True)
    cmd = ["rustc", "+nightly", "--edition", "2024", "--crate-type", "bin", "--emit=metadata", "--out-dir", out,
           "--error-format=json", "-Awarnings", "--crate-name", "probe",
           "--extern", "gc_arena=" + os.path.join(libdir, "libgc_arena.rlib"),
           "-L", "dependency=" + os.path.join(libdir, "deps"), probe.path]
    if bad:
        cmd += ["--cfg", "bad"]
    env = facts.base_env()
    r = subprocess.run(cmd, capture_output=True, text=True, env=env)
    codes, msgs = [], []
    for line in r.stderr.splitlines():
        try:
            d = json.loads(line)
        except ValueError:
            continue
        if d.get("level") == "error":
            if d.get("code"):
                codes.append(d["code"]["code"])
            msgs.append(d.get("message", ""))
    return r.returncode, codes, msgs


def run_probe(probe, libdirs, tmp):
    libdir = libdirs[probe.features]
    res = {"probe": probe.name, "what": probe.what}
    rc_ok, codes_ok, msgs_ok = _compile(probe, False, libdir, tmp)
    res["twin_compiles"] = rc_ok == 0
    res["twin_errors"] = (codes_ok + msgs_ok)[:3]
    if probe.passonly:
        res["ok"] = rc_ok == 0
        res["why"] = "" if rc_ok == 0 else "legitimate program rejected: %s" % (msgs_ok[:2],)
        return res
    rc, codes, msgs = _compile(probe, True, libdir, tmp)
    res["rejected"] = rc != 0
    res["codes"] = sorted(set(codes))
    res["messages"] = msgs[:2]
    matched = False
    for exp in probe.fail or []:
        if exp.startswith("~"):
            if any(re.search(exp[1:], m) for m in msgs):
                matched = True
        elif exp in codes:
            matched = True
    res["expected"] = probe.fail
    res["matched"] = matched
    why = []
    if rc_ok != 0:
        why.append("the compiling twin does not compile (%s): the probe is broken or a legitimate use is now rejected" % (
            (codes_ok + msgs_ok)[:2],))
    if rc == 0:
        why.append("the violating program is ACCEPTED by the compiler")
    elif not matched:
        # Rejected for a reason other than the recorded one. The properties demand rejection, not a particular
        # diagnostic, and the twin (same file, only the offending lines differ) compiles - so the offending lines are
        # what the compiler refuses. Recorded for the reader, not an alarm: a reworded derive error or another
        # error code after a refactor must not fire.
        res["unexpected_reason"] = "rejected with %s / %s, recorded expectation was %s" % (sorted(set(codes)), msgs[:1], probe.fail)
    res["ok"] = not why
    res["why"] = "; ".join(why)
    return res


def run_dir(pid, tier="quick"):
    d = os.path.join(PROBES, pid)
    probes = []
    for dp, dn, fn in os.walk(d):
        for f in sorted(fn):
            if f.endswith(".rs"):
                probes.append(Probe(os.path.join(dp, f)))
    need = sorted({p.features for p in probes})
    libdirs = {}
    for feat in need:
        libdirs[feat] = facts.rlib_dir(feat)
    results = []
    with tempfile.TemporaryDirectory(prefix="gcv-wit.", dir="/var/tmp") as tmp:
        with cf.ThreadPoolExecutor(max_workers=16) as ex:
            futs = [ex.submit(run_probe, p, libdirs, tmp) for p in probes]
            for f in futs:
                results.append(f.result())
    return results


def report(chk, pid, rule="witness", floor=None, tier="quick"):
    results = run_dir(pid, tier)
    for r in results:
        chk.inst(rule, r["probe"], r["ok"], detail="%s — %s" % (r["what"], r["why"]),
                 sample={"probe": r["probe"], "expected": r.get("expected"), "codes": r.get("codes"),
                         "twin_compiles": r["twin_compiles"]})
        if r.get("unexpected_reason"):
            chk.note("%s: %s" % (r["probe"], r["unexpected_reason"]))
    chk.extra["probes"] = len(results)
    chk.extra["probe_compilations"] = sum(1 if "rejected" not in r else 2 for r in results)
    if floor is not None:
        chk.floor("witness-probes", len(results), floor)
    return results
