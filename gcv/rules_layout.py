"""Sibling term agreement between allocation and release (C04/C17). Filled in by the C17 engine."""


def agreement(chk, prog):
    try:
        from gcv import layout_terms
    except ImportError:
        chk.note("layout term agreement: decided by the C17 check")
        return
    layout_terms.agreement(chk, prog, alignment_clauses=False)
    layout_terms.meta_written_only_at_allocation(chk, prog)
