"""E5: derive(Collect) expansion corpus. A crate of generated type shapes is type-checked (never run)
through the driver against the current tree; the MIR of each derived `trace` and the (const-evaluated or
analysed) NEEDS_TRACE are inspected with the C16 coverage analysis."""
import fcntl
import itertools
import json
import os
import shutil
import subprocess

from gcv import facts

FT = {
    # code -> (rust type, NEEDS_TRACE, 'static?)
    "G": ("Gc<'gc, i32>", True, False),
    "W": ("GcWeak<'gc, i32>", True, False),
    "I": ("i32", False, True),
    "V": ("Vec<Gc<'gc, i32>>", True, False),
    "O": ("Option<GcWeak<'gc, i32>>", True, False),
    "S": ("String", False, True),
    "N": ("Leaf<'gc>", True, False),
    "P": ("Plain", False, True),
    "B": ("Box<(i32, Gc<'gc, u8>)>", True, False),
    # fields that mention the derived type itself ({SELF} is the shape's own name) with the pointer that makes the
    # recursion legal hidden from the macro: behind a type alias, inside a generic wrapper, inside a container
    # (seed C15-e left such fields out of the NEEDS_TRACE disjunction)
    "R1": ("Option<Ptr<'gc, {SELF}<'gc>>>", True, False),
    "R2": ("Link<'gc, {SELF}<'gc>>", True, False),
    "R3": ("Gc<'gc, {SELF}<'gc>>", True, False),
    "R4": ("Vec<Ptr<'gc, {SELF}<'gc>>>", True, False),
    "R5": ("Option<GcWeak<'gc, {SELF}<'gc>>>", True, False),
}
SELF_STANDIN = "Leaf"      # the field-type constants of the {SELF} codes are evaluated with this type in place of the shape


class Shape:
    def __init__(self, name, kind, variants, mode="no_drop", generics="", bound=None, gc_lifetime=None, extra_attr=""):
        self.name = name
        self.kind = kind              # 'struct' | 'enum'
        self.variants = variants      # list of (vname, style 'unit'|'tuple'|'named', [(code, require_static)])
        self.mode = mode
        self.generics = generics
        self.bound = bound
        self.gc_lifetime = gc_lifetime

    def uses_gc(self):
        return any(not FT[c][2] for (_, _, fs) in self.variants for (c, rs) in fs if c in FT)

    def expected_needs_trace(self, nt=None):
        """Disjunction of the traced field types' own NEEDS_TRACE constants. `nt` maps a field-type code to the
        value the compiler evaluated for that type on the current tree (field_constants); the property is about
        the derive being exact *relative to its field types*, so a wrong constant of a provided impl (C16's
        business) must not be reported against the derive."""
        if self.mode == "require_static":
            return False
        nt = nt or {}
        return any(nt.get(c, FT[c][1]) for (_, _, fs) in self.variants for (c, rs) in fs if c in FT and not rs)

    def expected_traced(self):
        """variant index -> set of field indices that must be traced"""
        if self.mode == "require_static":
            return {}
        out = {}
        for vi, (_, _, fs) in enumerate(self.variants):
            out[vi] = {i for i, (c, rs) in enumerate(fs) if not rs}
        return out

    def render(self):
        attrs = [self.mode]
        if self.bound is not None:
            attrs.append('bound = "%s"' % self.bound)
        if self.gc_lifetime:
            attrs.append("gc_lifetime = %s" % self.gc_lifetime)
        gen = self.generics
        if not gen:
            gen = "<'gc>" if self.uses_gc() else ""
        out = ["#[derive(Collect)]", "#[collect(%s)]" % ", ".join(attrs)]

        def fld(c, rs, named, i):
            ty = (FT[c][0] if c in FT else c).replace("{SELF}", self.name)
            a = "#[collect(require_static)] " if rs else ""
            return "%s%s%s" % (a, ("f%d: " % i) if named else "", ty)
        if self.kind == "struct":
            (_, style, fs) = self.variants[0]
            if style == "unit":
                out.append("pub struct %s%s;" % (self.name, gen))
            elif style == "tuple":
                out.append("pub struct %s%s(%s);" % (self.name, gen, ", ".join(fld(c, rs, False, i) for i, (c, rs) in enumerate(fs))))
            else:
                out.append("pub struct %s%s { %s }" % (self.name, gen, ", ".join(fld(c, rs, True, i) for i, (c, rs) in enumerate(fs))))
        else:
            vs = []
            for (vn, style, fs) in self.variants:
                if style == "unit":
                    vs.append(vn)
                elif style == "tuple":
                    vs.append("%s(%s)" % (vn, ", ".join(fld(c, rs, False, i) for i, (c, rs) in enumerate(fs))))
                else:
                    vs.append("%s { %s }" % (vn, ", ".join(fld(c, rs, True, i) for i, (c, rs) in enumerate(fs))))
            out.append("pub enum %s%s { %s }" % (self.name, gen, ", ".join(vs)))
        return "\n".join(out)


def shapes(tier="quick"):
    out = []
    n = [0]

    def name():
        n[0] += 1
        return "S%d" % n[0]
    base = ["G", "I", "W", "V", "S"]
    # structs, all combinations for 1..2 fields (quick) / 1..3 fields (thorough)
    maxall = 2 if tier == "quick" else 3
    for k in range(1, maxall + 1):
        for combo in itertools.product(base, repeat=k):
            for style in ("named", "tuple"):
                out.append(Shape(name(), "struct", [("", style, [(c, False) for c in combo])]))
    # pointer at each single position among plain fields, 3..4 fields; all-plain; all-pointer; other pointer kinds
    for k in (3, 4):
        for ptr in ("G", "W", "O", "N", "B"):
            for pos in range(k):
                fs = [("I", False)] * k
                fs[pos] = (ptr, False)
                for style in ("named", "tuple"):
                    if tier == "quick" and ptr in ("O", "B") and style == "tuple":
                        continue
                    out.append(Shape(name(), "struct", [("", style, list(fs))]))
        out.append(Shape(name(), "struct", [("", "named", [("I", False)] * k)]))
        out.append(Shape(name(), "struct", [("", "tuple", [("G", False)] * k)]))
    out.append(Shape(name(), "struct", [("", "unit", [])]))
    out.append(Shape(name(), "struct", [("", "named", [])]))
    # require_static at each field position (the marked field is 'static, the others hold pointers)
    for k in (1, 2, 3, 4):
        for pos in range(k):
            fs = [("G", False)] * k
            fs[pos] = ("S", True)
            out.append(Shape(name(), "struct", [("", "named", list(fs))]))
            fs2 = [("I", False)] * k
            fs2[pos] = ("P", True)
            out.append(Shape(name(), "struct", [("", "tuple", list(fs2))]))
    # enums: ordered selections of 1..3 variants
    vkinds = [("U", "unit", []), ("T1", "tuple", [("G", False)]), ("N2", "named", [("I", False), ("W", False)]),
              ("T2", "tuple", [("I", False), ("V", False)]), ("T0", "tuple", [("S", False)])]
    maxv = 3
    for k in range(1, maxv + 1):
        for sel in itertools.permutations(vkinds, k):
            if tier == "quick" and k == 3 and (len(out) % 3):
                continue
            out.append(Shape(name(), "enum", [("V%d%s" % (i, v[0]), v[1], list(v[2])) for i, v in enumerate(sel)]))
    # enum with require_static field inside a variant, pointer in the last variant's last field
    out.append(Shape(name(), "enum", [("A", "tuple", [("S", True), ("G", False)]), ("B", "named", [("I", False), ("I", False), ("W", False)])]))
    out.append(Shape(name(), "enum", [("A", "unit", []), ("B", "unit", []), ("C", "tuple", [("I", False), ("I", False), ("I", False), ("G", False)])]))
    # a require_static field at position i of one variant, a pointer at the same position of another (both orders)
    for pos in (0, 1):
        a = [("S", True) if i == pos else ("I", False) for i in range(2)]
        b = [("G", False) if i == pos else ("I", False) for i in range(2)]
        out.append(Shape(name(), "enum", [("A", "tuple", list(a)), ("B", "tuple", list(b))]))
        out.append(Shape(name(), "enum", [("A", "named", list(b)), ("B", "named", list(a)), ("C", "unit", [])]))
    # modes
    out.append(Shape(name(), "struct", [("", "named", [("G", False), ("I", False)])], mode="unsafe_drop"))
    out.append(Shape(name(), "enum", [("A", "tuple", [("W", False)]), ("B", "unit", [])], mode="unsafe_drop"))
    out.append(Shape(name(), "struct", [("", "named", [("I", False), ("S", False)])], mode="require_static"))
    out.append(Shape(name(), "struct", [("", "tuple", [("P", False)])], mode="require_static"))
    out.append(Shape(name(), "enum", [("A", "tuple", [("I", False)]), ("B", "unit", [])], mode="require_static"))
    # generics
    out.append(Shape(name(), "struct", [("", "named", [("T", False), ("G", False)])], generics="<'gc, T>"))
    out.append(Shape(name(), "struct", [("", "named", [("T", False), ("I", False)])], generics="<T>"))
    out.append(Shape(name(), "struct", [("", "tuple", [("I", False), ("T", False), ("U", False)])], generics="<T, U>"))
    out.append(Shape(name(), "enum", [("A", "tuple", [("T", False)]), ("B", "named", [("I", False), ("U", False)])], generics="<T, U>"))
    out.append(Shape(name(), "struct", [("", "named", [("T", False), ("G", False)])], generics="<'gc, T: 'gc>",
                     bound="where T: Collect<'gc>"))
    out.append(Shape(name(), "struct", [("", "named", [("G", False), ("core::marker::PhantomData<&'a ()>", False)])],
                     generics="<'gc, 'a>", gc_lifetime="'gc"))
    out.append(Shape(name(), "struct", [("", "named", [("Vec<T>", False), ("Option<U>", False)])], generics="<T, U>"))
    # require_static on a field of generic type: the expansion must demand `T: 'static`, whatever the bound override
    # (seed C15-c dropped the predicate whenever `bound = ...` was given)
    out.append(Shape(name(), "struct", [("", "named", [("T", True), ("G", False)])], generics="<'gc, T>", bound=""))
    out.append(Shape(name(), "enum", [("A", "tuple", [("T", True), ("I", False)]), ("B", "unit", [])], generics="<T>", bound=""))
    for bound in (None, "where U: Collect<'gc>", "where T: Clone, U: Collect<'gc>"):
        out.append(Shape(name(), "struct", [("", "named", [("T", True), ("U", False), ("G", False)])], generics="<'gc, T, U>", bound=bound))
        out.append(Shape(name(), "enum", [("A", "tuple", [("I", False), ("T", True)]), ("B", "named", [("U", False), ("W", False)])],
                         generics="<'gc, T, U>", bound=bound))
    # self-referential types: the recursive field is the only one that needs tracing / sits next to plain and pointer fields
    for code in ("R1", "R2", "R3", "R4", "R5"):
        out.append(Shape(name(), "struct", [("", "named", [(code, False), ("I", False)])]))
        out.append(Shape(name(), "enum", [("A", "tuple", [("I", False), (code, False)]), ("B", "unit", [])]))
    out.append(Shape(name(), "struct", [("", "tuple", [("G", False), ("R1", False)])]))
    out.append(Shape(name(), "struct", [("", "named", [("S", True), ("R2", False)])]))
    out.append(Shape(name(), "enum", [("A", "named", [("R4", False)]), ("B", "tuple", [("R5", False), ("I", False)]), ("C", "unit", [])]))
    if tier != "quick":
        # every subset of positions marked require_static, 1..4 fields, pointer-bearing fields elsewhere
        for k in (1, 2, 3, 4):
            for mask in range(1, 2 ** k):
                for style, ptr in (("named", "G"), ("tuple", "W"), ("named", "V")):
                    fs = [("S", True) if (mask >> i) & 1 else (ptr, False) for i in range(k)]
                    out.append(Shape(name(), "struct", [("", style, fs)]))
        # all combinations of 4 fields over {strong, plain, weak}
        for combo in itertools.product(("G", "I", "W"), repeat=4):
            out.append(Shape(name(), "struct", [("", "named", [(c, False) for c in combo])]))
        # enums of 4 variants in every order; require_static inside each variant position
        for sel in itertools.permutations(vkinds, 4):
            out.append(Shape(name(), "enum", [("V%d%s" % (i, v[0]), v[1], list(v[2])) for i, v in enumerate(sel)]))
        for pos in range(3):
            for inner in range(2):
                vs = []
                for i in range(3):
                    fs = [("G", False), ("W", False)]
                    if i == pos:
                        fs[inner] = ("S", True)
                    vs.append(("V%d" % i, "tuple" if i % 2 else "named", fs))
                out.append(Shape(name(), "enum", vs))
        # the other modes over structural shapes
        for mode in ("unsafe_drop",):
            for combo in itertools.product(("G", "I", "W", "V"), repeat=2):
                out.append(Shape(name(), "struct", [("", "named", [(c, False) for c in combo])], mode=mode))
            for sel in itertools.permutations(vkinds, 2):
                out.append(Shape(name(), "enum", [("V%d%s" % (i, v[0]), v[1], list(v[2])) for i, v in enumerate(sel)], mode=mode))
        # generic parameter at every position among plain / pointer fields
        for k in (2, 3):
            for pos in range(k):
                for other in ("I", "G"):
                    fs = [(other, False)] * k
                    fs[pos] = ("T", False)
                    out.append(Shape(name(), "struct", [("", "named", list(fs))], generics="<'gc, T>" if other == "G" else "<T>"))
    return out


PRELUDE = '''#![allow(unused, dead_code)]
use gc_arena::{Collect, Gc, GcWeak};

#[derive(Collect)]
#[collect(no_drop)]
pub struct Leaf<'gc> { p: Gc<'gc, u8> }

#[derive(Collect)]
#[collect(require_static)]
pub struct Plain { x: u64 }

pub type Ptr<'gc, T> = Gc<'gc, gc_arena::lock::RefLock<T>>;

#[derive(Collect)]
#[collect(no_drop)]
pub struct Link<'gc, T: 'gc>(Option<Gc<'gc, T>>);

'''


def field_constants(prog):
    """code -> NEEDS_TRACE of that field type as const-evaluated by the compiler for the current tree."""
    out = {}
    for c in FT:
        ci = prog.consts.get("NT_%s" % c)
        if ci and "value" in ci:
            out[c] = bool(ci["value"])
    return out


def build(tier="quick", repo=None):
    """Generate + type-check the corpus for the current tree; returns (facts dict, shapes)."""
    repo = repo or facts.REPO
    facts.ensure_driver()
    th = facts.tree_hash(repo)
    shp = shapes(tier)
    # the cache entry is keyed by the generated source as well: a changed shape list must not reuse old facts
    import hashlib
    src_hash = hashlib.sha256((PRELUDE + repr(sorted(FT.items())) + "".join(s.render() for s in shp)).encode()).hexdigest()[:12]
    d = os.path.join(facts.CACHE, th, "corpus-%s-%s" % (tier, src_hash))
    os.makedirs(d, exist_ok=True)
    fact = os.path.join(d, "out", "corpus.json")
    with open(os.path.join(d, "lock"), "w") as lk:
        fcntl.flock(lk, fcntl.LOCK_EX)
        if not (os.path.exists(fact) and os.path.exists(os.path.join(d, "ok"))):
            crate = os.path.join(d, "crate")
            shutil.rmtree(crate, ignore_errors=True)
            os.makedirs(os.path.join(crate, "src"))
            os.makedirs(os.path.join(d, "out"), exist_ok=True)
            with open(os.path.join(crate, "Cargo.toml"), "w") as f:
                f.write('[package]\nname = "corpus"\nversion = "0.0.0"\nedition = "2024"\n\n[workspace]\n\n[dependencies]\n'
                        'gc-arena = { path = "%s" }\n' % repo)
            lockf = os.path.join(repo, "Cargo.lock")
            if os.path.exists(lockf):
                shutil.copy(lockf, os.path.join(crate, "Cargo.lock"))
            with open(os.path.join(crate, "src", "lib.rs"), "w") as f:
                f.write(PRELUDE)
                for c, (ty, _, _) in FT.items():
                    f.write("pub const NT_%s: bool = <%s as Collect<'static>>::NEEDS_TRACE;\n" % (
                        c, ty.replace("{SELF}", SELF_STANDIN).replace("'gc", "'static")))
                f.write("\n")
                for s in shp:
                    f.write(s.render() + "\n\n")
            env = facts.base_env()
            env["RUSTFLAGS"] = "-Zmir-opt-level=0 -Awarnings"
            env["RUSTC_WORKSPACE_WRAPPER"] = facts.DRIVER
            env["GCV_OUT"] = os.path.join(d, "out")
            env["GCV_CRATES"] = "corpus"
            env["GCV_DEPTH"] = "1"
            env["CARGO_TARGET_DIR"] = os.path.join(d, "target")
            shutil.rmtree(env["CARGO_TARGET_DIR"], ignore_errors=True)
            if os.path.exists(fact):
                os.remove(fact)
            r = subprocess.run(["cargo", "+nightly", "check", "--offline", "--lib"], cwd=crate, env=env,
                               capture_output=True, text=True)
            shutil.rmtree(env["CARGO_TARGET_DIR"], ignore_errors=True)
            if r.returncode != 0 or not os.path.exists(fact):
                raise facts.BuildError("derive corpus does not type-check against the current tree:\n" + (r.stdout + r.stderr)[-3000:])
            open(os.path.join(d, "ok"), "w").write("ok")
    with open(fact) as f:
        return json.load(f), shp
