"""E6: bounded heap exploration (DESIGN.md §11). Abstract interpretation of the collector's MIR over small abstract
heaps: the collector context of §3.1, at most K objects, and the heap's edge relation. Every transition is computed by
the abstract interpreter (gcv.interp / gcv.gcmodel) from the current MIR; user code is replaced by its specification
(exact `Collect::trace`, which may panic after reporting any prefix of the children; destructors that may panic). The
invariants H1..H6 are the property statements themselves, in terms of reachability from the root.

Nothing of gc-arena is executed."""
import collections
import time

from gcv import gcmodel, interp
from gcv.gcmodel import obj, some, none, OPT
from gcv.interp import TOP, UNIT, adt, ref, I
from gcv.tables import gc, gcw

ROOT = 0


class HeapGcModel(gcmodel.GcModel):
    """The primitive layer of §3.2 with the two pieces of user code given their *specification*: tracing a value
    reports every strong child to trace_gc and every weak child to trace_gc_weak (both interpreted from MIR), or
    panics after any prefix of them."""

    def __init__(self, prog, allow_panic):
        self.trace_impl = prog.collector_trace_impl() or {
            "trace_gc": "<context::Context as collect::Trace>::trace_gc",
            "trace_gc_weak": "<context::Context as collect::Trace>::trace_gc_weak", "by_ref": False}
        super().__init__(prog, allow_panic=allow_panic)
        self.ip.max_steps = 10000     # the longest run on the unchanged tree takes 1 552 steps (all paths together); see interp.TOTAL_STEPS_FACTOR

    # -- nested interpretation of an interpreted function on the current state (frames of the caller preserved)
    def nested(self, st, name, args):
        saved = [f.copy() for f in st.frames]
        sub = st.fork()
        outs = self.ip.run(self.key_of(name), args, sub)
        res = []
        for o in outs:
            if o.kind == "loop":
                continue
            o.st.frames = [f.copy() for f in saved]
            res.append(o)
        return res

    def _children(self, st, src):
        edges = st.g.get("edges", frozenset())
        return [(c, k) for (s, c, k) in sorted(edges) if s == src]

    def _trace_children(self, st, src, tracer_arg, what):
        """All ways `Collect::trace` of `src` can go: every child reported (normal return), or a panic after a prefix."""
        kids = self._children(st, src)
        results = []
        # states after reporting the first j children, j = 0..len(kids)
        cur = [st]
        prefixes = [list(cur)]
        for (c, k) in kids:
            nxt = []
            for s_ in cur:
                name = self.trace_impl["trace_gc"] if k == "s" else self.trace_impl["trace_gc_weak"]
                arg = gc(c) if k == "s" else gcw(c)
                for o in self.nested(s_, name, [tracer_arg, arg]):
                    if o.kind == "return":
                        nxt.append(o.st)
                    else:
                        o.st.event("panic", "collector code in trace", "", "")
                        results.append((o.st, "panic", "collector trace"))
            cur = nxt
            prefixes.append(list(cur))
        for s_ in cur:
            results.append((s_, "ret", UNIT))
        if self.allow_panic:
            for j, sts in enumerate(prefixes):
                for s_ in sts:
                    s2 = s_.fork()
                    s2.frames = [f.copy() for f in s_.frames]
                    results.append((s2, "panic", "user Collect::trace (%s, after %d of %d children)" % (what, j, len(kids))))
        return results

    def opaque_call(self, ip, st, args, info):
        d = info.get("declared") or info["def"]
        if d == "collect::Collect::trace":
            st.event("user_trace", "root")
            return self._trace_children(st, ROOT, args[1], "root")
        return super().opaque_call(ip, st, args, info)

    def prims(self):
        P = super().prims()
        m = self
        base_trace_value = P["gc_ptr::GcPtr::trace_value"]

        def trace_value(ip, st, args, info):
            oid = gcmodel._obj_of(ip, st, args[0])
            o = st.objs[oid]
            if o.get("freed") or o.get("dropped") or not o["live"]:
                st.event("trace_of_dead_value", oid)
            st.event("trace_value", oid, o["colour"])
            return m._trace_children(st, oid, args[1], "object %d" % oid)

        P["gc_ptr::GcPtr::trace_value"] = trace_value
        return P


# ---------------------------------------------------------------------------------------------- abstract global state
# G = (phase, flag, gray, gray_again, all, sweep, sweep_prev, objs, edges, total, traced, resurrected, panics)
#   objs:  tuple of (id, colour, live, nt, next, dropped, freed)
#   edges: frozenset of (src, dst, kind) with src 0 = the root, kind 's' | 'w'
Obj = collections.namedtuple("Obj", "id colour live nt next dropped freed")
G = collections.namedtuple("G", "phase flag gray gray_again all sweep sweep_prev objs edges total traced resurrected panics")


def empty_state():
    return G("Sleep", 1, (), (), None, None, None, (), frozenset(), 0, 0, frozenset(), 0)


def objs_dict(g):
    return {o.id: o for o in g.objs}


def linked_ids(g):
    """Objects on the all-objects list (what the sweep and the arena drop walk)."""
    od = {o.id: o for o in g.objs}
    out, cur, n = [], g.all, 0
    while cur is not None and cur in od and n <= len(od):
        out.append(cur)
        cur = od[cur].next
        n += 1
    return out


def strong_closure(g, roots):
    seen = set()
    work = list(roots)
    while work:
        x = work.pop()
        for (s, c, k) in g.edges:
            if s == x and k == "s" and c not in seen:
                seen.add(c)
                work.append(c)
    return seen


class Heap:
    def __init__(self, prog, K=2, allow_panic=False, max_panics=1):
        self.prog = prog
        self.K = K
        self.m = HeapGcModel(prog, allow_panic=allow_panic)
        self.allow_panic = allow_panic
        self.max_panics = max_panics
        # the end-to-end oracles are run without further faults ("after the unwind is caught the arena continues to
        # satisfy C01-C05"): in panic mode they use a second, fault-free model
        self.calm = Heap(prog, K=K, allow_panic=False) if allow_panic else self
        self.runs = 0
        self.errors = []
        self.all_errors = []

    # ------------------------------------------------------------------ G <-> interpreter state
    def to_state(self, g):
        objs = {o.id: {"colour": o.colour, "live": o.live, "nt": o.nt, "next": o.next, "dropped": o.dropped, "freed": o.freed}
                for o in g.objs}
        st = self.m.mk_state(phase=g.phase, root_needs_trace=bool(g.flag), gray=g.gray, gray_again=g.gray_again, all_=g.all,
                             sweep=g.sweep, sweep_prev=g.sweep_prev, objs=objs)
        st.g["edges"] = g.edges
        st.mem[("root",)] = ("sym", "rootval")
        st.mem[("arena",)] = gcmodel.arena_value(self.prog)
        st.mem[("selfref",)] = self.m.ctx_ref()
        return st

    def from_outcome(self, g, o, events_from=0, where="collector"):
        """New abstract state + list of violations found in the events of this transition."""
        snap = self.m.snapshot(o.st)
        viol = []
        total, traced = g.total, g.traced
        edges = set(g.edges)
        resurrected = set(g.resurrected)
        for e in o.ev[events_from:]:
            if e[0] in ("dropped", "freed") and resurrected:
                # H5, in event order: the cycle in which an object was resurrected must not destruct it or its closure
                prot = set(resurrected)
                work = list(prot)
                while work:
                    x = work.pop()
                    for (s_, c_, k_) in edges:
                        if s_ == x and k_ == "s" and c_ not in prot:
                            prot.add(c_)
                            work.append(c_)
                if e[1] in prot:
                    viol.append(("H5", "object %d was resurrected (or is strongly reachable from a resurrected object) in this "
                                       "cycle but is %s before the cycle ends" % (e[1], "destructed" if e[0] == "dropped" else "released")))
            if e[0] == "metric":
                n = e[2] if isinstance(e[2], int) else 0
                if e[1] == "allocated":
                    total += n
                elif e[1] == "freed":
                    total -= n
                    if total < 0:
                        viol.append(("H6", "mark_gc_freed underflows the Gc count"))
                elif e[1] == "traced":
                    traced += n
                elif e[1] == "untraced":
                    traced -= n
                    if traced < 0:
                        viol.append(("H6", "mark_gc_untraced underflows the trace credit (traced_gcs would wrap / panic)"))
            elif e[0] == "finish_cycle":
                traced = 0
                resurrected = set()     # the cycle is over: a resurrection holds for the cycle it was made in
            elif e[0] in ("use_after_free", "double_drop", "double_free", "trace_of_dead_value", "deref_of_dead_value"):
                viol.append(("H2" if e[0].startswith("double") else "H1", "%s of object %s" % (e[0], e[1])))
            elif e[0] == "dropped":
                # the value is gone: so are the pointers it held
                edges = {(s, c, k) for (s, c, k) in edges if s != e[1]}
            elif e[0] == "panic" and not str(e[1]).startswith("user ") and e[1] != "callback":
                viol.append(("PANIC" if where == "collector" else "PANIC-mutator", "collector code panics: %s" % (e[1],)))
            elif e[0] == "unreachable_reached":
                viol.append(("PANIC" if where == "collector" else "PANIC-mutator", "unreachable!() reached"))
        objs = []
        for i in sorted(snap["objs"]):
            x = snap["objs"][i]
            objs.append(Obj(i, x["colour"], x["live"], x["nt"], x["next"], x.get("dropped", 0), x.get("freed", 0)))
        resurrected = frozenset(resurrected) if snap["phase"] != "Sleep" else frozenset()
        g2 = G(snap["phase"], snap["root_needs_trace"], tuple(snap["gray"]), tuple(snap["gray_again"]), snap["all"], snap["sweep"],
               snap["sweep_prev"], tuple(objs), frozenset(edges), total, traced, resurrected, g.panics + (1 if o.kind == "unwind" else 0))
        return g2, viol

    def run(self, g, name, args, st=None):
        st = st or self.to_state(g)
        self.runs += 1
        try:
            outs = [o for o in self.m.run(name, args, st) if o.kind != "loop"]
        except (interp.Unmodelled, interp.InterpError, KeyError, IndexError, TypeError) as e:
            self.errors.append("%s: %s: %s" % (name, type(e).__name__, e))
            return []
        return outs

    # ------------------------------------------------------------------ invariants on a state
    def check_state(self, g):
        viol = []
        od = objs_dict(g)
        reach = strong_closure(g, [ROOT])
        for i in reach:
            o = od.get(i)
            if o is None:
                continue
            if o.dropped or o.freed or not o.live:
                viol.append(("H1", "object %d is strongly reachable from the root but %s" % (
                    i, "released" if o.freed else "destructed")))
        for i in strong_closure(g, list(g.resurrected)) | set(g.resurrected):
            o = od.get(i)
            if o is not None and (o.dropped or o.freed):
                viol.append(("H5", "object %d was resurrected (or is strongly reachable from a resurrected object) in this cycle "
                                   "but has been %s" % (i, "released" if o.freed else "destructed")))
        holders = reach | {ROOT}
        for (s, c, k) in g.edges:
            if k == "w" and s in holders:
                o = od.get(c)
                if o is not None and o.freed:
                    viol.append(("H3", "object %d holds a weak pointer to object %d, whose block has been released" % (s, c)))
        for o in g.objs:
            if o.dropped > 1:
                viol.append(("H2", "object %d destructed %d times" % (o.id, o.dropped)))
            if o.freed > 1:
                viol.append(("H2", "block of object %d released %d times" % (o.id, o.freed)))
            if o.dropped and o.live and not o.freed and o.id in linked_ids(g):
                viol.append(("H2", "object %d is destructed but still flagged live and linked (it will be destructed again)" % o.id))
            if not o.freed and o.id not in linked_ids(g) and not self.allow_panic:
                viol.append(("H2", "object %d is neither released nor on the all-objects list (leaked: never destructed / released)" % o.id))
        linked = sum(1 for o in g.objs if not o.freed)
        if g.total != linked:
            viol.append(("H6", "Gc count is %d with %d unreleased allocation(s)" % (g.total, linked)))
        if g.total < 0 or g.traced < 0:
            viol.append(("H6", "a metric counter is negative"))
        return viol

    # ------------------------------------------------------------------ transitions
    def collector_ops(self, g):
        """(label, function, args) of the collection calls applicable in g."""
        a = ref(("arena",), ())
        ops = [("Arena::collect_debt", "arena::Arena::collect_debt", [a]),
               ("Arena::finish_cycle", "arena::Arena::finish_cycle", [a])]
        if g.phase != "Sweep":
            ops.append(("Arena::finish_marking", "arena::Arena::finish_marking", [a]))
        if g.phase == "Mark" and not g.gray and not g.gray_again and not g.flag:
            ops.append(("MarkedArena::start_sweeping", "arena::MarkedArena::start_sweeping", [adt("arena::MarkedArena", 0, (a,))]))
        return ops

    def mutator_ops(self, g):
        """Abstract mutator operations (one callback each): (label, kind, params)."""
        od = objs_dict(g)
        reach = strong_closure(g, [ROOT])
        holders = [ROOT] + sorted(i for i in reach if od[i].nt == 1)
        targets = sorted(reach)
        ops = []
        used = {o.id for o in g.objs}
        fresh = [i for i in range(1, self.K + 1) if i not in used]
        if fresh:
            n = fresh[0]
            for nt in (1, 0):
                ops.append(("alloc(#%d,nt=%d) (not stored)" % (n, nt), "alloc", (n, nt, None, None)))
                for h in holders:
                    for path in self.paths(h, "s", g.phase):
                        ops.append(("alloc(#%d,nt=%d); %s" % (n, nt, self.path_label(path, h, n, "s")), "alloc", (n, nt, h, path)))
        for h in holders:
            for c in targets:
                for k in ("s", "w"):
                    if (h, c, k) in g.edges:
                        ops.append(("drop %s edge %s->%d" % ("strong" if k == "s" else "weak", self.nm(h), c), "del", (h, c, k)))
                    else:
                        for path in self.paths(h, k, g.phase):
                            ops.append((self.path_label(path, h, c, k), "add", (h, c, k, path)))
        # interior mutation of an object that adopts nothing (e.g. Gc<RefLock<i32>>::borrow_mut): the barrier alone, also
        # on objects whose type holds no pointers
        if g.phase != "Sleep":
            for h in sorted(reach):
                ops.append(("Gc::write(#%d) [backward barrier, no child], nothing adopted" % h, "touch", (h,)))
        # weak edges held by reachable objects: upgrade and adopt the result
        for (s, c, k) in sorted(g.edges):
            if k == "w" and (s == ROOT or s in reach):
                for h in holders:
                    if (h, c, "s") not in g.edges:
                        ops.append(("upgrade weak %s->%d; store strongly in %s (Gc::write / root barrier)" % (self.nm(s), c, self.nm(h)),
                                    "upgrade", (s, c, h)))
                if g.phase == "Mark" and not g.gray and not g.gray_again and not g.flag and od[c].live and od[c].colour in ("W", "WW"):
                    ops.append(("finalize: resurrect object %d (reached through weak %s->%d)" % (c, self.nm(s), c), "resurrect", (c,)))
        return ops

    @staticmethod
    def nm(h):
        return "root" if h == ROOT else "#%d" % h

    def paths(self, h, k, phase="Mark"):
        if h == ROOT:
            return ["root_barrier"]
        if phase == "Sleep":
            # while the collector sleeps every barrier form is specified (and shown by the barrier tables for every
            # pre-state) to do nothing: one representative keeps the construction of heaps cheap
            return ["write"]
        if k == "s":
            return ["write", "bwd_child", "fwd", "fwd_any", "stash"]
        return ["write", "bwd_child", "fwd", "fwd_any"]

    def path_label(self, path, h, c, k):
        kind = "strong" if k == "s" else "weak"
        return {"root_barrier": "mutate_root: store %s pointer to #%d in the root (root barrier)" % (kind, c),
                "write": "Gc::write(%s) [backward barrier, no child]; store %s pointer to #%d" % (self.nm(h), kind, c),
                "bwd_child": "backward_barrier%s(%s, #%d); store" % ("" if k == "s" else "_weak", self.nm(h), c),
                "fwd": "forward_barrier%s(Some(%s), #%d); store" % ("" if k == "s" else "_weak", self.nm(h), c),
                "fwd_any": "forward_barrier%s(None, #%d); store in %s" % ("" if k == "s" else "_weak", c, self.nm(h)),
                "stash": "DynamicRootSet::stash(set = %s, #%d) [the set object holds the stashed pointer while a handle exists]" % (
                    self.nm(h), c)}[path]

    def barrier(self, g, st, h, c, k, path):
        """Interpret the barrier call of a sanctioned adoption path on state st. Returns outcomes."""
        cx = self.m.ctx_ref()
        if path == "root_barrier":
            # the public entry point: Arena::mutate_root with an opaque callback (which stores the pointer, and in the
            # fault exploration may panic after having stored it - the arena is only borrowed and survives the panic)
            if "arena::Arena::mutate_root" in self.prog.seed_n:
                st.mem[("arena",)] = gcmodel.arena_value(self.prog, cx)
                ip = self.m.ip
                old_l = ip.lenient_std
                ip.lenient_std = True
                try:
                    return self.run(g, "arena::Arena::mutate_root", [ref(("arena",), ()), adt("closure:<user>", 0, ())], st)
                finally:
                    ip.lenient_std = old_l
            return self.run(g, "context::Context::root_barrier", [cx], st)
        if path == "stash":
            # the set object is h; the slot table itself is C14's business (slot tables, handle pairing): here the
            # recording of the pointer is an event and the barrier discipline of stash is what is interpreted
            def slot_add(ip, st_, args, info):
                st_.event("cell_store", "Slots::add")
                return [(st_, "ret", TOP)]
            st.mem[("set",)] = adt("dynamic_roots::DynamicRootSet", 0, (gc(h),))
            ip = self.m.ip
            old, old_l = ip.prims.get("dynamic_roots::Slots::add"), ip.lenient_std
            ip.prims["dynamic_roots::Slots::add"] = slot_add
            ip.lenient_std = True
            try:
                return self.run(g, "dynamic_roots::DynamicRootSet::stash", [ref(("set",), ()), cx, gc(c)], st)
            finally:
                ip.lenient_std = old_l
                if old is None:
                    ip.prims.pop("dynamic_roots::Slots::add", None)
                else:
                    ip.prims["dynamic_roots::Slots::add"] = old
        if path == "write":
            # the public entry point itself: Gc::write(mc, gc) issues the barrier and hands out the &Write
            ip = self.m.ip
            old_l = ip.lenient_std
            ip.lenient_std = True
            try:
                return self.run(g, "gc::Gc::write", [cx, gc(h)], st)
            finally:
                ip.lenient_std = old_l
        if path == "bwd_child":
            if k == "s":
                return self.run(g, "context::Mutation::backward_barrier", [cx, gc(h), some(gc(c))], st)
            return self.run(g, "context::Mutation::backward_barrier_weak", [cx, gc(h), gcw(c)], st)
        if path == "fwd":
            if k == "s":
                return self.run(g, "context::Mutation::forward_barrier", [cx, some(gc(h)), gc(c)], st)
            return self.run(g, "context::Mutation::forward_barrier_weak", [cx, some(gc(h)), gcw(c)], st)
        if k == "s":
            return self.run(g, "context::Mutation::forward_barrier", [cx, none(), gc(c)], st)
        return self.run(g, "context::Mutation::forward_barrier_weak", [cx, none(), gcw(c)], st)

    @staticmethod
    def callback_panicked(o):
        return o.kind == "unwind" and any(e[0] == "panic" and e[1] == "callback" for e in o.ev)

    def apply_mutator(self, g, kind, params):
        """Returns list of (g2, violations)."""
        res = []
        if kind == "del":
            h, c, k = params
            return [(g._replace(edges=g.edges - {(h, c, k)}), [])]
        if kind == "touch":
            (h,) = params
            for o in self.barrier(g, self.to_state(g), h, None, "s", "write"):
                g2, v = self.from_outcome(g, o, where="mutator")
                if o.kind != "return":
                    v.append(("PANIC-mutator", "a write barrier does not return normally (%s)" % o.kind))
                res.append((g2, v))
            return res
        if kind == "add":
            h, c, k, path = params
            for o in self.barrier(g, self.to_state(g), h, c, k, path):
                g2, v = self.from_outcome(g, o, where="mutator")
                if o.kind != "return" and not self.callback_panicked(o):
                    v.append(("PANIC-mutator", "a write barrier does not return normally (%s)" % o.kind))
                    res.append((g2, v))
                    continue
                # (a callback that panics may have stored the pointer first)
                res.append((g2._replace(edges=g2.edges | {(h, c, k)}), v))
            return res
        if kind == "alloc":
            n, nt, h, path = params
            objs = g.objs + (Obj(n, "W", 1, nt, None, 0, 0),)
            g1 = g._replace(objs=tuple(sorted(objs)))
            for o in self.run(g1, "context::Context::link", [self.m.ctx_ref(), obj(n)]):
                g2, v = self.from_outcome(g1, o, where="mutator")
                if o.kind != "return":
                    v.append(("PANIC-mutator", "allocation does not return normally"))
                    res.append((g2, v))
                    continue
                if h is None:
                    res.append((g2, v))
                    continue
                for o2 in self.barrier(g2, self.to_state(g2), h, n, "s", path):
                    g3, v2 = self.from_outcome(g2, o2, where="mutator")
                    if o2.kind != "return" and not self.callback_panicked(o2):
                        v2.append(("PANIC-mutator", "a write barrier does not return normally (%s)" % o2.kind))
                        res.append((g3, v + v2))
                        continue
                    res.append((g3._replace(edges=g3.edges | {(h, n, "s")}), v + v2))
            return res
        if kind == "upgrade":
            s, c, h = params
            for o in self.run(g, "context::Context::upgrade", [self.m.ctx_ref(), obj(c)]):
                g2, v = self.from_outcome(g, o, where="mutator")
                ok = o.kind == "return" and o.value == I(1)
                if o.kind != "return":
                    v.append(("PANIC-mutator", "upgrade does not return normally"))
                if not ok:
                    # H3: it must succeed for a strongly reachable target
                    if c in strong_closure(g, [ROOT]):
                        v.append(("H3", "upgrade of a weak pointer to the strongly reachable object %d fails" % c))
                    res.append((g2, v))
                    continue
                od = objs_dict(g2)
                if od[c].dropped or not od[c].live or od[c].freed:
                    v.append(("H3", "upgrade hands out a pointer to the destructed object %d" % c))
                path = "root_barrier" if h == ROOT else "write"
                for o2 in self.barrier(g2, self.to_state(g2), h, c, "s", path):
                    g3, v2 = self.from_outcome(g2, o2, where="mutator")
                    res.append((g3._replace(edges=g3.edges | {(h, c, "s")}), v + v2))
            return res
        if kind == "resurrect":
            (c,) = params
            for o in self.run(g, "context::Context::resurrect", [self.m.ctx_ref(), obj(c)]):
                g2, v = self.from_outcome(g, o, where="mutator")
                if o.kind != "return":
                    v.append(("PANIC-mutator", "resurrect does not return normally"))
                res.append((g2._replace(resurrected=g2.resurrected | {c}), v))
            return res
        return res

    # ------------------------------------------------------------------ end-to-end oracles run from a state
    def two_full_cycles(self, g):
        """H4: finish_cycle(); finish_cycle() with no mutation in between."""
        if self.calm is not self:
            r = self.calm.two_full_cycles(g)
            self.runs += self.calm.runs
            self.errors += self.calm.errors
            self.calm.runs, self.calm.errors = 0, []
            return r
        viol = []
        a = ref(("arena",), ())
        cur = [g]
        for _ in range(2):
            nxt = []
            for x in cur:
                for o in self.run(x, "arena::Arena::finish_cycle", [a]):
                    g2, v = self.from_outcome(x, o)
                    viol += v
                    if o.kind == "return":
                        nxt.append(g2)
            cur = nxt
        reach = strong_closure(g, [ROOT])
        on_list = set(linked_ids(g))
        for x in cur:
            od = objs_dict(x)
            weakly_held = {c for (s, c, k) in x.edges if k == "w" and (s == ROOT or s in reach)}
            for o in g.objs:
                p = od.get(o.id)
                if p is None or (not o.freed and o.id not in on_list):
                    continue        # leaked by a panicking destructor: documented, not revisited
                if o.id in reach:
                    if p.dropped or p.freed:
                        viol.append(("H4", "object %d is strongly reachable but was destructed by two full cycles" % o.id))
                else:
                    if not p.dropped and not o.dropped and o.live:
                        viol.append(("H4", "object %d is unreachable but survives two full cycles (retained conservatively)" % o.id))
                    if not p.freed and o.id not in weakly_held:
                        viol.append(("H4", "the block of the unreachable object %d is still allocated after two full cycles and no "
                                           "reachable weak pointer refers to it" % o.id))
            if x.phase != "Sleep":
                viol.append(("H4", "finish_cycle ends in phase %s" % x.phase))
        if not cur:
            viol.append(("H4", "finish_cycle(); finish_cycle() has no normal outcome"))
        return viol

    def marked_oracle(self, g):
        """H5: when finish_marking hands out a MarkedArena no strongly reachable object is dead."""
        if self.calm is not self:
            r = self.calm.marked_oracle(g)
            self.runs += self.calm.runs
            self.errors += self.calm.errors
            self.calm.runs, self.calm.errors = 0, []
            return r
        viol = []
        if g.phase == "Sweep":
            return viol
        a = ref(("arena",), ())
        for o in self.run(g, "arena::Arena::finish_marking", [a]):
            g2, v = self.from_outcome(g, o)
            viol += v
            if o.kind != "return":
                continue
            handed = o.value is not None and o.value[0] == "adt" and o.value[1] == OPT and o.value[2] == 1
            if not handed:
                viol.append(("H5", "finish_marking returns None although the arena was not Sweeping"))
                continue
            od = objs_dict(g2)
            for i in strong_closure(g2, [ROOT]):
                if od[i].colour in ("W", "WW"):
                    viol.append(("H5", "a MarkedArena is handed out while the strongly reachable object %d is dead (%s)" % (
                        i, od[i].colour)))
        return viol

    def arena_drop(self, g):
        """H2 at the end of life: dropping the arena destructs every live value once and releases every block once."""
        viol = []
        st = self.to_state(g)
        for o in self.run(g, "<context::Context as core::ops::drop::Drop>::drop", [self.m.ctx_ref()], st):
            g2, v = self.from_outcome(g, o)
            viol += [x for x in v if x[0] not in ("H1", "H5")]    # the arena is going away: nothing stays reachable
            if o.kind != "return":
                continue
            before = objs_dict(g)
            on_list = set(linked_ids(g))
            leaked = [b.id for b in g.objs if not b.freed and b.id not in on_list]   # only after a destructor panic
            for p in g2.objs:
                b = before[p.id]
                if b.freed or p.id in leaked:
                    continue
                want = 1 if (b.live and not b.dropped) else 0
                if p.dropped - b.dropped != want:
                    viol.append(("H2", "arena drop destructs object %d %d time(s) (live=%d before)" % (p.id, p.dropped - b.dropped, b.live)))
                if p.freed != 1:
                    viol.append(("H2", "arena drop releases the block of object %d %d time(s)" % (p.id, p.freed)))
            if g2.total != len(leaked):
                viol.append(("H6", "Gc count is %d after the arena was dropped" % g2.total))
        return viol

    # ------------------------------------------------------------------ exploration
    def expand(self, g, with_oracles=True, last_level=False):
        """Everything computed for one state: its own invariant violations, the end-to-end oracles, its successors."""
        own = self.check_state(g)
        orc = []
        if with_oracles:
            orc += [(v, "finish_cycle(); finish_cycle()") for v in self.two_full_cycles(g)]
            orc += [(v, "finish_marking()") for v in self.marked_oracle(g)]
            orc += [(v, "drop(arena)") for v in self.arena_drop(g)]
        succ = []
        if not last_level:
            for (lab, fn, args) in self.collector_ops(g):
                for o in self.run(g, fn, args):
                    g2, v = self.from_outcome(g, o)
                    if o.kind == "unwind" and g2.panics > self.max_panics:
                        continue
                    if o.kind == "unwind":
                        lab2 = lab + " [unwinds: %s]" % ([e[1] for e in o.ev if e[0] == "panic"][-1:],)
                    else:
                        lab2 = lab
                    succ.append((lab2, g2, v + self.check_state(g2)))
            for (lab, kind, params) in self.mutator_ops(g):
                for (g2, v) in self.apply_mutator(g, kind, params):
                    if g2.panics > self.max_panics:
                        continue
                    lab2 = lab + (" [the callback panics after the store; the panic is caught]" if g2.panics > g.panics else "")
                    succ.append((lab2, g2, v + self.check_state(g2)))
        errs, self.errors = self.errors, []
        runs, self.runs = self.runs, 0
        return own, orc, succ, runs, errs

    def explore(self, depth, budget_s, max_states=400000, jobs=1):
        """Level-synchronous breadth-first exploration from the empty arena; `jobs` worker processes expand a level."""
        t0 = time.time()
        init = empty_state()
        seen = {init: None}
        level = [init]
        viols = {}           # (invariant, text) -> operation sequence
        stats = collections.Counter()

        def path_to(g):
            out = []
            while seen.get(g) is not None:
                pg, lab = seen[g]
                out.append(lab)
                g = pg
            return list(reversed(out))

        def note(vs, g, lab=None):
            for (inv, text) in vs:
                k = (inv, text)
                if k not in viols:
                    viols[k] = path_to(g) + ([lab] if lab else [])
        pool = None
        if jobs > 1:
            import multiprocessing as mp
            global _WORKER_HEAP
            _WORKER_HEAP = self
            try:
                pool = mp.get_context("fork").Pool(jobs)
            except (OSError, ValueError):
                pool = None         # no worker processes available here: explore serially
        try:
            for d in range(depth + 1):
                if not level:
                    break
                if time.time() - t0 > budget_s or len(seen) > max_states:
                    stats["stopped_by_budget"] = 1
                    break
                last = d == depth
                if pool:
                    chunk = max(1, min(64, len(level) // (jobs * 8)))
                    results = pool.imap(_expand_worker, [(g, True, last) for g in level], chunksize=chunk)
                else:
                    results = (self.expand(g, True, last) for g in level)
                nxt = []
                for g, (own, orc, succ, runs, errs) in zip(level, results):
                    stats["interpreter_runs"] += runs
                    for e_ in errs:
                        if e_ not in self.all_errors:
                            self.all_errors.append(e_)
                    stats["states_expanded"] += 1
                    stats["oracle_runs"] += 3
                    note(own, g)
                    for (v, lab) in orc:
                        note([v], g, lab)
                    for (lab, g2, v) in succ:
                        stats["transitions"] += 1
                        if g2 not in seen:
                            seen[g2] = (g, lab)
                            nxt.append(g2)
                        note(v, g, lab)
                    if time.time() - t0 > budget_s or len(seen) > max_states:
                        # out of budget in the middle of a level: the rest of the level is not expanded
                        stats["stopped_by_budget"] = 1
                        if pool:
                            pool.terminate()
                            pool = None
                        break
                if stats.get("stopped_by_budget"):
                    stats["levels"] = d + 1
                    stats["level_%d_states" % d] = len(level)
                    break
                stats["levels"] = d + 1
                stats["level_%d_states" % d] = len(level)
                level = nxt
        finally:
            if pool:
                pool.close()
                pool.join()
        stats["states"] = len(seen)
        stats["wall_s"] = round(time.time() - t0, 1)
        return viols, dict(stats)


_WORKER_HEAP = None


def _expand_worker(arg):
    g, with_oracles, last = arg
    return _WORKER_HEAP.expand(g, with_oracles, last)
