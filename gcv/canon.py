"""Role inference for renamed private items (applied when the fact file is loaded, after module moves have been
read through, see facts.load).

The rules name the collector's private functions by the names they have on the pinned tree. A private function may be
renamed without any behaviour changing. When a pinned name is gone, the function that plays its role is looked for by
its *position in the call graph relative to names that cannot change* (the public API, trait methods of public traits,
and roles already resolved) and by its signature shape; if exactly one function fits, it is read under the pinned name.
Nothing is guessed from spelling. A wrong match cannot make a check pass vacuously: the matched function is then
analysed as if it were the pinned one, and every table / contract of that role applies to it.

Returns [(current path, pinned path)] for facts.load to substitute."""
import collections
import re


def _n(path):
    from gcv.model import norm
    return norm(path)


class _G:
    def __init__(self, data):
        from gcv import model
        self.prog = model.Program(data, "canon")
        self.prog.edges()
        self.fns = {}
        for f in data.get("fns", []):
            self.fns.setdefault(_n(f["path"]), f)
        self.bodies = {d: self.prog.bodies[ks[0]] for d, ks in self.prog.seed_n.items()}
        self.callees = collections.defaultdict(set)
        for d in self.bodies:
            for e in self.prog.calls_from(d):
                if e.callee:
                    self.callees[d].add(e.callee)
                if e.declared:
                    self.callees[d].add(e.declared)

    def reach(self, roots, depth=6):
        seen = set(roots)
        work = [(r, 0) for r in roots]
        while work:
            f, d = work.pop()
            if d >= depth:
                continue
            for c in self.callees.get(f, ()):
                if c not in seen:
                    seen.add(c)
                    work.append((c, d + 1))
        return seen

    def local_fn(self, f):
        return f in self.bodies and not f.startswith(("core::", "alloc::", "std::", "<core::", "<alloc::", "<std::"))

    def argc(self, f):
        return self.bodies[f].get("argc") if f in self.bodies else None

    def out_s(self, f):
        return ((self.fns.get(f) or {}).get("output") or {}).get("s", "")


def role_aliases(data):
    g = _G(data)
    have = lambda p: p in g.bodies
    out = []
    CTX = "context::Context::"

    def methods_of_context(cands):
        return sorted(c for c in cands if c.startswith(CTX) and c.count("::") == 2 and g.local_fn(c))

    def propose(pinned, cands):
        cands = [c for c in cands if c != pinned]
        if not have(pinned) and len(cands) == 1 and not any(src == cands[0] for src, _ in out):
            out.append((cands[0], pinned))
            # make the resolved name visible to later finders
            g.bodies[pinned] = g.bodies[cands[0]]
            g.callees[pinned] = g.callees[cands[0]]
            for f in list(g.callees):
                if cands[0] in g.callees[f]:
                    g.callees[f].add(pinned)
            if cands[0] in g.fns:
                g.fns[pinned] = g.fns[cands[0]]

    # ---- the driver loop: the one Context method every debt / cycle method of Arena goes through
    arena = ["arena::Arena::collect_debt", "arena::Arena::mark_debt", "arena::Arena::finish_marking", "arena::Arena::cycle_debt",
             "arena::Arena::finish_cycle"]
    if all(have(a) for a in arena):
        common = None
        for a in arena:
            r = set(methods_of_context(g.reach([a], depth=3)))
            common = r if common is None else common & r
        # the driver is the one that takes (self, root, run_until, stop)
        propose(CTX + "do_collection", [c for c in (common or ()) if g.argc(c) == 4])
    # ---- one marking step / one sweeping step: the two callees of the driver that report ControlFlow
    if have(CTX + "do_collection"):
        steps = [c for c in methods_of_context(g.callees[CTX + "do_collection"]) if "ControlFlow<" in g.out_s(c)]
        propose(CTX + "mark_one", [c for c in steps if g.argc(c) == 2])
        propose(CTX + "sweep_one", [c for c in steps if g.argc(c) == 1])
        # the phase guard's two transitions: methods of the (non-Context) local type the driver calls with a Phase argument
        guard = sorted(c for c in g.callees[CTX + "do_collection"] if g.local_fn(c) and not c.startswith(CTX)
                       and c.startswith("context::") and c.count("::") == 2)
        def takes_phase(c, optional):
            ins = (g.fns.get(c) or {}).get("inputs") or []
            ts = [i.get("s", "") for i in ins]
            return any(("Option<context::Phase>" in t) if optional else (t == "context::Phase") for t in ts)
        ent = [c for c in guard if takes_phase(c, True)]
        sw = [c for c in guard if takes_phase(c, False)]
        if ent and not have("context::PhaseGuard::enter") and len(ent) == 1 and \
                ent[0].rsplit("::", 1)[0] != "context::PhaseGuard":
            # the type first: its methods follow by prefix, and are looked at again in the next round (facts.load iterates)
            out.append((ent[0].rsplit("::", 1)[0], "context::PhaseGuard"))
        else:
            propose("context::PhaseGuard::enter", ent)
            propose("context::PhaseGuard::switch", sw)
    # ---- re-queue of a Black object: reached both from the backward barrier and from the unwind guard of a marking step
    if have(CTX + "backward_barrier") and have(CTX + "mark_one"):
        a = set(methods_of_context(g.reach([CTX + "backward_barrier"], depth=3))) - {CTX + "backward_barrier"}
        b = set(methods_of_context(g.reach([CTX + "mark_one"], depth=3))) - {CTX + "mark_one"}
        propose(CTX + "make_gray_again", sorted(x for x in a & b if g.argc(x) == 2))
    # ---- the collector-side halves of the public mutation API (each public wrapper forwards to exactly one Context method)
    for pub, pinned in (("context::Mutation::backward_barrier", CTX + "backward_barrier"),
                        ("context::Mutation::backward_barrier_weak", CTX + "backward_barrier_weak"),
                        ("context::Mutation::forward_barrier", CTX + "forward_barrier"),
                        ("context::Mutation::forward_barrier_weak", CTX + "forward_barrier_weak"),
                        ("<context::Context as collect::Trace>::trace_gc", CTX + "trace"),
                        ("<context::Context as collect::Trace>::trace_gc_weak", CTX + "trace_weak")):
        if have(pub):
            propose(pinned, methods_of_context(g.callees[pub]))
    out += _gc_ptr(g, data, have)
    out += _dynamic_roots(g, data, have, propose)
    out += _metrics(g, data, have, propose)
    # de-duplicate, keep order
    seen, res = set(), []
    for x in out:
        if x not in seen:
            seen.add(x)
            res.append(x)
    return res


def _adt(data, path):
    for a in data.get("adts", []):
        if re.sub(r"<.*", "", a["path"]) == path:
            return a
    return None


def _inner_type(ty_s, wrapper):
    """`wrapper<X ...>` -> the path of X (first type argument), generic arguments and lifetimes dropped."""
    m = re.search(re.escape(wrapper) + r"<(?:'[a-z_]+,\s*)?([A-Za-z_0-9:]+)", ty_s or "")
    return m.group(1) if m else None


def _gc_ptr(g, data, have):
    """The private helper type of gc_ptr.rs that knows the header layout (PtrProps today): the one local type that
    has both a `fat_ptr` and a `read_ptr_meta` associated function; and the header's tagged vtable word, by its type."""
    out = []
    if not have("gc_ptr::PtrProps::fat_ptr"):
        owners = {}
        for f in g.bodies:
            m = re.match(r"^(gc_ptr::[A-Za-z_0-9]+)::(fat_ptr|read_ptr_meta)$", f)
            if m:
                owners.setdefault(m.group(1), set()).add(m.group(2))
        c = [t for t, ms in owners.items() if ms == {"fat_ptr", "read_ptr_meta"}]
        if len(c) == 1 and c[0] != "gc_ptr::PtrProps":
            out.append((c[0], "gc_ptr::PtrProps"))
    h = _adt(data, "gc_ptr::GcHeader")
    if h:
        fs = h["variants"][0]["fields"]
        if not any(f["name"] == "tagged_vtable" for f in fs):
            c = [f for f in fs if "GcVtable" in f.get("ty_s", "") and "Cell<" in f.get("ty_s", "")]
            if len(c) == 1:
                c[0]["name"] = "tagged_vtable"
        if not any(f["name"] == "next" for f in fs):
            c = [f for f in fs if "Option<gc_ptr::GcPtr>" in f.get("ty_s", "")]
            if len(c) == 1:
                c[0]["name"] = "next"
    return out


def _dynamic_roots(g, data, have, propose):
    """Inner / Slots / Slot and the slot operations, from the public DynamicRootSet / DynamicRoot API."""
    out = []
    SET, DR = "dynamic_roots::DynamicRootSet", "dynamic_roots::DynamicRoot"
    a = _adt(data, SET)
    if not a:
        return out
    f0 = a["variants"][0]["fields"]
    inner = _inner_type(f0[0].get("ty_s", ""), "gc::Gc") if f0 else None

    def type_alias(cur, pinned):
        if cur and cur != pinned and _adt(data, cur) and not _adt(data, pinned):
            out.append((cur, pinned))
            return True
        return False
    if type_alias(inner, "dynamic_roots::Inner"):
        return out          # one level per round (facts.load iterates)
    ai = _adt(data, "dynamic_roots::Inner")
    slots = None
    for f in (ai or {"variants": [{"fields": []}]})["variants"][0]["fields"]:
        m = re.search(r"RefCell<([A-Za-z_0-9:]+)", f.get("ty_s", ""))
        if m:
            slots = m.group(1)
    if type_alias(slots, "dynamic_roots::Slots"):
        return out
    asl = _adt(data, "dynamic_roots::Slots")
    slot = None
    for f in (asl or {"variants": [{"fields": []}]})["variants"][0]["fields"]:
        m = re.search(r"Vec<([A-Za-z_0-9:]+)", f.get("ty_s", ""))
        if m:
            slot = m.group(1)
    if type_alias(slot, "dynamic_roots::Slot"):
        return out
    if asl:
        # private field names: the slot vector is the Vec field, the free-list head the other one
        fs = asl["variants"][0]["fields"]
        if len(fs) == 2 and not {"slots", "next_free"} <= {f["name"] for f in fs}:
            for f in fs:
                f["name"] = "slots" if f.get("ty_s", "").startswith("alloc::vec::Vec<") else "next_free"
    S = "dynamic_roots::Slots::"
    ops = lambda caller: sorted(c for c in g.callees.get(caller, ()) if c.startswith(S) and c.count("::") == 2)
    if have(SET + "::stash"):
        propose(S + "add", ops(SET + "::stash"))
    if have(SET + "::new"):
        propose(S + "new", ops(SET + "::new"))
    if have("<%s as core::clone::Clone>::clone" % DR):
        propose(S + "inc", ops("<%s as core::clone::Clone>::clone" % DR))
    if have("<%s as core::ops::drop::Drop>::drop" % DR):
        propose(S + "dec", ops("<%s as core::ops::drop::Drop>::drop" % DR))
    return out


def _metrics(g, data, have, propose):
    """MetricsInner, its counters and the crate-internal update helpers, from the public Metrics API: the role of a
    counter is read off `allocation_debt` (which pacing factor weighs it), `total_gc_count` and `adjust_debt`; the role
    of a helper is what it does to those counters."""
    out = []
    M = "metrics::Metrics"
    a = _adt(data, M)
    if not a:
        return out
    inner = None
    for f in a["variants"][0]["fields"]:
        inner = inner or _inner_type(f.get("ty_s", ""), "alloc::rc::Rc")
    if inner and inner != "metrics::MetricsInner" and _adt(data, inner) and not _adt(data, "metrics::MetricsInner"):
        out.append((inner, "metrics::MetricsInner"))
        return out
    mi = _adt(data, "metrics::MetricsInner")
    if not mi or not _adt(data, "metrics::Pacing"):
        return out
    from gcv import rules_debt, interp
    want = set(rules_debt.CYCLE_COUNTERS) | {"total_gcs", "wakeup_amount", "artificial_debt"}
    try:
        names = set(rules_debt.leaf_paths(g.prog))
    except Exception:
        return out
    if not want <= names and have(M + "::allocation_debt"):
        roles = {}
        try:
            rets, _all = rules_debt.debt_outcomes(g.prog)
            main = [o.value for o in rets if o.value[0] == "app" and o.value[1] == "max"]
            if len(main) == 1:
                x = [t for t in main[0][2] if t != ("f", 0.0)][0]
                pol = rules_debt.polarity(x)
                inv = {v: k for k, v in rules_debt.CREDITS.items()}
                for sym, ps in pol.items():
                    for (sign, co) in ps:
                        co = set(co)
                        if sign < 0 and len(co) == 1 and next(iter(co)) in inv:
                            roles[sym] = inv[next(iter(co))]
                unit = [(sym, sign) for sym, ps in pol.items() for (sign, co) in ps if not co and sym not in rules_debt.CREDITS.values()]
                # debits: the usize counter (cast to f64) and the f64 artificial debt enter with +1, the wake-up amount with -1
                neg = [s_ for s_, sg in unit if sg < 0]
                if len(neg) == 1:
                    roles[neg[0]] = "wakeup_amount"
            # the counter tested against zero first: the live count
            for o in rets:
                for (p_, q_), r in o.st.cons.items():
                    if r == frozenset("=") and q_ == ("i", 0) and p_[0] == "sym" and o.value == ("f", 0.0) and len(o.st.cons) == 1:
                        roles[p_[1]] = "total_gcs"
        except (interp.Unmodelled, interp.InterpError, KeyError, IndexError):
            roles = {}
        # adjust_debt adds its argument to the artificial debt
        if have(M + "::adjust_debt"):
            try:
                ip = rules_debt.interp_for(g.prog)
                st = rules_debt.mk_state(g.prog)
                outs = [o for o in ip.run(g.prog.seed_n[M + "::adjust_debt"][0], [interp.ref(("m",), ()), ("sym", "x")], st) if o.kind == "return"]
                for n in names:
                    v = rules_debt.field(g.prog, outs[0].st, n) if outs else None
                    if v is not None and v != ("sym", n) and "x" in str(v):
                        roles[n] = "artificial_debt"
            except (interp.Unmodelled, interp.InterpError, KeyError, IndexError):
                pass
        # what is left of the +1 debits is the allocation counter
        try:
            left = [s_ for s_, sg in unit if sg > 0 and s_ not in roles]
            if len(left) == 1:
                roles[left[0]] = "allocated_gcs"
        except NameError:
            pass
        # rename the fields in the ADT tables (MIR refers to fields by index; only the tables carry names)
        if roles and len(set(roles.values())) == len(roles):
            def rename(adt_path):
                ad = _adt(data, adt_path)
                for f in (ad or {"variants": [{"fields": []}]})["variants"][0]["fields"]:
                    if f["name"] in roles:
                        f["name"] = roles[f["name"]]
                    sub = rules_debt._struct_of(g.prog, f) if "ty" in f else None
                    if sub and sub != "metrics::Pacing":
                        rename(sub)
            rename("metrics::MetricsInner")
            for f in mi["variants"][0]["fields"]:
                if "Pacing" in f.get("ty_s", "") and f["name"] != "pacing":
                    f["name"] = "pacing"
            data["field_roles"] = roles
            g.__init__(data)
    # helpers by effect
    spec = {"mark_gc_allocated": {"total_gcs": "Add", "allocated_gcs": "Add"}, "mark_gc_freed": {"total_gcs": "Sub", "freed_gcs": "Add"},
            "mark_gc_dropped": {"dropped_gcs": "Add"}, "mark_gc_marked": {"marked_gcs": "Add"}, "mark_gc_traced": {"traced_gcs": "Add"},
            "mark_gc_untraced": {"traced_gcs": "Sub"}, "mark_gc_remembered": {"remembered_gcs": "Add"}}
    missing = [h for h in spec if not have(M + "::" + h)]
    if missing:
        try:
            ip = rules_debt.interp_for(g.prog)
            names = rules_debt.leaf_names(g.prog)
            cands = [c for c in g.bodies if c.startswith(M + "::") and c.count("::") == 2 and g.argc(c) == 2
                     and c.split("::")[-1] not in spec and g.out_s(c) in ("()", "")]
            effects = {}
            for c in cands:
                ins = (g.fns.get(c) or {}).get("inputs") or []
                if len(ins) != 2 or ins[1].get("s") != "usize":
                    continue
                st = rules_debt.mk_state(g.prog)
                outs = [o for o in ip.run(g.prog.seed_n[c][0], [interp.ref(("m",), ()), ("sym", "n")], st) if o.kind == "return"]
                eff = {}
                for o in outs[:1]:
                    for n in names:
                        v = rules_debt.field(g.prog, o.st, n)
                        if v != ("sym", n):
                            eff[n] = "Add" if rules_debt._is_op(v, "Add", n) else ("Sub" if rules_debt._is_op(v, "Sub", n) else "?")
                effects[c] = eff
            for h in missing:
                propose(M + "::" + h, [c for c, e in effects.items() if e == spec[h]])
        except (interp.Unmodelled, interp.InterpError, KeyError, IndexError):
            pass
    # the cycle roll-over: the Metrics method the driver loop calls besides the debt query
    if not have(M + "::finish_cycle") and have("context::Context::do_collection"):
        propose(M + "::finish_cycle", [c for c in g.callees["context::Context::do_collection"] if c.startswith(M + "::")
                                       and c.count("::") == 2 and c != M + "::allocation_debt" and g.argc(c) == 2])
    return out
