"""Rules about the one cross-arena channel, DynamicRoot handles (shared by C12, C14, C20): a handle is
re-branded only after `contains()` said yes, and `contains()` decides by the identity of the slot table
that the set owns (Rc) and the handle weakly references (Weak) - an identity the handle itself keeps
reserved for as long as it exists, so it cannot be taken over by a later set of this or another arena."""
from gcv import interp, typestate
from gcv.interp import Interp, State, adt, ref, I, UNIT

DR = "dynamic_roots::DynamicRoot"
SET = "dynamic_roots::DynamicRootSet"
OPT = "core::option::Option"
HANDLE_PTR = ("obj", 7)


def handle_value(prog, ptr=HANDLE_PTR, idx=3):
    """An abstract DynamicRoot built from the type's current field list (by field type, not position):
    the stashed pointer, the weak slot-table reference, the slot index; any further field is opaque."""
    a = prog.adts.get(DR)
    vals, pos = [], {}
    for i, f in enumerate(a["variants"][0]["fields"]):
        ts = f.get("ty_s", "")
        if ts.startswith("gc::Gc<") and "ptr" not in pos:
            pos["ptr"] = i
            vals.append(adt("gc::Gc", 0, (ptr, UNIT)))
        elif ts.startswith("alloc::rc::Weak<") and "slots" not in pos:
            pos["slots"] = i
            vals.append(("sym", "weak_slots"))
        elif ts in ("usize", "dynamic_roots::Index") and "index" not in pos:
            pos["index"] = i
            vals.append(I(idx))
        else:
            vals.append(("sym", "handle_field_%s" % f["name"]))
    if "index" not in pos:
        # an index newtype: the field whose type is what Slots::add returns; its value stays an opaque token
        add = (prog.fn_n.get("dynamic_roots::Slots::add") or [{}])[0]
        rs = (add.get("output") or {}).get("s")
        for i, f in enumerate(a["variants"][0]["fields"]):
            if rs and f.get("ty_s") == rs and i not in pos.values():
                pos["index"] = i
                vals[i] = ("sym", "slot_token")
    return adt(DR, 0, tuple(vals)), pos


def _subterms(v):
    yield v
    if isinstance(v, tuple):
        for x in v:
            if isinstance(x, tuple):
                yield from _subterms(x)


def contains_identity(chk, prog, c, rule="handle-identity-check"):
    fn = SET + "::contains"
    if not chk.anchor(fn, fn in prog.seed_n, "(config %s)" % c):
        return
    m = typestate.engine(c)[1].m
    hv, pos = handle_value(prog)
    if not chk.anchor(DR + ".slots: Weak<..>", "slots" in pos, "(config %s)" % c):
        return

    def term(name):
        def h(ip, st, args, info):
            return [(st, "ret", ("app", name, tuple(args)))]
        return h

    def upgrade(ip, st, args, info):
        s2 = st.fork()
        s2.event("weak_dead")
        return [(st, "ret", adt(OPT, 1, (("app", "Weak::upgrade", tuple(args)),))), (s2, "ret", adt(OPT, 0, ()))]
    added = {"alloc::rc::Rc::as_ptr": term("Rc::as_ptr"), "alloc::rc::Weak::as_ptr": term("Weak::as_ptr"),
             "alloc::rc::Rc::ptr_eq": term("Rc::ptr_eq"), "alloc::rc::Weak::ptr_eq": term("Weak::ptr_eq"),
             "alloc::rc::Rc::downgrade": term("Rc::downgrade"), "alloc::rc::Weak::upgrade": upgrade}
    saved = {k: m.ip.prims.get(k) for k in added}
    m.ip.prims.update(added)
    m.ip.lenient_std = True
    probs = []
    try:
        st = m.mk_state(phase="Sleep", objs={1: {"colour": "W"}})
        st.mem[("set",)] = adt(SET, 0, (adt("gc::Gc", 0, (("obj", 1), UNIT)),))
        st.mem[("h",)] = hv
        outs = m.ip.run(prog.seed_n[fn][0], [ref(("set",), ()), ref(("h",), ())], st)
        n_id = 0
        for o in outs:
            if o.kind != "return":
                probs.append("contains() may %s" % o.kind)
                continue
            v = o.value
            if v == I(0) and any(e[0] == "weak_dead" for e in o.ev):
                continue        # the handle's set is gone: `false` without a comparison is right
            subs = list(_subterms(v))
            is_cmp = (v[0] == "cmp" and v[1] == "Eq") or (v[0] == "app" and v[1] in ("Rc::ptr_eq", "Weak::ptr_eq", "core::ptr::eq",
                                                                                      "core::ptr::addr_eq"))
            own = any(s[0] == "app" and s[1] in ("Rc::as_ptr", "Rc::ptr_eq", "Rc::downgrade")
                      and any(x == ("valref", 1) for x in _subterms(s)) for s in subs if isinstance(s, tuple) and s)
            theirs = any(s[0] == "app" and s[1] in ("Weak::as_ptr", "Weak::ptr_eq", "Weak::upgrade")
                         and any(x == ref(("h",), (pos["slots"],)) for x in _subterms(s)) for s in subs if isinstance(s, tuple) and s)
            if is_cmp and own and theirs:
                n_id += 1
            else:
                probs.append("contains() returns %s: not the identity comparison of the slot table owned by this set "
                             "(its Rc) with the slot table the handle weakly references (its Weak). Only that "
                             "identity is kept reserved by the handle itself; any other token (an address that can "
                             "be reused once the set is freed, an index, a counter) lets a later set of this or "
                             "another arena accept the handle" % _short(v))
        if not outs or (not n_id and not probs):
            probs.append("no outcome of contains() compares identities")
    except (interp.Unmodelled, interp.InterpError) as e:
        probs.append("could not be analysed: %s" % e)
    finally:
        for k, v in saved.items():
            if v is None:
                m.ip.prims.pop(k, None)
            else:
                m.ip.prims[k] = v
        m.ip.lenient_std = False
    chk.inst(rule, "%s[%s]" % (fn, c), not probs, detail="; ".join(sorted(set(probs))[:2]),
             sample={"fn": fn, "rule": "contains == (identity of set.slots Rc) == (identity of handle.slots Weak)"})


def _short(v, depth=0):
    if not isinstance(v, tuple):
        return str(v)
    if depth > 3:
        return "..."
    if v and v[0] == "app":
        return "%s(%s)" % (v[1], ", ".join(_short(x, depth + 1) for x in v[2]))
    if v and v[0] == "cmp":
        return "(%s %s %s)" % (_short(v[2], depth + 1), v[1], _short(v[3], depth + 1))
    return "(" + ", ".join(_short(x, depth + 1) for x in v) + ")"


def _well_formed_set(prog, st, hv, pos):
    """Memory for a set that really issued the handle: the slot at the handle's index is occupied by the handle's
    pointer (what stash establishes and only the drop of the last clone undoes). A fetch that re-validates the slot
    (a conservative extra check) then sees what it would see at run time. Returns extra primitives, or {} when the
    table's representation is not the reviewed one (the fetch contract is then judged without the memory)."""
    INNER, SLOTS, SLOT = "dynamic_roots::Inner", "dynamic_roots::Slots", "dynamic_roots::Slot"
    ai, asl, aslot = prog.all_adts.get(INNER), prog.all_adts.get(SLOTS), prog.all_adts.get(SLOT)
    if not (ai and asl and aslot) or "index" not in pos or "ptr" not in pos:
        return {}
    vn = [v["name"] for v in aslot["variants"]]
    if set(vn) != {"Vacant", "Occupied"}:
        return {}
    occ_i, vac_i = vn.index("Occupied"), vn.index("Vacant")
    if hv[3][pos["index"]][0] != "i":
        return {}
    idx = hv[3][pos["index"]][1]
    occ_fields = []
    for f in aslot["variants"][occ_i]["fields"]:
        occ_fields.append(hv[3][pos["ptr"]] if f.get("ty_s", "").startswith("gc::Gc<") else I(0))
    vac = adt(SLOT, vac_i, tuple(("sym", "free_link") for _ in aslot["variants"][vac_i]["fields"]))
    elems = tuple(adt(SLOT, occ_i, tuple(occ_fields)) if i == idx else vac for i in range(idx + 1))
    st.mem[("slots",)] = adt(SLOTS, 0, tuple(("vec", elems) if f.get("ty_s", "").startswith("alloc::vec::Vec<") else ("sym", f["name"])
                                             for f in asl["variants"][0]["fields"]))
    st.mem[("inner",)] = adt(INNER, 0, tuple(ref(("slots",), ()) if f.get("ty_s", "").startswith("alloc::rc::Rc<") else ("sym", f["name"])
                                             for f in ai["variants"][0]["fields"]))
    st.mem[("set",)] = adt(SET, 0, (adt("gc::Gc", 0, (("obj", 1), UNIT)),))

    def gc_deref(ip, st_, args, info):
        return [(st_, "ret", ref(("inner",), ()))]

    def rc_deref(ip, st_, args, info):
        a = args[0]
        if a[0] == "ref" and a[1] in st_.mem:
            v = ip.read(st_, a[1], a[2])
            if v[0] == "ref":
                return [(st_, "ret", v)]
        return NotImplemented

    def ident_ref(ip, st_, args, info):
        return [(st_, "ret", args[0])] if args[0][0] == "ref" and args[0][1] in st_.mem else NotImplemented

    def slice_get(ip, st_, args, info):
        r, i = args[0], args[1]
        if r[0] == "ref" and r[1] in st_.mem and i[0] == "i":
            v = ip.read(st_, r[1], r[2])
            if v[0] == "vec":
                if i[1] < len(v[1]):
                    return [(st_, "ret", adt(OPT, 1, (ref(r[1], r[2] + (i[1],)),)))]
                return [(st_, "ret", adt(OPT, 0, ()))]
        return NotImplemented
    return {"<gc::Gc as core::ops::deref::Deref>::deref": gc_deref, "gc::Gc::as_ref": gc_deref,
            "<alloc::rc::Rc as core::ops::deref::Deref>::deref": rc_deref,
            "<alloc::vec::Vec as core::ops::deref::Deref>::deref": ident_ref, "alloc::vec::Vec::as_slice": ident_ref,
            "core::slice::<impl [T]>::get": slice_get}


def fetch_rules(chk, prog, c=None, rule="fetch-contract"):
    """fetch / try_fetch hand out (re-brand) the handle's pointer exactly when contains() said yes."""
    hv, pos = handle_value(prog)
    for fn in (SET + "::fetch", SET + "::try_fetch"):
        if not chk.anchor(fn, fn in prog.seed_n):
            continue
        for ans in (1, 0):
            def contains(ip, st, args, info, ans=ans):
                st.event("contains_called")
                return [(st, "ret", I(ans))]
            st = State()
            st.mem[("h",)] = hv
            st.mem[("set",)] = ("sym", "set")
            extra = _well_formed_set(prog, st, hv, pos) if ans else {}
            ip = Interp(prog, prims=dict(extra, **{SET + "::contains": contains}), strict=True)
            ip.lenient_std = True
            name = "%s(contains=%s)%s" % (fn.split("::")[-1], bool(ans), "[%s]" % c if c else "")
            try:
                outs = ip.run(prog.seed_n[fn][0], [ref(("set",), ()), ref(("h",), ())], st)
            except (interp.Unmodelled, interp.InterpError) as e:
                chk.inst(rule, name, False, detail="could not be analysed: %s" % e)
                continue
            probs = []
            gcv = hv[3][pos["ptr"]]
            for o in outs:
                if ans:
                    if o.kind != "return":
                        probs.append("%s fails for a handle of this set" % fn)
                    else:
                        v = o.value
                        got = v if fn.endswith("::fetch") else (v[3][0] if v[0] == "adt" and v[2] == 0 and v[3] else None)
                        if got != gcv:
                            probs.append("the returned pointer is not the handle's pointer")
                else:
                    if fn.endswith("::fetch") and o.kind == "return":
                        probs.append("fetch returns a pointer for a foreign handle")
                    if fn.endswith("try_fetch") and not (o.kind == "return" and o.value[0] == "adt" and o.value[2] == 1):
                        probs.append("try_fetch does not return Err for a foreign handle")
                if not any(e[0] == "contains_called" for e in o.ev):
                    probs.append("%s hands out the pointer without asking contains()" % fn)
            chk.inst(rule, name, not probs, detail="; ".join(sorted(set(probs))[:2]))
