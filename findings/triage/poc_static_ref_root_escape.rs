#![forbid(unsafe_code)]
use gc_arena::{Arena, Gc, Rootable};
use std::any::Any;
fn main() {
    let escaped: Gc<'static, i32> = {
        let arena = Arena::<Rootable![&'static Gc<'_, i32>]>::new(|mc| Box::leak(Box::new(Gc::new(mc, 4))));
        let b: Box<dyn Any> = arena.mutate(|_mc, root| { let g: Gc<'_, i32> = **root; Box::new(g) as Box<dyn Any> });
        *b.downcast::<Gc<'static, i32>>().unwrap()
    };
    println!("{}", *escaped);
}
