use gc_arena::{Arena, Collect, Gc, Rootable, lock::RefLock, barrier::Write, arena::CollectionPhase};
use std::rc::Rc;

#[derive(Collect)]
#[collect(no_drop)]
struct Root<'gc> {
    counter: Gc<'gc, RefLock<i32>>,
    holder: Gc<'gc, RefLock<Option<Gc<'gc, String>>>>,
    shared: Gc<'gc, Rc<RefLock<Option<Gc<'gc, String>>>>>,
}

fn mk() -> Arena<Rootable![Root<'_>]> {
    Arena::<Rootable![Root<'_>]>::new(|mc| Root {
        counter: Gc::new(mc, RefLock::new(0)),
        holder: Gc::new(mc, RefLock::new(None)),
        shared: Gc::new(mc, Rc::new(RefLock::new(None))),
    })
}

fn main() {
    let which = std::env::args().nth(1).unwrap();
    match which.as_str() {
        "c10" => {
            let mut arena = mk();
            arena.finish_marking(); // everything black, counter is non-tracing
            assert_eq!(arena.collection_phase(), CollectionPhase::Marked);
            // make traced_gcs == 0? holder/shared are tracing types so traced>0. use fresh arena with only counter
            #[derive(Collect)]
            #[collect(no_drop)]
            struct R2<'gc> { c: Gc<'gc, RefLock<i32>> }
            let mut a2 = Arena::<Rootable![R2<'_>]>::new(|mc| R2 { c: Gc::new(mc, RefLock::new(0)) });
            a2.finish_marking();
            let before = a2.metrics().allocation_debt();
            a2.metrics().adjust_debt(1000.0);
            println!("debt before barrier {}", a2.metrics().allocation_debt());
            a2.mutate(|mc, r| { *r.c.borrow_mut(mc) += 1; });
            println!("debt after barrier {} (before adj {})", a2.metrics().allocation_debt(), before);
        }
        "c13ref" => {
            let mut arena = mk();
            arena.finish_marking();
            arena.mutate(|mc, root| {
                let s = Gc::new(mc, String::from("hello"));
                let mut r: &RefLock<Option<Gc<String>>> = &*root.holder; // no barrier
                let w: &Write<RefLock<Option<Gc<String>>>> = Write::from_mut(&mut r).as_deref();
                *w.unlock().borrow_mut() = Some(s);
            });
            arena.finish_cycle();
            arena.mutate(|_, root| {
                let b = root.holder.borrow();
                println!("dangling read: {:?}", b.as_ref().map(|g| g.len()));
            });
        }
        "c13rc" => {
            let mut arena = mk();
            arena.finish_marking();
            arena.mutate(|mc, root| {
                let s = Gc::new(mc, String::from("hello"));
                // new unlinked holder object sharing the Rc; barrier applies to the *new* object only
                let other: Gc<Rc<RefLock<Option<Gc<String>>>>> = Gc::new(mc, Rc::clone(&*root.shared));
                let w = Gc::write(mc, other).as_deref();
                *w.unlock().borrow_mut() = Some(s);
            });
            arena.finish_cycle();
            arena.mutate(|_, root| {
                let b = root.shared.borrow();
                println!("dangling read: {:?}", b.as_ref().map(|g| g.len()));
            });
        }
        "c19" => {
            enum Void {}
            gc_arena::arena::rootless_mutate(|mc| {
                let z = gc_arena::zst_cache::ZstCache::<8>::new(mc);
                let v: Option<Gc<Void>> = z.alloc_zst::<Void>();
                println!("conjured Gc<Void>: {}", v.is_some());
            });
        }
        _ => {}
    }
}
