use gc_arena::{arena::CollectionPhase, metrics::Pacing, Arena, Gc, Rootable};

#[test]
fn stw_all_garbage_ends_sleeping() {
    let mut arena = Arena::<Rootable![()]>::new(|_| ());
    arena.metrics().set_pacing(Pacing {
        min_sleep: 100,
        sleep_factor: 1.5,
        ..Pacing::STOP_THE_WORLD
    });
    arena.finish_cycle();
    arena.mutate(|mc, _| {
        for _ in 0..1000 {
            Gc::new(mc, 0u8);
        }
    });
    assert!(arena.metrics().allocation_debt() > 0.0);
    arena.collect_debt();
    assert_eq!(arena.metrics().total_gc_count(), 0);
    assert_eq!(arena.collection_phase(), CollectionPhase::Sleeping);
}
