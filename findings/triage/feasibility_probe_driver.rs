#![feature(rustc_private)]
extern crate rustc_driver;
extern crate rustc_interface;
extern crate rustc_middle;
extern crate rustc_hir;
extern crate rustc_span;

use rustc_driver::Compilation;
use rustc_middle::ty::{self, TyCtxt, Instance, TypingEnv, EarlyBinder};
use rustc_middle::mir::{TerminatorKind};
use rustc_hir::def::DefKind;
use std::collections::{HashSet, VecDeque};

struct Cb;
impl rustc_driver::Callbacks for Cb {
    fn after_analysis<'tcx>(&mut self, _c: &rustc_interface::interface::Compiler, tcx: TyCtxt<'tcx>) -> Compilation {
        let krate = tcx.crate_name(rustc_span::def_id::LOCAL_CRATE);
        if krate.as_str() != "gc_arena" { return Compilation::Continue; }
        let mut roots = vec![];
        for ldid in tcx.mir_keys(()) {
            let did = ldid.to_def_id();
            if !matches!(tcx.def_kind(did), DefKind::AssocFn | DefKind::Fn) { continue; }
            let p = tcx.def_path_str(did);
            if p == "context::Context::backward_barrier" || p == "context::Context::sweep_one" || p=="context::Context::mark_one" {
                roots.push(did);
            }
        }
        let env = TypingEnv::fully_monomorphized();
        let mut seen: HashSet<String> = HashSet::new();
        let mut q: VecDeque<(Instance<'tcx>, usize)> = VecDeque::new();
        for r in roots {
            let args = ty::GenericArgs::identity_for_item(tcx, r);
            q.push_back((Instance::new_raw(r, args), 0));
        }
        while let Some((inst, depth)) = q.pop_front() {
            let key = format!("{:?}", inst);
            if !seen.insert(key.clone()) { continue; }
            let has_mir = match inst.def {
                ty::InstanceKind::Item(d) => tcx.is_mir_available(d),
                _ => true,
            };
            println!("{}INST {} mir={} kind={:?}", " ".repeat(depth*2), key, has_mir, std::mem::discriminant(&inst.def));
            if !has_mir || depth > 3 { continue; }
            let body = tcx.instance_mir(inst.def);
            let tenv = TypingEnv::post_analysis(tcx, inst.def_id());
            for bb in body.basic_blocks.iter() {
                let Some(t) = &bb.terminator else { continue };
                match &t.kind {
                    TerminatorKind::Call { func, .. } => {
                        let fty = func.ty(&body.local_decls, tcx);
                        let fty = inst.instantiate_mir_and_normalize_erasing_regions(tcx, tenv, EarlyBinder::bind(fty));
                        if let ty::FnDef(cd, cargs) = fty.kind() {
                            match Instance::try_resolve(tcx, tenv, *cd, cargs) {
                                Ok(Some(ci)) => q.push_back((ci, depth+1)),
                                other => println!("{}  UNRESOLVED {:?} {:?}", " ".repeat(depth*2), cd, other.is_ok()),
                            }
                        } else {
                            println!("{}  INDIRECT {:?}", " ".repeat(depth*2), fty);
                        }
                    }
                    TerminatorKind::Drop { place, .. } => {
                        let pty = place.ty(&body.local_decls, tcx).ty;
                        let pty = inst.instantiate_mir_and_normalize_erasing_regions(tcx, tenv, EarlyBinder::bind(pty));
                        let di = Instance::resolve_drop_in_place(tcx, pty);
                        println!("{}  DROP {:?} -> {:?}", " ".repeat(depth*2), pty, di.def);
                    }
                    _ => {}
                }
            }
        }
        let _ = env;
        Compilation::Continue
    }
}
fn main() {
    let mut args: Vec<String> = std::env::args().collect();
    args.remove(1);
    rustc_driver::run_compiler(&args, &mut Cb);
}
