// Triage only (not a registered check): run against the tree before fix 4330406 it prints
//   ["payload destructed and freed", "root destructor runs, still holding the Gc"]
// i.e. the arena frees its allocations before the (non-Collect) root's safe destructor runs.
#![forbid(unsafe_code)]
use gc_arena::{Arena, Gc, Rootable};
use std::cell::RefCell;
thread_local!(static LOG: RefCell<Vec<&'static str>> = RefCell::new(Vec::new()));
struct Payload;
impl Drop for Payload { fn drop(&mut self) { LOG.with(|l| l.borrow_mut().push("payload destructed and freed")); } }
struct Root<'gc> { p: Gc<'gc, gc_arena::Static<Payload>> }
impl<'gc> Drop for Root<'gc> {
    fn drop(&mut self) {
        let _still_held: Gc<'gc, gc_arena::Static<Payload>> = self.p; // safe code could dereference it here
        LOG.with(|l| l.borrow_mut().push("root destructor runs, still holding the Gc"));
    }
}
fn main() {
    let arena = Arena::<Rootable![Root<'_>]>::new(|mc| Root { p: Gc::new(mc, gc_arena::Static(Payload)) });
    drop(arena);
    LOG.with(|l| println!("{:?}", l.borrow()));
}
