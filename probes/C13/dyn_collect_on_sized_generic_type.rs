//@ fail: E0119|E0277|E0275
//@ what: dyn_collect! (the arm with declared parameters) applied to a sized generic type: as dyn_collect_on_sized_type, through the other macro arm
#![allow(unused)]
use gc_arena::{Arena, Collect, Gc, GcWeak, Mutation, Finalization, Rootable, DynamicRootSet, DynamicRoot, Static};
use gc_arena::lock::{Lock, RefLock, OnceLock};
use gc_arena::barrier::{Write, field, unlock};
use std::cell::{Cell, RefCell};
use std::rc::Rc;
use std::sync::Arc;

#[derive(Collect)]
#[collect(no_drop)]
struct R<'gc> {
    p: Gc<'gc, i32>,
    w: GcWeak<'gc, i32>,
    set: DynamicRootSet<'gc>,
    cell: Gc<'gc, RefLock<Option<Gc<'gc, i32>>>>,
    lock: Gc<'gc, Lock<Option<Gc<'gc, i32>>>>,
}
type A = Arena<Rootable![R<'_>]>;
fn mk() -> A {
    Arena::new(|mc| {
        let p = Gc::new(mc, 1);
        R { p, w: Gc::downgrade(p), set: DynamicRootSet::new(mc), cell: Gc::new(mc, RefLock::new(None)), lock: Gc::new(mc, Lock::new(None)) }
    })
}

struct PlainCellOf<'gc, T> { cell: RefCell<Option<Gc<'gc, T>>> }
#[cfg(bad)]
gc_arena::__dyn_collect!(<T> PlainCellOf<'gc, T> where T: Clone);
trait ShapeOf<'gc, T>: gc_arena::collect::DynCollect<'gc> { fn area(&self) -> T; }
#[cfg(not(bad))]
gc_arena::__dyn_collect!(<T> dyn ShapeOf<'gc, T> where T: Clone);
fn main() {}
