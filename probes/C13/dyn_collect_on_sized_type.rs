//@ fail: E0119|E0277|E0275
//@ what: dyn_collect! applied to a *sized* type: the generated `unsafe impl Collect` proves its own DynCollect obligation through the blanket impl, so any type - here one holding a RefCell<Option<Gc>> - becomes Collect and adopts pointers without a barrier
#![allow(unused)]
use gc_arena::{Arena, Collect, Gc, GcWeak, Mutation, Finalization, Rootable, DynamicRootSet, DynamicRoot, Static};
use gc_arena::lock::{Lock, RefLock, OnceLock};
use gc_arena::barrier::{Write, field, unlock};
use std::cell::{Cell, RefCell};
use std::rc::Rc;
use std::sync::Arc;

#[derive(Collect)]
#[collect(no_drop)]
struct R<'gc> {
    p: Gc<'gc, i32>,
    w: GcWeak<'gc, i32>,
    set: DynamicRootSet<'gc>,
    cell: Gc<'gc, RefLock<Option<Gc<'gc, i32>>>>,
    lock: Gc<'gc, Lock<Option<Gc<'gc, i32>>>>,
}
type A = Arena<Rootable![R<'_>]>;
fn mk() -> A {
    Arena::new(|mc| {
        let p = Gc::new(mc, 1);
        R { p, w: Gc::downgrade(p), set: DynamicRootSet::new(mc), cell: Gc::new(mc, RefLock::new(None)), lock: Gc::new(mc, Lock::new(None)) }
    })
}

struct PlainCell<'gc> { cell: RefCell<Option<Gc<'gc, i32>>> }
#[cfg(bad)]
gc_arena::__dyn_collect!(PlainCell<'gc>);
trait Shape<'gc>: gc_arena::collect::DynCollect<'gc> { fn area(&self) -> i32; }
#[cfg(not(bad))]
gc_arena::__dyn_collect!(dyn Shape<'gc>);
fn main() {}
