//@ fail: E0133
//@ what: RefLock::as_ref_cell called without unsafe
#![allow(unused)]
use gc_arena::{Arena, Collect, Gc, GcWeak, Mutation, Finalization, Rootable, DynamicRootSet, DynamicRoot, Static};
use gc_arena::lock::{Lock, RefLock, OnceLock};
use gc_arena::barrier::{Write, field, unlock};
use std::cell::{Cell, RefCell};
use std::rc::Rc;
use std::sync::Arc;

#[derive(Collect)]
#[collect(no_drop)]
struct R<'gc> {
    p: Gc<'gc, i32>,
    w: GcWeak<'gc, i32>,
    set: DynamicRootSet<'gc>,
    cell: Gc<'gc, RefLock<Option<Gc<'gc, i32>>>>,
    lock: Gc<'gc, Lock<Option<Gc<'gc, i32>>>>,
}
type A = Arena<Rootable![R<'_>]>;
fn mk() -> A {
    Arena::new(|mc| {
        let p = Gc::new(mc, 1);
        R { p, w: Gc::downgrade(p), set: DynamicRootSet::new(mc), cell: Gc::new(mc, RefLock::new(None)), lock: Gc::new(mc, Lock::new(None)) }
    })
}

fn main() {
    let arena = mk();
    arena.mutate(|mc, root| {
        #[cfg(bad)]
        { let c = Gc::as_ref(root.cell).as_ref_cell(); *c.borrow_mut() = Some(Gc::new(mc, 2)); }
        #[cfg(not(bad))]
        { let c = root.cell.unlock(mc); *c.borrow_mut() = Some(Gc::new(mc, 2)); }
    });
}
