//@ fail: ~not allowed in the where clause|~compile_error|E0046|E0277
//@ what: dyn_collect! with a brace group in its where clause: the clause is pasted in front of the generated impl body, the client's `{}` becomes the body of the unsafe impl Collect (default no-op trace) and the generated body is eaten by a trailing macro call - a trait object that needs no DynCollect supertrait at all becomes Collect (F18)
#![allow(unused)]
use gc_arena::{Arena, Collect, Gc, GcWeak, Mutation, Finalization, Rootable, DynamicRootSet, DynamicRoot, Static};
use gc_arena::lock::{Lock, RefLock, OnceLock};
use gc_arena::barrier::{Write, field, unlock};
use std::cell::{Cell, RefCell};
use std::rc::Rc;
use std::sync::Arc;

#[derive(Collect)]
#[collect(no_drop)]
struct R<'gc> {
    p: Gc<'gc, i32>,
    w: GcWeak<'gc, i32>,
    set: DynamicRootSet<'gc>,
    cell: Gc<'gc, RefLock<Option<Gc<'gc, i32>>>>,
    lock: Gc<'gc, Lock<Option<Gc<'gc, i32>>>>,
}
type A = Arena<Rootable![R<'_>]>;
fn mk() -> A {
    Arena::new(|mc| {
        let p = Gc::new(mc, 1);
        R { p, w: Gc::downgrade(p), set: DynamicRootSet::new(mc), cell: Gc::new(mc, RefLock::new(None)), lock: Gc::new(mc, Lock::new(None)) }
    })
}

macro_rules! swallow { ($($t:tt)*) => {}; }
struct NotCollect<'gc>(Gc<'gc, i32>);
#[cfg(bad)]
trait Holder<'gc, T> { fn get(&self) -> Gc<'gc, i32>; }
#[cfg(bad)]
gc_arena::__dyn_collect!(<T> dyn Holder<'gc, T> + 'gc where T: Sized {} swallow!);
#[cfg(not(bad))]
trait Holder<'gc, T>: gc_arena::collect::DynCollect<'gc> { fn get(&self) -> Gc<'gc, i32>; }
#[cfg(not(bad))]
gc_arena::__dyn_collect!(<T> dyn Holder<'gc, T> + 'gc where T: Sized);
fn main() {}
