//@ fail: E0277|E0599|E0608
//@ what: Write indexed with an index type outside the IndexWrite whitelist
#![allow(unused)]
use gc_arena::{Arena, Collect, Gc, GcWeak, Mutation, Finalization, Rootable, DynamicRootSet, DynamicRoot, Static};
use gc_arena::lock::{Lock, RefLock, OnceLock};
use gc_arena::barrier::{Write, field, unlock};
use std::cell::{Cell, RefCell};
use std::rc::Rc;
use std::sync::Arc;

#[derive(Collect)]
#[collect(no_drop)]
struct R<'gc> {
    p: Gc<'gc, i32>,
    w: GcWeak<'gc, i32>,
    set: DynamicRootSet<'gc>,
    cell: Gc<'gc, RefLock<Option<Gc<'gc, i32>>>>,
    lock: Gc<'gc, Lock<Option<Gc<'gc, i32>>>>,
}
type A = Arena<Rootable![R<'_>]>;
fn mk() -> A {
    Arena::new(|mc| {
        let p = Gc::new(mc, 1);
        R { p, w: Gc::downgrade(p), set: DynamicRootSet::new(mc), cell: Gc::new(mc, RefLock::new(None)), lock: Gc::new(mc, Lock::new(None)) }
    })
}

#[derive(Collect)]
#[collect(no_drop)]
struct V<'gc> { v: Vec<RefLock<Option<Gc<'gc, i32>>>> }
fn main() {
    let arena = Arena::<Rootable![Gc<'_, V<'_>>]>::new(|mc| Gc::new(mc, V { v: vec![RefLock::new(None)] }));
    arena.mutate(|mc, root| {
        let w = field!(Gc::write(mc, *root), V, v);
        #[cfg(bad)]
        { let all: &Write<[RefLock<Option<Gc<i32>>>]> = &w[..]; let _ = all; }
        #[cfg(not(bad))]
        { *w[0].unlock().borrow_mut() = Some(Gc::new(mc, 1)); }
    });
}
