//@ fail: E0308|E0507|E0026|~implicitly-borrowing pattern
//@ what: field! projecting through a plain reference
#![allow(unused)]
use gc_arena::{Arena, Collect, Gc, GcWeak, Mutation, Finalization, Rootable, DynamicRootSet, DynamicRoot, Static};
use gc_arena::lock::{Lock, RefLock, OnceLock};
use gc_arena::barrier::{Write, field, unlock};
use std::cell::{Cell, RefCell};
use std::rc::Rc;
use std::sync::Arc;

#[derive(Collect)]
#[collect(no_drop)]
struct R<'gc> {
    p: Gc<'gc, i32>,
    w: GcWeak<'gc, i32>,
    set: DynamicRootSet<'gc>,
    cell: Gc<'gc, RefLock<Option<Gc<'gc, i32>>>>,
    lock: Gc<'gc, Lock<Option<Gc<'gc, i32>>>>,
}
type A = Arena<Rootable![R<'_>]>;
fn mk() -> A {
    Arena::new(|mc| {
        let p = Gc::new(mc, 1);
        R { p, w: Gc::downgrade(p), set: DynamicRootSet::new(mc), cell: Gc::new(mc, RefLock::new(None)), lock: Gc::new(mc, Lock::new(None)) }
    })
}

struct Inner<'gc> { slot: RefLock<Option<Gc<'gc, i32>>> }
fn f<'a, 'gc>(wr: &Write<&'a Inner<'gc>>, wi: &Write<Inner<'gc>>) {
    #[cfg(bad)]
    { let _ = field!(wr, Inner, slot); }
    #[cfg(not(bad))]
    { let _ = field!(wi, Inner, slot); }
}
fn main() {}
