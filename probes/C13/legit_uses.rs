//@ pass: yes
//@ what: documented legitimate uses keep compiling
#![allow(unused)]
use gc_arena::{Arena, Collect, Gc, GcWeak, Mutation, Finalization, Rootable, DynamicRootSet, DynamicRoot, Static};
use gc_arena::lock::{Lock, RefLock, OnceLock};
use gc_arena::barrier::{Write, field, unlock};
use std::cell::{Cell, RefCell};
use std::rc::Rc;
use std::sync::Arc;

#[derive(Collect)]
#[collect(no_drop)]
struct R<'gc> {
    p: Gc<'gc, i32>,
    w: GcWeak<'gc, i32>,
    set: DynamicRootSet<'gc>,
    cell: Gc<'gc, RefLock<Option<Gc<'gc, i32>>>>,
    lock: Gc<'gc, Lock<Option<Gc<'gc, i32>>>>,
}
type A = Arena<Rootable![R<'_>]>;
fn mk() -> A {
    Arena::new(|mc| {
        let p = Gc::new(mc, 1);
        R { p, w: Gc::downgrade(p), set: DynamicRootSet::new(mc), cell: Gc::new(mc, RefLock::new(None)), lock: Gc::new(mc, Lock::new(None)) }
    })
}

#[derive(Collect)]
#[collect(no_drop)]
struct Node<'gc> { next: RefLock<Option<Gc<'gc, Node<'gc>>>>, vals: Vec<Lock<Option<Gc<'gc, i32>>>>, boxed: Box<RefLock<Option<Gc<'gc, i32>>>>, opt: Option<RefLock<i32>> }
fn main() {
    let arena = Arena::<Rootable![Gc<'_, Node<'_>>]>::new(|mc| Gc::new(mc, Node { next: RefLock::new(None), vals: vec![Lock::new(None)], boxed: Box::new(RefLock::new(None)), opt: Some(RefLock::new(1)) }));
    arena.mutate(|mc, root| {
        let w = Gc::write(mc, *root);
        *field!(w, Node, next).unlock().borrow_mut() = Some(*root);
        *unlock!(w, Node, next).borrow_mut() = None;
        field!(w, Node, vals)[0].unlock().set(Some(Gc::new(mc, 1)));
        *field!(w, Node, boxed).as_deref().unlock().borrow_mut() = Some(Gc::new(mc, 2));
        if let Some(o) = field!(w, Node, opt).as_write() { *o.unlock().borrow_mut() = 3; }
        let mut local = RefLock::new(Some(Gc::new(mc, 3)));
        *Write::from_mut(&mut local).unlock().borrow_mut() = None;
    });
}
