//@ fail: E0133|E0599
//@ what: OnceLock::as_once_cell called without unsafe
#![allow(unused)]
use gc_arena::{Arena, Collect, Gc, GcWeak, Mutation, Finalization, Rootable, DynamicRootSet, DynamicRoot, Static};
use gc_arena::lock::{Lock, RefLock, OnceLock};
use gc_arena::barrier::{Write, field, unlock};
use std::cell::{Cell, RefCell};
use std::rc::Rc;
use std::sync::Arc;

#[derive(Collect)]
#[collect(no_drop)]
struct R<'gc> {
    p: Gc<'gc, i32>,
    w: GcWeak<'gc, i32>,
    set: DynamicRootSet<'gc>,
    cell: Gc<'gc, RefLock<Option<Gc<'gc, i32>>>>,
    lock: Gc<'gc, Lock<Option<Gc<'gc, i32>>>>,
}
type A = Arena<Rootable![R<'_>]>;
fn mk() -> A {
    Arena::new(|mc| {
        let p = Gc::new(mc, 1);
        R { p, w: Gc::downgrade(p), set: DynamicRootSet::new(mc), cell: Gc::new(mc, RefLock::new(None)), lock: Gc::new(mc, Lock::new(None)) }
    })
}

#[derive(Collect)]
#[collect(no_drop)]
struct O<'gc> { o: Gc<'gc, OnceLock<Gc<'gc, i32>>> }
fn main() {
    let arena = Arena::<Rootable![O<'_>]>::new(|mc| O { o: Gc::new(mc, OnceLock::new()) });
    arena.mutate(|mc, root| {
        #[cfg(bad)]
        { let _ = Gc::as_ref(root.o).as_once_cell().set(Gc::new(mc, 2)); }
        #[cfg(not(bad))]
        { let _ = root.o.set(mc, Gc::new(mc, 2)); }
    });
}
