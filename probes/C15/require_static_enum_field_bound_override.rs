//@ fail: E0310|E0477|E0478|~lifetime|E0521|E0277
//@ what: require_static on an enum variant field holding a branded pointer, with a bound override
#![allow(unused)]
use gc_arena::{Arena, Collect, Gc, GcWeak, Mutation, Finalization, Rootable, DynamicRootSet, DynamicRoot, Static};
use gc_arena::lock::{Lock, RefLock, OnceLock};
use gc_arena::barrier::{Write, field, unlock};
use std::cell::{Cell, RefCell};
use std::rc::Rc;
use std::sync::Arc;

#[derive(Collect)]
#[collect(no_drop)]
struct R<'gc> {
    p: Gc<'gc, i32>,
    w: GcWeak<'gc, i32>,
    set: DynamicRootSet<'gc>,
    cell: Gc<'gc, RefLock<Option<Gc<'gc, i32>>>>,
    lock: Gc<'gc, Lock<Option<Gc<'gc, i32>>>>,
}
type A = Arena<Rootable![R<'_>]>;
fn mk() -> A {
    Arena::new(|mc| {
        let p = Gc::new(mc, 1);
        R { p, w: Gc::downgrade(p), set: DynamicRootSet::new(mc), cell: Gc::new(mc, RefLock::new(None)), lock: Gc::new(mc, Lock::new(None)) }
    })
}

#[cfg(bad)]
mod m {
    use super::*;
    #[derive(Collect)]
    #[collect(no_drop, bound = "")]
    pub enum S<'gc> { A(#[collect(require_static)] Gc<'gc, i32>, i32), B { q: Gc<'gc, i32> } }
    pub fn need<'gc, T: Collect<'gc>>() {}
    pub fn f<'gc>() { need::<'gc, S<'gc>>() }
}
#[cfg(not(bad))]
mod m {
    use super::*;
    #[derive(Collect)]
    #[collect(no_drop, bound = "")]
    pub enum S<'gc> { A(#[collect(require_static)] String, i32), B { q: Gc<'gc, i32> } }
    pub fn need<'gc, T: Collect<'gc>>() {}
    pub fn f<'gc>() { need::<'gc, S<'gc>>() }
}
fn main() {}
