//@ fail: ~unexpected token|~expected|~proc-macro derive|~proc.macro
//@ what: a `bound` string that is more than a where clause: the tokens are spliced between the impl header and the generated body, the first brace group becomes the (empty) impl body and the generated trace is thrown away - a rooted Gc field is never traced (F17) (without a client macro: the body becomes a cfg'd-out module)
#![allow(unused)]
use gc_arena::{Arena, Collect, Gc, GcWeak, Mutation, Finalization, Rootable, DynamicRootSet, DynamicRoot, Static};
use gc_arena::lock::{Lock, RefLock, OnceLock};
use gc_arena::barrier::{Write, field, unlock};
use std::cell::{Cell, RefCell};
use std::rc::Rc;
use std::sync::Arc;

#[derive(Collect)]
#[collect(no_drop)]
struct R<'gc> {
    p: Gc<'gc, i32>,
    w: GcWeak<'gc, i32>,
    set: DynamicRootSet<'gc>,
    cell: Gc<'gc, RefLock<Option<Gc<'gc, i32>>>>,
    lock: Gc<'gc, Lock<Option<Gc<'gc, i32>>>>,
}
type A = Arena<Rootable![R<'_>]>;
fn mk() -> A {
    Arena::new(|mc| {
        let p = Gc::new(mc, 1);
        R { p, w: Gc::downgrade(p), set: DynamicRootSet::new(mc), cell: Gc::new(mc, RefLock::new(None)), lock: Gc::new(mc, Lock::new(None)) }
    })
}

#[cfg(bad)]
mod m {
    use super::*;
    #[derive(Collect)]
    #[collect(no_drop, bound = "where T: Collect<'gc> {} #[cfg(any())] mod discarded")]
    pub struct S<'gc, T> { p: Gc<'gc, i32>, t: T }
}
#[cfg(not(bad))]
mod m {
    use super::*;
    #[derive(Collect)]
    #[collect(no_drop, bound = "where T: Collect<'gc>")]
    pub struct S<'gc, T> { p: Gc<'gc, i32>, t: T }
}
fn main() {}
