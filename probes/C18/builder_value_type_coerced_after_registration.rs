//@ fail: ~lifetime may not live long enough|E0521|E0597|E0716|E0515|~borrowed data escapes|E0308
//@ what: a builder registered for Static<Box<dyn Fn() + 'static>> (nothing to trace) is unwrap_static()ed, coerced by subtyping to a builder of Box<dyn Fn() + 'gc> and completed with a closure that owns a Gc: the builder must be invariant in its value type
#![allow(unused)]
use gc_arena::{Arena, Collect, Gc, GcWeak, Mutation, Finalization, Rootable, DynamicRootSet, DynamicRoot, Static};
use gc_arena::lock::{Lock, RefLock, OnceLock};
use gc_arena::barrier::{Write, field, unlock};
use std::cell::{Cell, RefCell};
use std::rc::Rc;
use std::sync::Arc;

#[derive(Collect)]
#[collect(no_drop)]
struct R<'gc> {
    p: Gc<'gc, i32>,
    w: GcWeak<'gc, i32>,
    set: DynamicRootSet<'gc>,
    cell: Gc<'gc, RefLock<Option<Gc<'gc, i32>>>>,
    lock: Gc<'gc, Lock<Option<Gc<'gc, i32>>>>,
}
type A = Arena<Rootable![R<'_>]>;
fn mk() -> A {
    Arena::new(|mc| {
        let p = Gc::new(mc, 1);
        R { p, w: Gc::downgrade(p), set: DynamicRootSet::new(mc), cell: Gc::new(mc, RefLock::new(None)), lock: Gc::new(mc, Lock::new(None)) }
    })
}

type Thunk<'a> = Box<dyn Fn() -> usize + 'a>;
fn shorten<'gc, 'a>(b: gc_arena::GcBuilder<'gc, Thunk<'static>>, _witness: &'a ()) -> gc_arena::GcBuilder<'gc, Thunk<'a>> {
    #[cfg(bad)]
    { b }
    #[cfg(not(bad))]
    { drop(b); unimplemented!() }
}
fn main() {
    gc_arena::arena::rootless_mutate(|mc| {
        let victim = Gc::new(mc, 7i32);
        let b: gc_arena::GcBuilder<'_, Static<Thunk<'static>>> = gc_arena::GcBuilder::new();
        let b: gc_arena::GcBuilder<'_, Thunk<'static>> = b.unwrap_static();
        #[cfg(bad)]
        {
            let w = ();
            let _g = shorten(b, &w).write(mc, Box::new(move || Gc::as_ptr(victim) as usize));
        }
        #[cfg(not(bad))]
        {
            let _keep = victim;
            let _g = b.write(mc, Box::new(|| 0usize));
        }
    });
}
