//@ fail: E0277|E0310|E0477|E0478|~not general enough|~lifetime may not live long enough|E0521|E0597|E0716|E0515|~borrowed data escapes
//@ what: static_collect! on a type holding a branded pointer, used as a root
#![allow(unused)]
use gc_arena::{Arena, Collect, Gc, GcWeak, Mutation, Finalization, Rootable, DynamicRootSet, DynamicRoot, Static};
use gc_arena::lock::{Lock, RefLock, OnceLock};
use gc_arena::barrier::{Write, field, unlock};
use std::cell::{Cell, RefCell};
use std::rc::Rc;
use std::sync::Arc;

#[derive(Collect)]
#[collect(no_drop)]
struct R<'gc> {
    p: Gc<'gc, i32>,
    w: GcWeak<'gc, i32>,
    set: DynamicRootSet<'gc>,
    cell: Gc<'gc, RefLock<Option<Gc<'gc, i32>>>>,
    lock: Gc<'gc, Lock<Option<Gc<'gc, i32>>>>,
}
type A = Arena<Rootable![R<'_>]>;
fn mk() -> A {
    Arena::new(|mc| {
        let p = Gc::new(mc, 1);
        R { p, w: Gc::downgrade(p), set: DynamicRootSet::new(mc), cell: Gc::new(mc, RefLock::new(None)), lock: Gc::new(mc, Lock::new(None)) }
    })
}

use gc_arena::static_collect;
struct Holder<'gc>(Gc<'gc, i32>);
struct PlainHolder(i32);
#[cfg(bad)]
static_collect!(<'a> Holder<'a>);
#[cfg(not(bad))]
static_collect!(PlainHolder);
fn main() {
    #[cfg(bad)]
    let mut arena = Arena::<Rootable![Holder<'_>]>::new(|mc| Holder(Gc::new(mc, 1)));
    #[cfg(not(bad))]
    let mut arena = Arena::<Rootable![PlainHolder]>::new(|mc| PlainHolder(1));
    arena.finish_cycle();
}
