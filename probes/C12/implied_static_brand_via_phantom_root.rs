//@ fail: ~lifetime may not live long enough|E0521|E0597|E0716|E0515|~borrowed data escapes|E0491|E0477
//@ what: a root that is Collect for every brand but only well-formed at 'gc: 'static (a PhantomData<&'static &'gc ()> component): every callback assumes the implied bound, Gc<'gc, T> is accepted where Gc<'static, T> is expected and pointers move between arenas through a 'static place
#![allow(unused)]
use gc_arena::{Arena, Collect, Gc, GcWeak, Mutation, Finalization, Rootable, DynamicRootSet, DynamicRoot, Static};
use gc_arena::lock::{Lock, RefLock, OnceLock};
use gc_arena::barrier::{Write, field, unlock};
use std::cell::{Cell, RefCell};
use std::rc::Rc;
use std::sync::Arc;

#[derive(Collect)]
#[collect(no_drop)]
struct R<'gc> {
    p: Gc<'gc, i32>,
    w: GcWeak<'gc, i32>,
    set: DynamicRootSet<'gc>,
    cell: Gc<'gc, RefLock<Option<Gc<'gc, i32>>>>,
    lock: Gc<'gc, Lock<Option<Gc<'gc, i32>>>>,
}
type A = Arena<Rootable![R<'_>]>;
fn mk() -> A {
    Arena::new(|mc| {
        let p = Gc::new(mc, 1);
        R { p, w: Gc::downgrade(p), set: DynamicRootSet::new(mc), cell: Gc::new(mc, RefLock::new(None)), lock: Gc::new(mc, Lock::new(None)) }
    })
}

use std::marker::PhantomData;
thread_local! {
    static TRANSFER: Cell<Option<Gc<'static, i32>>> = Cell::new(None);
    static NUMBER: Cell<Option<i32>> = Cell::new(None);
}
type World = Arena<Rootable![(Gc<'_, i32>, PhantomData<&'static &'_ ()>)]>;
fn main() {
    let a: World = Arena::new(|mc| (Gc::new(mc, 1), PhantomData));
    #[cfg(bad)]
    a.mutate(|_mc, root| TRANSFER.with(|t| t.set(Some(root.0))));
    #[cfg(not(bad))]
    a.mutate(|_mc, root| NUMBER.with(|t| t.set(Some(*root.0))));
}
