//@ fail: E0308|E0277
//@ what: Box<Arena<R1>> coerced to Box<Arena<R2>> through the (last, possibly unsized) root field: the coercion is checked at the brand 'static only
#![allow(unused)]
use gc_arena::{Arena, Collect, Gc, GcWeak, Mutation, Finalization, Rootable, DynamicRootSet, DynamicRoot, Static};
use gc_arena::lock::{Lock, RefLock, OnceLock};
use gc_arena::barrier::{Write, field, unlock};
use std::cell::{Cell, RefCell};
use std::rc::Rc;
use std::sync::Arc;

#[derive(Collect)]
#[collect(no_drop)]
struct R<'gc> {
    p: Gc<'gc, i32>,
    w: GcWeak<'gc, i32>,
    set: DynamicRootSet<'gc>,
    cell: Gc<'gc, RefLock<Option<Gc<'gc, i32>>>>,
    lock: Gc<'gc, Lock<Option<Gc<'gc, i32>>>>,
}
type A = Arena<Rootable![R<'_>]>;
fn mk() -> A {
    Arena::new(|mc| {
        let p = Gc::new(mc, 1);
        R { p, w: Gc::downgrade(p), set: DynamicRootSet::new(mc), cell: Gc::new(mc, RefLock::new(None)), lock: Gc::new(mc, Lock::new(None)) }
    })
}

trait Peek { fn peek(&self) -> i32; }
#[derive(Collect)]
#[collect(no_drop)]
struct Foo<'gc> { p: Gc<'gc, i32> }
impl<'gc> Peek for Foo<'gc> { fn peek(&self) -> i32 { *self.p } }
gc_arena::static_collect!(dyn Peek);
fn main() {
    let sized = Box::new(Arena::<Rootable![Foo<'_>]>::new(|mc| Foo { p: Gc::new(mc, 4) }));
    #[cfg(bad)]
    let _unsized: Box<Arena<Rootable![dyn Peek + 'static]>> = sized;
    #[cfg(not(bad))]
    let _same: Box<Arena<Rootable![Foo<'_>]>> = sized;
}
