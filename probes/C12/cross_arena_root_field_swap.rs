//@ fail: ~lifetime may not live long enough|E0521|E0597|E0716|E0515|~borrowed data escapes
//@ what: a root field of arena A exchanged with one of arena B
#![allow(unused)]
use gc_arena::{Arena, Collect, Gc, GcWeak, Mutation, Finalization, Rootable, DynamicRootSet, DynamicRoot, Static};
use gc_arena::lock::{Lock, RefLock, OnceLock};
use gc_arena::barrier::{Write, field, unlock};
use std::cell::{Cell, RefCell};
use std::rc::Rc;
use std::sync::Arc;

#[derive(Collect)]
#[collect(no_drop)]
struct R<'gc> {
    p: Gc<'gc, i32>,
    w: GcWeak<'gc, i32>,
    set: DynamicRootSet<'gc>,
    cell: Gc<'gc, RefLock<Option<Gc<'gc, i32>>>>,
    lock: Gc<'gc, Lock<Option<Gc<'gc, i32>>>>,
}
type A = Arena<Rootable![R<'_>]>;
fn mk() -> A {
    Arena::new(|mc| {
        let p = Gc::new(mc, 1);
        R { p, w: Gc::downgrade(p), set: DynamicRootSet::new(mc), cell: Gc::new(mc, RefLock::new(None)), lock: Gc::new(mc, Lock::new(None)) }
    })
}

fn main() {
    let mut a = mk();
    let mut b = mk();
    #[cfg(bad)]
    a.mutate_root(|_mca, ra| b.mutate_root(|_mcb, rb| std::mem::swap(&mut ra.p, &mut rb.p)));
    #[cfg(not(bad))]
    a.mutate_root(|_mca, ra| b.mutate_root(|_mcb, rb| { let _n = *ra.p; let mut q = rb.p; std::mem::swap(&mut q, &mut rb.p); }));
}
