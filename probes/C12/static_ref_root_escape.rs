//@ fail: E0277|E0599|~not general enough|~lifetime may not live long enough|E0521|E0597|E0716|E0515|~borrowed data escapes
//@ what: a root type that is only well-formed at the brand 'static (&'static Gc<'gc, _>) makes every callback assume 'gc: 'static: a Gc<'static, _> leaves mutate as dyn Any and outlives the arena (no collection method needed)
#![allow(unused)]
use gc_arena::{Arena, Collect, Gc, GcWeak, Mutation, Finalization, Rootable, DynamicRootSet, DynamicRoot, Static};
use gc_arena::lock::{Lock, RefLock, OnceLock};
use gc_arena::barrier::{Write, field, unlock};
use std::cell::{Cell, RefCell};
use std::rc::Rc;
use std::sync::Arc;

#[derive(Collect)]
#[collect(no_drop)]
struct R<'gc> {
    p: Gc<'gc, i32>,
    w: GcWeak<'gc, i32>,
    set: DynamicRootSet<'gc>,
    cell: Gc<'gc, RefLock<Option<Gc<'gc, i32>>>>,
    lock: Gc<'gc, Lock<Option<Gc<'gc, i32>>>>,
}
type A = Arena<Rootable![R<'_>]>;
fn mk() -> A {
    Arena::new(|mc| {
        let p = Gc::new(mc, 1);
        R { p, w: Gc::downgrade(p), set: DynamicRootSet::new(mc), cell: Gc::new(mc, RefLock::new(None)), lock: Gc::new(mc, Lock::new(None)) }
    })
}

use std::any::Any;
fn main() {
    #[cfg(bad)]
    let _escaped: Gc<'static, i32> = {
        let arena = Arena::<Rootable![&'static Gc<'_, i32>]>::new(|mc| Box::leak(Box::new(Gc::new(mc, 4))));
        let b: Box<dyn Any> = arena.mutate(|_mc, root| { let g: Gc<'_, i32> = **root; Box::new(g) as Box<dyn Any> });
        *b.downcast::<Gc<'static, i32>>().unwrap()
    };
    #[cfg(not(bad))]
    let _copied: i32 = {
        let arena = Arena::<Rootable![Gc<'_, i32>]>::new(|mc| Gc::new(mc, 4));
        let b: Box<dyn Any> = arena.mutate(|_mc, root| { let g: Gc<'_, i32> = *root; Box::new(*g) as Box<dyn Any> });
        *b.downcast::<i32>().unwrap()
    };
}
