//@ fail: E0277|E0599|E0310|~not general enough|~lifetime may not live long enough|E0521|E0597|E0716|E0515|~borrowed data escapes
//@ what: a derived root with a type-level bound override parks a &'gc T in a require_static field (the derive must demand FieldType: 'static whatever the bound setting)
#![allow(unused)]
use gc_arena::{Arena, Collect, Gc, GcWeak, Mutation, Finalization, Rootable, DynamicRootSet, DynamicRoot, Static};
use gc_arena::lock::{Lock, RefLock, OnceLock};
use gc_arena::barrier::{Write, field, unlock};
use std::cell::{Cell, RefCell};
use std::rc::Rc;
use std::sync::Arc;

#[derive(Collect)]
#[collect(no_drop)]
struct R<'gc> {
    p: Gc<'gc, i32>,
    w: GcWeak<'gc, i32>,
    set: DynamicRootSet<'gc>,
    cell: Gc<'gc, RefLock<Option<Gc<'gc, i32>>>>,
    lock: Gc<'gc, Lock<Option<Gc<'gc, i32>>>>,
}
type A = Arena<Rootable![R<'_>]>;
fn mk() -> A {
    Arena::new(|mc| {
        let p = Gc::new(mc, 1);
        R { p, w: Gc::downgrade(p), set: DynamicRootSet::new(mc), cell: Gc::new(mc, RefLock::new(None)), lock: Gc::new(mc, Lock::new(None)) }
    })
}

#[derive(Collect)]
#[collect(no_drop, bound = "")]
struct Parked<'gc> {
    #[cfg(bad)]
    #[collect(require_static)]
    slot: Cell<Option<&'gc i32>>,
    #[cfg(not(bad))]
    #[collect(require_static)]
    slot: Cell<Option<&'static i32>>,
    p: Gc<'gc, i32>,
}
fn main() {
    let mut arena = Arena::<Rootable![Parked<'_>]>::new(|mc| Parked { slot: Cell::new(None), p: Gc::new(mc, 1) });
    #[cfg(bad)]
    arena.mutate(|_mc, r| r.slot.set(Some(r.p.as_ref())));
    arena.finish_cycle();
}
