//@ fail: E0277
//@ what: an Arena moved to another thread
#![allow(unused)]
use gc_arena::{Arena, Collect, Gc, GcWeak, Mutation, Finalization, Rootable, DynamicRootSet, DynamicRoot, Static};
use gc_arena::lock::{Lock, RefLock, OnceLock};
use gc_arena::barrier::{Write, field, unlock};
use std::cell::{Cell, RefCell};
use std::rc::Rc;
use std::sync::Arc;

#[derive(Collect)]
#[collect(no_drop)]
struct R<'gc> {
    p: Gc<'gc, i32>,
    w: GcWeak<'gc, i32>,
    set: DynamicRootSet<'gc>,
    cell: Gc<'gc, RefLock<Option<Gc<'gc, i32>>>>,
    lock: Gc<'gc, Lock<Option<Gc<'gc, i32>>>>,
}
type A = Arena<Rootable![R<'_>]>;
fn mk() -> A {
    Arena::new(|mc| {
        let p = Gc::new(mc, 1);
        R { p, w: Gc::downgrade(p), set: DynamicRootSet::new(mc), cell: Gc::new(mc, RefLock::new(None)), lock: Gc::new(mc, Lock::new(None)) }
    })
}

fn main() {
    let arena = mk();
    #[cfg(bad)]
    std::thread::spawn(move || { let _a = arena; }).join().unwrap();
    #[cfg(not(bad))]
    std::thread::spawn(move || { let _a = 1; }).join().unwrap();
}
