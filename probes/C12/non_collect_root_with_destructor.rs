//@ fail: E0277|E0599|~not general enough
//@ what: an arena built around a root that is not Collect: such a root may have any Drop impl, and the arena frees every allocation before it drops its root
#![allow(unused)]
use gc_arena::{Arena, Collect, Gc, GcWeak, Mutation, Finalization, Rootable, DynamicRootSet, DynamicRoot, Static};
use gc_arena::lock::{Lock, RefLock, OnceLock};
use gc_arena::barrier::{Write, field, unlock};
use std::cell::{Cell, RefCell};
use std::rc::Rc;
use std::sync::Arc;

#[derive(Collect)]
#[collect(no_drop)]
struct R<'gc> {
    p: Gc<'gc, i32>,
    w: GcWeak<'gc, i32>,
    set: DynamicRootSet<'gc>,
    cell: Gc<'gc, RefLock<Option<Gc<'gc, i32>>>>,
    lock: Gc<'gc, Lock<Option<Gc<'gc, i32>>>>,
}
type A = Arena<Rootable![R<'_>]>;
fn mk() -> A {
    Arena::new(|mc| {
        let p = Gc::new(mc, 1);
        R { p, w: Gc::downgrade(p), set: DynamicRootSet::new(mc), cell: Gc::new(mc, RefLock::new(None)), lock: Gc::new(mc, Lock::new(None)) }
    })
}

struct Plain<'gc> { p: Gc<'gc, i32> }
impl<'gc> Drop for Plain<'gc> { fn drop(&mut self) { let _v: i32 = *self.p; } }
#[derive(Collect)]
#[collect(no_drop)]
struct Traced<'gc> { p: Gc<'gc, i32> }
fn main() {
    #[cfg(bad)]
    let _arena = Arena::<Rootable![Plain<'_>]>::new(|mc| Plain { p: Gc::new(mc, 4) });
    #[cfg(not(bad))]
    let _arena = Arena::<Rootable![Traced<'_>]>::new(|mc| Traced { p: Gc::new(mc, 4) });
}
