//@ fail: E0133
//@ what: ZstCache::alloc_zst conjures a Gc to a constructor-guarded token type
#![allow(unused)]
use gc_arena::{Arena, Collect, Gc, GcWeak, Mutation, Finalization, Rootable, DynamicRootSet, DynamicRoot, Static};
use gc_arena::lock::{Lock, RefLock, OnceLock};
use gc_arena::barrier::{Write, field, unlock};
use std::cell::{Cell, RefCell};
use std::rc::Rc;
use std::sync::Arc;

#[derive(Collect)]
#[collect(no_drop)]
struct R<'gc> {
    p: Gc<'gc, i32>,
    w: GcWeak<'gc, i32>,
    set: DynamicRootSet<'gc>,
    cell: Gc<'gc, RefLock<Option<Gc<'gc, i32>>>>,
    lock: Gc<'gc, Lock<Option<Gc<'gc, i32>>>>,
}
type A = Arena<Rootable![R<'_>]>;
fn mk() -> A {
    Arena::new(|mc| {
        let p = Gc::new(mc, 1);
        R { p, w: Gc::downgrade(p), set: DynamicRootSet::new(mc), cell: Gc::new(mc, RefLock::new(None)), lock: Gc::new(mc, Lock::new(None)) }
    })
}

mod guarded { pub struct Token(()); impl Token { pub fn new_checked(ok: bool) -> Option<Token> { if ok { Some(Token(())) } else { None } } } }
fn main() {
    gc_arena::arena::rootless_mutate(|mc| {
        let z = gc_arena::zst_cache::ZstCache::<8>::new(mc);
        #[cfg(bad)]
        let _v: Option<Gc<guarded::Token>> = z.alloc_zst::<guarded::Token>();
        #[cfg(not(bad))]
        let _v: Gc<guarded::Token> = z.alloc_static(mc, guarded::Token::new_checked(true).unwrap());
    });
}
