//@ fail: E0308|E0277
//@ what: unsize! through a Deref coercion (Box<i32> to i32, on a GcWeak)
#![allow(unused)]
use gc_arena::{Arena, Collect, Gc, GcWeak, Mutation, Finalization, Rootable, DynamicRootSet, DynamicRoot, Static};
use gc_arena::lock::{Lock, RefLock, OnceLock};
use gc_arena::barrier::{Write, field, unlock};
use std::cell::{Cell, RefCell};
use std::rc::Rc;
use std::sync::Arc;

#[derive(Collect)]
#[collect(no_drop)]
struct R<'gc> {
    p: Gc<'gc, i32>,
    w: GcWeak<'gc, i32>,
    set: DynamicRootSet<'gc>,
    cell: Gc<'gc, RefLock<Option<Gc<'gc, i32>>>>,
    lock: Gc<'gc, Lock<Option<Gc<'gc, i32>>>>,
}
type A = Arena<Rootable![R<'_>]>;
fn mk() -> A {
    Arena::new(|mc| {
        let p = Gc::new(mc, 1);
        R { p, w: Gc::downgrade(p), set: DynamicRootSet::new(mc), cell: Gc::new(mc, RefLock::new(None)), lock: Gc::new(mc, Lock::new(None)) }
    })
}

use gc_arena::unsize;
fn main() {
    gc_arena::arena::rootless_mutate(|mc| {
        #[cfg(bad)]
        let _d: GcWeak<i32> = unsize!(Gc::downgrade(Gc::new(mc, Box::new(5i32))) => i32);
        #[cfg(not(bad))]
        let _d: GcWeak<dyn std::fmt::Debug> = unsize!(Gc::downgrade(Gc::new(mc, Box::new(5i32))) => dyn std::fmt::Debug);
    });
}
