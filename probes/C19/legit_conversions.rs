//@ pass: yes
//@ what: documented conversions keep compiling
#![allow(unused)]
use gc_arena::{Arena, Collect, Gc, GcWeak, Mutation, Finalization, Rootable, DynamicRootSet, DynamicRoot, Static};
use gc_arena::lock::{Lock, RefLock, OnceLock};
use gc_arena::barrier::{Write, field, unlock};
use std::cell::{Cell, RefCell};
use std::rc::Rc;
use std::sync::Arc;

#[derive(Collect)]
#[collect(no_drop)]
struct R<'gc> {
    p: Gc<'gc, i32>,
    w: GcWeak<'gc, i32>,
    set: DynamicRootSet<'gc>,
    cell: Gc<'gc, RefLock<Option<Gc<'gc, i32>>>>,
    lock: Gc<'gc, Lock<Option<Gc<'gc, i32>>>>,
}
type A = Arena<Rootable![R<'_>]>;
fn mk() -> A {
    Arena::new(|mc| {
        let p = Gc::new(mc, 1);
        R { p, w: Gc::downgrade(p), set: DynamicRootSet::new(mc), cell: Gc::new(mc, RefLock::new(None)), lock: Gc::new(mc, Lock::new(None)) }
    })
}

use gc_arena::unsize;
fn main() {
    gc_arena::arena::rootless_mutate(|mc| {
        let g = Gc::new(mc, [1u8, 2, 3]);
        let e = Gc::erase(g);
        let s = unsize!(g => [u8]);
        let w = Gc::downgrade(g);
        let u = w.upgrade(mc).unwrap();
        assert!(Gc::ptr_eq(g, u));
        let sl = gc_arena::GcSlice::new_slice(mc, &[1u8, 2]);
        let th = Gc::as_thin(sl);
        let ft = Gc::as_fat(th);
        let st = gc_arena::GcStr::new_str(mc, "x");
        let k = Gc::erase_kind(sl);
        let z = gc_arena::zst_cache::ZstCache::<8>::new(mc);
        let _a: Gc<()> = z.alloc(mc, ());
        let _ = (e, s, ft, st, k);
    });
}
