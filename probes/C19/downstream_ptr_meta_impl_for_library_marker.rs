//@ fail: E0200|E0199
//@ what: a downstream crate implements PtrMeta<dyn LocalTrait, M> for the library's own marker UnitPtrMeta without writing unsafe: Gc::as_thin on an unsize!d pointer would then run its from_thin
#![allow(unused)]
use gc_arena::{Arena, Collect, Gc, GcWeak, Mutation, Finalization, Rootable, DynamicRootSet, DynamicRoot, Static};
use gc_arena::lock::{Lock, RefLock, OnceLock};
use gc_arena::barrier::{Write, field, unlock};
use std::cell::{Cell, RefCell};
use std::rc::Rc;
use std::sync::Arc;

#[derive(Collect)]
#[collect(no_drop)]
struct R<'gc> {
    p: Gc<'gc, i32>,
    w: GcWeak<'gc, i32>,
    set: DynamicRootSet<'gc>,
    cell: Gc<'gc, RefLock<Option<Gc<'gc, i32>>>>,
    lock: Gc<'gc, Lock<Option<Gc<'gc, i32>>>>,
}
type A = Arena<Rootable![R<'_>]>;
fn mk() -> A {
    Arena::new(|mc| {
        let p = Gc::new(mc, 1);
        R { p, w: Gc::downgrade(p), set: DynamicRootSet::new(mc), cell: Gc::new(mc, RefLock::new(None)), lock: Gc::new(mc, Lock::new(None)) }
    })
}

use gc_arena::metrics::Metrics;
trait Shape { fn name(&self) -> &'static str; }
struct Honest;
impl Shape for Honest { fn name(&self) -> &'static str { "honest" } }
#[cfg(bad)]
impl<M> gc_arena::meta::PtrMeta<dyn Shape, M> for gc_arena::meta::UnitPtrMeta {
    type PtrMetadata = ();
    type Thin = Honest;
    fn to_thin(ptr: *const dyn Shape) -> *const Honest { ptr as *const Honest }
    fn from_thin(thin: *const Honest, _: ()) -> *const dyn Shape { thin as *const dyn Shape }
}
fn main() {}
