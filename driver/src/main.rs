//! gcv-driver: rustc_private driver that dumps type-checked facts and structured MIR of a crate
//! as JSON for the Python rule engines in /verif/gcv.
//!
//! Invoked through RUSTC_WORKSPACE_WRAPPER / RUSTC_WRAPPER: argv[1] is the real rustc path and is
//! dropped. Environment:
//!   GCV_OUT      directory the fact file is written to (required for a dump to happen)
//!   GCV_CRATES   comma separated crate names to dump (default: gc_arena)
//!   GCV_DEPTH    max depth of non-seed instance expansion (default 6)
#![feature(rustc_private)]
#![allow(unused_imports, unused_variables, dead_code)]

extern crate rustc_abi;
extern crate rustc_data_structures;
extern crate rustc_driver;
extern crate rustc_hir;
extern crate rustc_index;
extern crate rustc_interface;
extern crate rustc_middle;
extern crate rustc_span;

mod json;
use json::J;

use rustc_driver::Compilation;
use rustc_hir::def::DefKind;
use rustc_hir::def_id::{DefId, LOCAL_CRATE};
use rustc_middle::mir::{
    self, AggregateKind, BinOp, Body, BorrowKind, CastKind, Const as MirConst, ConstValue, Operand,
    Place, ProjectionElem, Rvalue, StatementKind, TerminatorKind, UnOp, UnwindAction,
};
use rustc_middle::ty::print::PrintTraitRefExt;
use rustc_middle::ty::TypeVisitableExt;
use rustc_middle::ty::{
    self, EarlyBinder, GenericArgKind, GenericArgsRef, Instance, InstanceKind, Ty, TyCtxt, TypingEnv,
};
use rustc_span::Span;

#[derive(Default)]
struct RegionNames(std::collections::BTreeSet<String>);

impl<'tcx> rustc_middle::ty::TypeVisitor<TyCtxt<'tcx>> for RegionNames {
    fn visit_region(&mut self, r: rustc_middle::ty::Region<'tcx>) {
        match r.kind() {
            rustc_middle::ty::ReStatic | rustc_middle::ty::ReErased => {}
            k => {
                self.0.insert(format!("{:?}", k));
            }
        }
    }
}
use std::collections::{HashMap, HashSet, VecDeque};

/// Regions standing in a *brand position* of a type: the lifetime argument of a local ADT in which that
/// parameter is invariant (Gc<'gc, ..>, Mutation<'gc>, ..), or a lifetime argument of a projection on / a reference
/// to a local trait (<R as Rootable<'gc>>::Root). 'static and erased regions are left out.
struct BrandRegions<'tcx> {
    tcx: TyCtxt<'tcx>,
    found: std::collections::BTreeSet<String>,
}

impl<'tcx> BrandRegions<'tcx> {
    fn note(&mut self, r: rustc_middle::ty::Region<'tcx>) {
        match r.kind() {
            rustc_middle::ty::ReStatic | rustc_middle::ty::ReErased => {}
            k => {
                self.found.insert(format!("{:?}", k));
            }
        }
    }
}

impl<'tcx> rustc_middle::ty::TypeVisitor<TyCtxt<'tcx>> for BrandRegions<'tcx> {
    fn visit_ty(&mut self, t: Ty<'tcx>) {
        use rustc_middle::ty::TypeSuperVisitable;
        match t.kind() {
            ty::Adt(def, args) if def.did().is_local() => {
                let vs = self.tcx.variances_of(def.did());
                for (i, a) in args.iter().enumerate() {
                    if let GenericArgKind::Lifetime(r) = a.kind() {
                        if vs.get(i).map_or(false, |v| matches!(v, ty::Variance::Invariant)) {
                            self.note(r);
                        }
                    }
                }
            }
            ty::Alias(at) => {
                let local_trait = match at.kind {
                    ty::AliasTyKind::Projection { def_id } => self.tcx.parent(def_id).is_local(),
                    _ => false,
                };
                if local_trait {
                    for a in at.args.iter() {
                        if let GenericArgKind::Lifetime(r) = a.kind() {
                            self.note(r);
                        }
                    }
                }
            }
            _ => {}
        }
        t.super_visit_with(self);
    }
}

struct Cb;

impl rustc_driver::Callbacks for Cb {
    fn after_analysis<'tcx>(
        &mut self,
        _c: &rustc_interface::interface::Compiler,
        tcx: TyCtxt<'tcx>,
    ) -> Compilation {
        let krate = tcx.crate_name(LOCAL_CRATE).to_string();
        let wanted = std::env::var("GCV_CRATES").unwrap_or_else(|_| "gc_arena".to_string());
        let out_dir = match std::env::var("GCV_OUT") {
            Ok(d) => d,
            Err(_) => return Compilation::Continue,
        };
        if !wanted.split(',').any(|w| w == krate) {
            return Compilation::Continue;
        }
        // only analyse error-free crates
        if tcx.dcx().has_errors().is_some() {
            return Compilation::Continue;
        }
        let j = ty::print::with_no_visible_paths!(ty::print::with_no_trimmed_paths!(Dumper::new(tcx).dump()));
        let mut s = String::with_capacity(1 << 24);
        j.write(&mut s);
        let path = format!("{}/{}.json", out_dir, krate);
        let tmp = format!("{}.tmp.{}", path, std::process::id());
        std::fs::write(&tmp, s).expect("write facts");
        std::fs::rename(&tmp, &path).expect("rename facts");
        Compilation::Continue
    }
}

fn main() {
    let mut args: Vec<String> = std::env::args().collect();
    if args.len() > 1 && !args[1].starts_with('-') && args[1].contains("rustc") {
        args.remove(1);
    }
    rustc_driver::run_compiler(&args, &mut Cb);
}

struct Dumper<'tcx> {
    tcx: TyCtxt<'tcx>,
    types: Vec<J>,
    type_ids: HashMap<Ty<'tcx>, usize>,
    bodies: Vec<(String, J)>,
    seen: HashSet<String>,
    queue: VecDeque<(Instance<'tcx>, TypingEnv<'tcx>, usize)>,
    max_depth: usize,
    adts_seen: HashSet<DefId>,
    ext_adts: Vec<J>,
    cur_depth: usize,
}

fn allow_external(path: &str) -> bool {
    const ALLOW: &[&str] = &[
        "std::option::",
        "core::option::",
        "std::result::",
        "core::result::",
        "std::ops::ControlFlow",
        "core::ops::ControlFlow",
        "core::ops::control_flow",
        "std::ops::control_flow",
        "std::cmp::",
        "core::cmp::",
        "<bool",
        "core::bool::",
        "std::bool::",
        "bool::",
        "std::mem::",
        "core::mem::",
        "std::cell::Cell",
        "core::cell::Cell",
        "std::ptr::const_ptr::",
        "std::ptr::mut_ptr::",
        "core::ptr::const_ptr::",
        "core::ptr::mut_ptr::",
        "std::ptr::NonNull",
        "std::ptr::non_null::",
        "core::ptr::non_null::",
        "std::ops::FnOnce",
        "std::ops::FnMut",
        "std::ops::Fn",
        "core::ops::function::",
        "std::ops::function::",
        "std::mem::ManuallyDrop",
        "core::mem::manually_drop::",
        "std::mem::manually_drop::",
        "std::convert::",
        "core::convert::",
        "std::clone::",
        "core::clone::",
        "std::ops::Deref",
        "std::ops::DerefMut",
        "std::ops::Try",
        "std::ops::FromResidual",
        "std::ops::try_trait::",
        "core::ops::try_trait::",
    ];
    let p = path.trim_start_matches('<');
    ALLOW.iter().any(|a| p.starts_with(a.trim_start_matches('<')) || path.starts_with(a))
}

impl<'tcx> Dumper<'tcx> {
    fn new(tcx: TyCtxt<'tcx>) -> Self {
        let max_depth =
            std::env::var("GCV_DEPTH").ok().and_then(|s| s.parse().ok()).unwrap_or(6usize);
        Dumper {
            tcx,
            types: vec![],
            type_ids: HashMap::new(),
            bodies: vec![],
            seen: HashSet::new(),
            queue: VecDeque::new(),
            max_depth,
            adts_seen: HashSet::new(),
            ext_adts: vec![],
            cur_depth: 0,
        }
    }

    // ---------------------------------------------------------------- helpers

    fn loc(&self, span: Span) -> J {
        let sm = self.tcx.sess.source_map();
        let outer = span.source_callsite();
        let lo = sm.lookup_char_pos(outer.lo());
        let file = format!("{}", lo.file.name.prefer_local_unconditionally());
        let mut v = vec![("f", J::s(file)), ("l", J::Int(lo.line as i128))];
        if span.from_expansion() {
            let ed = span.ctxt().outer_expn_data();
            let name = match ed.kind {
                rustc_span::ExpnKind::Macro(_, name) => name.to_string(),
                rustc_span::ExpnKind::Desugaring(d) => format!("desugar:{:?}", d),
                rustc_span::ExpnKind::AstPass(_) => "astpass".to_string(),
                rustc_span::ExpnKind::Root => "root".to_string(),
            };
            v.push(("x", J::s(name)));
            // outermost macro name as well
            let mut sp = span;
            let mut outer_name = String::new();
            while sp.from_expansion() {
                let ed = sp.ctxt().outer_expn_data();
                if let rustc_span::ExpnKind::Macro(_, name) = ed.kind {
                    outer_name = name.to_string();
                }
                sp = ed.call_site;
            }
            v.push(("xo", J::s(outer_name)));
        }
        J::obj(v)
    }

    fn line(&self, span: Span) -> i128 {
        let sm = self.tcx.sess.source_map();
        let outer = span.source_callsite();
        sm.lookup_char_pos(outer.lo()).line as i128
    }

    fn path(&self, def: DefId) -> String {
        self.tcx.def_path_str(def)
    }

    fn garg(&mut self, a: ty::GenericArg<'tcx>) -> J {
        match a.kind() {
            GenericArgKind::Type(t) => J::obj(vec![("ty", J::Int(self.ty(t) as i128))]),
            GenericArgKind::Lifetime(r) => J::obj(vec![("lt", J::s(format!("{}", r)))]),
            GenericArgKind::Const(c) => {
                let mut v = vec![("const", J::s(format!("{}", c)))];
                if let Some(x) = c.try_to_target_usize(self.tcx) {
                    v.push(("usize", J::UInt(x as u128)));
                }
                J::obj(v)
            }
        }
    }

    fn gargs(&mut self, args: GenericArgsRef<'tcx>) -> J {
        let v: Vec<J> = args.iter().map(|a| self.garg(a)).collect();
        J::Arr(v)
    }

    fn ty(&mut self, t: Ty<'tcx>) -> usize {
        if let Some(&i) = self.type_ids.get(&t) {
            return i;
        }
        let idx = self.types.len();
        self.types.push(J::Null);
        self.type_ids.insert(t, idx);
        let s = format!("{}", t);
        let mut v: Vec<(&str, J)> = vec![("s", J::s(s))];
        match t.kind() {
            ty::Bool => v.push(("k", J::s("bool"))),
            ty::Char => v.push(("k", J::s("char"))),
            ty::Int(i) => {
                v.push(("k", J::s("int")));
                v.push(("n", J::s(i.name_str())));
            }
            ty::Uint(i) => {
                v.push(("k", J::s("uint")));
                v.push(("n", J::s(i.name_str())));
            }
            ty::Float(f) => {
                v.push(("k", J::s("float")));
                v.push(("n", J::s(f.name_str())));
            }
            ty::Adt(def, args) => {
                v.push(("k", J::s("adt")));
                v.push(("def", J::s(self.path(def.did()))));
                if def.did().is_local() {
                    v.push(("udef", J::s(self.tcx.def_path(def.did()).to_string_no_crate_verbose())));
                }
                v.push(("local", J::Bool(def.did().is_local())));
                let a = self.gargs(args);
                v.push(("args", a));
                self.note_adt(def.did());
            }
            ty::Ref(r, inner, m) => {
                v.push(("k", J::s("ref")));
                v.push(("lt", J::s(format!("{}", r))));
                v.push(("mut", J::Bool(m.is_mut())));
                let i = self.ty(*inner);
                v.push(("ty", J::Int(i as i128)));
            }
            ty::RawPtr(inner, m) => {
                v.push(("k", J::s("ptr")));
                v.push(("mut", J::Bool(m.is_mut())));
                let i = self.ty(*inner);
                v.push(("ty", J::Int(i as i128)));
            }
            ty::Tuple(ts) => {
                v.push(("k", J::s("tuple")));
                let e: Vec<J> = ts.iter().map(|x| J::Int(self.ty(x) as i128)).collect();
                v.push(("elems", J::Arr(e)));
            }
            ty::Slice(inner) => {
                v.push(("k", J::s("slice")));
                let i = self.ty(*inner);
                v.push(("ty", J::Int(i as i128)));
            }
            ty::Array(inner, len) => {
                v.push(("k", J::s("array")));
                let i = self.ty(*inner);
                v.push(("ty", J::Int(i as i128)));
                v.push(("len", J::s(format!("{}", len))));
            }
            ty::Str => v.push(("k", J::s("str"))),
            ty::Never => v.push(("k", J::s("never"))),
            ty::FnDef(def, args) => {
                v.push(("k", J::s("fndef")));
                v.push(("def", J::s(self.path(*def))));
                let a = self.gargs(args);
                v.push(("args", a));
            }
            ty::FnPtr(..) => v.push(("k", J::s("fnptr"))),
            ty::Closure(def, args) => {
                v.push(("k", J::s("closure")));
                v.push(("def", J::s(self.path(*def))));
                let ups: Vec<J> = args
                    .as_closure()
                    .upvar_tys()
                    .iter()
                    .map(|x| J::Int(self.ty(x) as i128))
                    .collect();
                v.push(("upvars", J::Arr(ups)));
            }
            ty::Param(p) => {
                v.push(("k", J::s("param")));
                v.push(("name", J::s(p.name.to_string())));
                v.push(("index", J::Int(p.index as i128)));
            }
            ty::Dynamic(..) => v.push(("k", J::s("dyn"))),
            ty::Alias(..) => {
                v.push(("k", J::s("alias")));
            }
            ty::Foreign(_) => v.push(("k", J::s("foreign"))),
            _ => v.push(("k", J::s("other"))),
        }
        self.types[idx] = J::obj(v);
        idx
    }

    fn note_adt(&mut self, did: DefId) {
        if did.is_local() || !self.adts_seen.insert(did) {
            return;
        }
        // external ADT: record variant names / discriminants / field counts for the interpreter
        let j = self.adt_json(did, false);
        self.ext_adts.push(j);
    }

    fn adt_json(&mut self, did: DefId, full: bool) -> J {
        let tcx = self.tcx;
        let adt = tcx.adt_def(did);
        let mut v: Vec<(&str, J)> = vec![("path", J::s(self.path(did)))];
        v.push(("upath", J::s(tcx.def_path(did).to_string_no_crate_verbose())));
        v.push((
            "kind",
            J::s(if adt.is_enum() {
                "enum"
            } else if adt.is_union() {
                "union"
            } else {
                "struct"
            }),
        ));
        let mut variants = vec![];
        for (vi, var) in adt.variants().iter_enumerated() {
            let mut vv: Vec<(&str, J)> = vec![("name", J::s(var.name.to_string()))];
            vv.push(("idx", J::Int(vi.as_u32() as i128)));
            if adt.is_enum() {
                let d = adt.discriminant_for_variant(tcx, vi);
                if d.ty.is_signed() {
                    // sign-extend from the discriminant type's width
                    let bits = match d.ty.kind() {
                        ty::Int(it) => it.bit_width().unwrap_or(64) as u32,
                        _ => 64,
                    };
                    let v = d.val;
                    let sv: i128 = if bits < 128 && (v >> (bits - 1)) & 1 == 1 {
                        (v as i128) - (1i128 << bits)
                    } else {
                        v as i128
                    };
                    vv.push(("discr", J::Int(sv)));
                } else {
                    vv.push(("discr", J::UInt(d.val)));
                }
            }
            let mut fields = vec![];
            for f in var.fields.iter() {
                let mut fv: Vec<(&str, J)> = vec![("name", J::s(f.name.to_string()))];
                if full {
                    let fty = tcx.type_of(f.did).instantiate_identity().skip_norm_wip();
                    fv.push(("ty", J::Int(self.ty(fty) as i128)));
                    fv.push(("ty_s", J::s(format!("{}", fty))));
                    fv.push(("vis", J::s(format!("{:?}", f.vis))));
                    fv.push(("pub", J::Bool(f.vis.is_public())));
                }
                fields.push(J::obj(fv));
            }
            vv.push(("fields", J::Arr(fields)));
            if full {
                vv.push(("non_exhaustive", J::Bool(var.is_field_list_non_exhaustive())));
            }
            variants.push(J::obj(vv));
        }
        v.push(("variants", J::Arr(variants)));
        let repr = adt.repr();
        v.push(("repr_transparent", J::Bool(repr.transparent())));
        v.push(("repr_c", J::Bool(repr.c())));
        v.push((
            "repr_align",
            match repr.align {
                Some(a) => J::UInt(a.bytes() as u128),
                None => J::Null,
            },
        ));
        if let Some(d) = tcx.adt_destructor(did) {
            v.push(("drop_impl", J::s(self.path(d.did))));
        }
        if full {
            let gens = tcx.generics_of(did);
            let variances = tcx.variances_of(did);
            let mut gv = vec![];
            for (i, p) in gens.own_params.iter().enumerate() {
                let var = variances.get(gens.parent_count + i).map(|x| format!("{:?}", x));
                gv.push(J::obj(vec![
                    ("name", J::s(p.name.to_string())),
                    (
                        "kind",
                        J::s(match p.kind {
                            ty::GenericParamDefKind::Lifetime => "lifetime",
                            ty::GenericParamDefKind::Type { .. } => "type",
                            ty::GenericParamDefKind::Const { .. } => "const",
                        }),
                    ),
                    ("variance", J::opt(var.map(J::s))),
                ]));
            }
            v.push(("generics", J::Arr(gv)));
            v.push(("span", self.loc(tcx.def_span(did))));
            v.push(("non_exhaustive", J::Bool(adt.is_variant_list_non_exhaustive())));
            v.push(("vis", J::s(format!("{:?}", tcx.visibility(did)))));
            if let Some(ld) = did.as_local() {
                v.push(("reachable", J::Bool(tcx.effective_visibilities(()).is_reachable(ld))));
            }
            let preds = self.predicates(did);
            v.push(("predicates", preds));
        }
        J::obj(v)
    }

    fn predicates(&mut self, did: DefId) -> J {
        let tcx = self.tcx;
        let mut out = vec![];
        let preds = tcx.predicates_of(did).instantiate_identity(tcx);
        for (clause, _sp) in preds.into_iter() {
            let clause = clause.skip_norm_wip();
            let s = format!("{}", clause);
            let mut v: Vec<(&str, J)> = vec![("s", J::s(s))];
            match clause.kind().skip_binder() {
                ty::ClauseKind::Trait(tp) => {
                    v.push(("k", J::s("trait")));
                    v.push(("trait", J::s(self.path(tp.trait_ref.def_id))));
                    let st = tp.trait_ref.self_ty();
                    v.push(("self", J::Int(self.ty(st) as i128)));
                    v.push(("self_s", J::s(format!("{}", st))));
                }
                ty::ClauseKind::TypeOutlives(o) => {
                    v.push(("k", J::s("type_outlives")));
                    v.push(("ty", J::Int(self.ty(o.0) as i128)));
                    v.push(("ty_s", J::s(format!("{}", o.0))));
                    v.push(("lt", J::s(format!("{}", o.1))));
                }
                ty::ClauseKind::RegionOutlives(o) => {
                    v.push(("k", J::s("region_outlives")));
                    v.push(("a", J::s(format!("{}", o.0))));
                    v.push(("b", J::s(format!("{}", o.1))));
                }
                ty::ClauseKind::Projection(p) => {
                    v.push(("k", J::s("projection")));
                }
                _ => v.push(("k", J::s("other"))),
            }
            out.push(J::obj(v));
        }
        J::Arr(out)
    }

    fn generics(&mut self, did: DefId) -> J {
        let tcx = self.tcx;
        let gens = tcx.generics_of(did);
        let mut gv = vec![];
        let mut cur = Some(gens);
        let mut chain = vec![];
        while let Some(g) = cur {
            chain.push(g);
            cur = g.parent.map(|p| tcx.generics_of(p));
        }
        chain.reverse();
        for g in chain {
            for p in g.own_params.iter() {
                gv.push(J::obj(vec![
                    ("name", J::s(p.name.to_string())),
                    ("index", J::Int(p.index as i128)),
                    (
                        "kind",
                        J::s(match p.kind {
                            ty::GenericParamDefKind::Lifetime => "lifetime",
                            ty::GenericParamDefKind::Type { .. } => "type",
                            ty::GenericParamDefKind::Const { .. } => "const",
                        }),
                    ),
                ]));
            }
        }
        J::Arr(gv)
    }

    // ---------------------------------------------------------------- items

    fn dump(mut self) -> J {
        let tcx = self.tcx;
        let mut fns = vec![];
        let mut adts = vec![];
        let mut impls = vec![];
        let mut statics = vec![];
        let mut consts = vec![];
        let mut traits = vec![];
        let mut macros = vec![];

        let items = tcx.hir_crate_items(());
        for ld in items.definitions() {
            let did = ld.to_def_id();
            match tcx.def_kind(did) {
                DefKind::Struct | DefKind::Enum | DefKind::Union => {
                    self.adts_seen.insert(did);
                    let j = self.adt_json(did, true);
                    adts.push(j);
                }
                DefKind::Impl { of_trait } => {
                    let j = self.impl_json(did, of_trait);
                    impls.push(j);
                }
                DefKind::Static { mutability, nested, .. } => {
                    let t = tcx.type_of(did).instantiate_identity().skip_norm_wip();
                    let tenv = TypingEnv::fully_monomorphized();
                    let freeze = t.is_freeze(tcx, tenv);
                    statics.push(J::obj(vec![
                        ("path", J::s(self.path(did))),
                        ("ty", J::s(format!("{}", t))),
                        ("mutable", J::Bool(mutability.is_mut())),
                        ("freeze", J::Bool(freeze)),
                        ("nested", J::Bool(nested)),
                        (
                            "thread_local",
                            J::Bool(
                                tcx.codegen_fn_attrs(did)
                                    .flags
                                    .contains(rustc_middle::middle::codegen_fn_attrs::CodegenFnAttrFlags::THREAD_LOCAL),
                            ),
                        ),
                        ("span", self.loc(tcx.def_span(did))),
                    ]));
                }
                DefKind::Macro(..) => {
                    // macro_rules! definitions: exported ones are part of the crate's trusted surface (their
                    // expansion in client code may contain `unsafe` the client never wrote)
                    let item = tcx.hir_expect_item(ld);
                    let src = tcx.sess.source_map().span_to_snippet(item.span).unwrap_or_default();
                    macros.push(J::obj(vec![
                        ("path", J::s(self.path(did))),
                        ("name", J::s(tcx.item_name(did).to_string())),
                        ("public", J::Bool(tcx.visibility(did).is_public())),
                        ("source", J::s(src)),
                        ("span", self.loc(tcx.def_span(did))),
                    ]));
                }
                DefKind::Trait => {
                    traits.push(J::obj(vec![
                        ("path", J::s(self.path(did))),
                        ("unsafe", J::Bool(tcx.trait_def(did).safety.is_unsafe())),
                        ("vis", J::s(format!("{:?}", tcx.visibility(did)))),
                        ("span", self.loc(tcx.def_span(did))),
                    ]));
                }
                _ => {}
            }
        }

        // function-like bodies
        let keys: Vec<_> = tcx.mir_keys(()).iter().copied().collect();
        for ld in keys {
            let did = ld.to_def_id();
            let kind = tcx.def_kind(did);
            match kind {
                DefKind::Fn | DefKind::AssocFn | DefKind::Closure => {
                    let j = self.fn_json(did, kind);
                    fns.push(j);
                    let args = ty::GenericArgs::identity_for_item(tcx, did);
                    let inst = Instance::new_raw(did, args);
                    let tenv = TypingEnv::post_analysis(tcx, did);
                    self.queue.push_back((inst, tenv, 0));
                }
                DefKind::AssocConst { .. } | DefKind::Const { .. } => {
                    let j = self.const_json(did);
                    consts.push(j);
                    let args = ty::GenericArgs::identity_for_item(tcx, did);
                    let inst = Instance::new_raw(did, args);
                    let tenv = TypingEnv::post_analysis(tcx, did);
                    self.queue.push_back((inst, tenv, 0));
                }
                DefKind::InlineConst => {
                    // `const { .. }` blocks: their value is decided per instantiation; the body is dumped so that an
                    // analysis can read a guard written as an inline constant
                    let args = ty::GenericArgs::identity_for_item(tcx, did);
                    let inst = Instance::new_raw(did, args);
                    let tenv = TypingEnv::post_analysis(tcx, did);
                    self.queue.push_back((inst, tenv, 0));
                }
                _ => {}
            }
        }

        while let Some((inst, tenv, depth)) = self.queue.pop_front() {
            self.dump_instance(inst, tenv, depth);
        }

        let bodies = std::mem::take(&mut self.bodies);
        let types = std::mem::take(&mut self.types);
        let ext_adts = std::mem::take(&mut self.ext_adts);
        let features: Vec<J> = tcx
            .sess
            .opts
            .cg
            .target_feature
            .split(',')
            .filter(|s| !s.is_empty())
            .map(J::s)
            .collect();
        let cfgs: Vec<J> = tcx
            .sess
            .config
            .iter()
            .filter_map(|(k, v)| {
                if k.as_str() == "feature" { v.map(|v| J::s(v.to_string())) } else { None }
            })
            .collect();
        J::obj(vec![
            ("crate", J::s(tcx.crate_name(LOCAL_CRATE).to_string())),
            ("cargo_features", J::Arr(cfgs)),
            (
                "debug_assertions",
                J::Bool(tcx.sess.opts.debug_assertions),
            ),
            ("fns", J::Arr(fns)),
            ("adts", J::Arr(adts)),
            ("ext_adts", J::Arr(ext_adts)),
            ("impls", J::Arr(impls)),
            ("statics", J::Arr(statics)),
            ("consts", J::Arr(consts)),
            ("traits", J::Arr(traits)),
            ("macros", J::Arr(macros)),
            ("types", J::Arr(types)),
            ("bodies", J::Obj(bodies)),
        ])
    }

    fn impl_json(&mut self, did: DefId, of_trait: bool) -> J {
        let tcx = self.tcx;
        let self_ty = tcx.type_of(did).instantiate_identity().skip_norm_wip();
        let mut v: Vec<(&str, J)> = vec![
            ("id", J::s(self.path(did))),
            ("self_s", J::s(format!("{}", self_ty))),
            ("self", J::Int(self.ty(self_ty) as i128)),
            ("span", self.loc(tcx.def_span(did))),
        ];
        if of_trait {
            let tr = tcx.impl_trait_ref(did).instantiate_identity().skip_norm_wip();
            v.push(("trait", J::s(self.path(tr.def_id))));
            v.push(("trait_s", J::s(format!("{}", tr.print_only_trait_path()))));
            let a = self.gargs(tr.args);
            v.push(("trait_args", a));
            let hdr = tcx.impl_trait_header(did);
            v.push(("unsafe", J::Bool(hdr.safety.is_unsafe())));
            v.push(("polarity", J::s(format!("{:?}", hdr.polarity))));
        } else {
            v.push(("trait", J::Null));
        }
        let g = self.generics(did);
        v.push(("generics", g));
        let p = self.predicates(did);
        v.push(("predicates", p));
        let mut items = vec![];
        for &it in tcx.associated_item_def_ids(did) {
            let ai = tcx.associated_item(it);
            let mut iv = vec![
                ("path", J::s(self.path(it))),
                ("name", J::s(ai.name().to_string())),
                ("kind", J::s(format!("{:?}", tcx.def_kind(it)))),
            ];
            if matches!(tcx.def_kind(it), DefKind::AssocTy) {
                let t = tcx.type_of(it).instantiate_identity().skip_norm_wip();
                iv.push(("ty_s", J::s(format!("{}", t))));
                iv.push(("ty", J::Int(self.ty(t) as i128)));
            }
            items.push(J::obj(iv));
        }
        v.push(("items", J::Arr(items)));
        J::obj(v)
    }

    fn const_json(&mut self, did: DefId) -> J {
        let tcx = self.tcx;
        let t = tcx.type_of(did).instantiate_identity().skip_norm_wip();
        let mut v: Vec<(&str, J)> = vec![
            ("path", J::s(self.path(did))),
            ("ty", J::s(format!("{}", t))),
            ("span", self.loc(tcx.def_span(did))),
        ];
        let gens = tcx.generics_of(did);
        let generic = gens.count() > 0 && gens.requires_monomorphization(tcx);
        v.push(("generic", J::Bool(generic)));
        if !generic && (t.is_bool() || t.is_integral()) {
            if let Ok(val) = tcx.const_eval_poly(did) {
                if let Some(si) = val.try_to_scalar_int() {
                    v.push(("value", J::UInt(si.to_bits_unchecked())));
                }
            }
        }
        if let Some(parent) = tcx.opt_parent(did) {
            if matches!(tcx.def_kind(parent), DefKind::Impl { .. }) {
                v.push(("impl", J::s(self.path(parent))));
            }
        }
        J::obj(v)
    }

    fn fn_json(&mut self, did: DefId, kind: DefKind) -> J {
        let tcx = self.tcx;
        let mut v: Vec<(&str, J)> = vec![
            ("path", J::s(self.path(did))),
            ("kind", J::s(format!("{:?}", kind))),
            ("span", self.loc(tcx.def_span(did))),
        ];
        if matches!(kind, DefKind::Fn | DefKind::AssocFn) {
            let sig = tcx.fn_sig(did).instantiate_identity().skip_norm_wip();
            let sig = sig.skip_binder();
            v.push(("unsafe", J::Bool(sig.safety().is_unsafe())));
            let ins: Vec<J> = sig
                .inputs()
                .iter()
                .map(|t| {
                    J::obj(vec![("ty", J::Int(self.ty(*t) as i128)), ("s", J::s(format!("{}", t)))])
                })
                .collect();
            v.push(("inputs", J::Arr(ins)));
            let o = sig.output();
            v.push((
                "output",
                J::obj(vec![("ty", J::Int(self.ty(o) as i128)), ("s", J::s(format!("{}", o)))]),
            ));
            // lifetimes occurring in the inputs / in the output (identity of the region, printed): an output
            // lifetime that occurs in no input is chosen freely by the caller
            let mut rin = RegionNames::default();
            for t in sig.inputs().iter() {
                use rustc_middle::ty::TypeVisitable;
                t.visit_with(&mut rin);
            }
            let mut rout = RegionNames::default();
            {
                use rustc_middle::ty::TypeVisitable;
                o.visit_with(&mut rout);
            }
            v.push(("in_regions", J::Arr(rin.0.iter().map(|s| J::s(s.clone())).collect())));
            v.push(("out_regions", J::Arr(rout.0.iter().map(|s| J::s(s.clone())).collect())));
            // brand provenance: regions in brand positions of the inputs / of the output / of the argument types of
            // the function's own (not higher-ranked) closure bounds
            {
                use rustc_middle::ty::TypeVisitable;
                let mut bin = BrandRegions { tcx, found: Default::default() };
                for t in sig.inputs().iter() {
                    t.visit_with(&mut bin);
                }
                let mut bout = BrandRegions { tcx, found: Default::default() };
                o.visit_with(&mut bout);
                let mut bfn = BrandRegions { tcx, found: Default::default() };
                let preds = tcx.predicates_of(did).instantiate_identity(tcx);
                for (clause, _sp) in preds.into_iter() {
                    let clause = clause.skip_norm_wip();
                    if let ty::ClauseKind::Trait(tp) = clause.kind().skip_binder() {
                        let li = tcx.lang_items();
                        let d = tp.trait_ref.def_id;
                        if Some(d) == li.fn_once_trait() || Some(d) == li.fn_mut_trait() || Some(d) == li.fn_trait() {
                            for a in tp.trait_ref.args.iter().skip(1) {
                                a.visit_with(&mut bfn);
                            }
                        }
                    }
                }
                v.push(("in_brands", J::Arr(bin.found.iter().map(|s| J::s(s.clone())).collect())));
                v.push(("out_brands", J::Arr(bout.found.iter().map(|s| J::s(s.clone())).collect())));
                v.push(("fn_bound_brands", J::Arr(bfn.found.iter().map(|s| J::s(s.clone())).collect())));
            }
            v.push(("vis", J::s(format!("{:?}", tcx.visibility(did)))));
            v.push(("pub", J::Bool(tcx.visibility(did).is_public())));
            if let Some(ld) = did.as_local() {
                let ev = tcx.effective_visibilities(());
                v.push(("reachable", J::Bool(ev.is_reachable(ld))));
                v.push(("exported", J::Bool(ev.is_exported(ld))));
            }
            let g = self.generics(did);
            v.push(("generics", g));
            let p = self.predicates(did);
            v.push(("predicates", p));
            if let Some(parent) = tcx.opt_parent(did) {
                match tcx.def_kind(parent) {
                    DefKind::Impl { of_trait } => {
                        v.push(("impl", J::s(self.path(parent))));
                        let st = tcx.type_of(parent).instantiate_identity().skip_norm_wip();
                        v.push(("impl_self", J::s(format!("{}", st))));
                        if of_trait {
                            let tr = tcx.impl_trait_ref(parent).instantiate_identity().skip_norm_wip();
                            v.push(("impl_trait", J::s(self.path(tr.def_id))));
                        }
                    }
                    DefKind::Trait => {
                        v.push(("trait_item_of", J::s(self.path(parent))));
                    }
                    _ => {}
                }
            }
            let attrs = tcx.codegen_fn_attrs(did);
            v.push(("cold", J::Bool(attrs.flags.contains(rustc_middle::middle::codegen_fn_attrs::CodegenFnAttrFlags::COLD))));
            v.push(("is_const", J::Bool(tcx.is_const_fn(did))));
        } else {
            // closure
            if let Some(parent) = tcx.opt_parent(did) {
                v.push(("parent", J::s(self.path(parent))));
            }
        }
        J::obj(v)
    }

    // ---------------------------------------------------------------- MIR

    fn inst_key(&self, inst: Instance<'tcx>) -> String {
        let args = self.tcx.erase_and_anonymize_regions(inst.args);
        let mut base = self.tcx.def_path_str_with_args(inst.def_id(), args);
        // closure types print as `{closure@file:line:col}`: closures produced by one macro expansion share their span,
        // so two instantiations with different closures would get the same key. Append the closures' own def paths.
        for a in args.iter() {
            for inner in a.walk() {
                if let GenericArgKind::Type(t) = inner.kind() {
                    if let ty::Closure(did, _) = t.kind() {
                        base.push_str(&format!("@{}", self.tcx.def_path_str(*did)));
                    }
                }
            }
        }
        match inst.def {
            InstanceKind::Item(_) => base,
            other => format!("{}#{}", base, kind_name(&other)),
        }
    }

    fn subst<T>(&self, inst: Instance<'tcx>, tenv: TypingEnv<'tcx>, v: T) -> T
    where
        T: ty::TypeFoldable<TyCtxt<'tcx>> + Clone,
    {
        match inst.try_instantiate_mir_and_normalize_erasing_regions(
            self.tcx,
            tenv,
            EarlyBinder::bind(v.clone()),
        ) {
            Ok(x) => x,
            Err(_) => {
                // fall back to plain instantiation without normalisation
                EarlyBinder::bind(v).instantiate(self.tcx, inst.args).skip_norm_wip()
            }
        }
    }

    fn wanted(&self, inst: Instance<'tcx>) -> bool {
        let did = inst.def_id();
        if did.is_local() {
            return true;
        }
        match inst.def {
            InstanceKind::Item(_) | InstanceKind::ClosureOnceShim { .. } | InstanceKind::FnPtrShim(..) => {}
            InstanceKind::Intrinsic(_) | InstanceKind::Virtual(..) => return false,
            InstanceKind::DropGlue(..) => return false,
            _ => {}
        }
        let p = self.path(did);
        allow_external(&p)
    }

    fn dump_instance(&mut self, inst: Instance<'tcx>, tenv: TypingEnv<'tcx>, depth: usize) {
        let tcx = self.tcx;
        let key = self.inst_key(inst);
        if !self.seen.insert(key.clone()) {
            return;
        }
        let has_mir = match inst.def {
            InstanceKind::Item(d) => {
                if d.is_local() {
                    tcx.hir_maybe_body_owned_by(d.expect_local()).is_some()
                        || matches!(tcx.def_kind(d), DefKind::Closure | DefKind::Ctor(..))
                } else {
                    tcx.is_mir_available(d)
                }
            }
            InstanceKind::Intrinsic(_) | InstanceKind::Virtual(..) => false,
            InstanceKind::DropGlue(_, None) => false,
            _ => true,
        };
        if !has_mir {
            return;
        }
        if matches!(inst.def, InstanceKind::Item(d) if matches!(tcx.def_kind(d), DefKind::Ctor(..))) {
            return;
        }
        if let InstanceKind::Item(d) = inst.def {
            if tcx.is_foreign_item(d) || tcx.intrinsic(d).is_some() {
                return;
            }
        }
        let body: &Body<'tcx> = tcx.instance_mir(inst.def);
        let j = self.body_json(inst, tenv, body, depth, &key);
        if let InstanceKind::Item(d) = inst.def {
            if !matches!(tcx.def_kind(d), DefKind::AssocConst { .. } | DefKind::Const { .. } | DefKind::AnonConst | DefKind::InlineConst)
                || true
            {
                let proms = tcx.promoted_mir(d);
                for (pi, pbody) in proms.iter_enumerated() {
                    let pkey = format!("{}::promoted[{}]", key, pi.as_u32());
                    let pj = self.body_json(inst, tenv, pbody, depth, &pkey);
                    self.bodies.push((pkey, pj));
                }
            }
        }
        self.bodies.push((key, j));
    }

    fn body_json(
        &mut self,
        inst: Instance<'tcx>,
        tenv: TypingEnv<'tcx>,
        body: &Body<'tcx>,
        depth: usize,
        key: &str,
    ) -> J {
        let tcx = self.tcx;
        self.cur_depth = depth;
        let mut locals = vec![];
        for (l, decl) in body.local_decls.iter_enumerated() {
            let t = self.subst(inst, tenv, decl.ty);
            locals.push(J::Int(self.ty(t) as i128));
        }
        let mut names = vec![];
        for vdi in body.var_debug_info.iter() {
            if let mir::VarDebugInfoContents::Place(p) = vdi.value {
                if p.projection.is_empty() {
                    names.push((format!("{}", p.local.as_u32()), J::s(vdi.name.to_string())));
                } else {
                    names.push((
                        format!("{}", vdi.name),
                        self.place(inst, tenv, body, p),
                    ));
                }
            }
        }
        let mut blocks = vec![];
        for (bb, data) in body.basic_blocks.iter_enumerated() {
            let mut stmts = vec![];
            for st in data.statements.iter() {
                if let Some(j) = self.stmt(inst, tenv, body, st) {
                    stmts.push(j);
                }
            }
            let term = match &data.terminator {
                Some(t) => self.term(inst, tenv, body, t, depth),
                None => J::Null,
            };
            blocks.push(J::obj(vec![
                ("s", J::Arr(stmts)),
                ("t", term),
                ("c", J::Bool(data.is_cleanup)),
            ]));
        }
        let gargs = self.gargs(inst.args);
        J::obj(vec![
            ("def", J::s(self.path(inst.def_id()))),
            ("local", J::Bool(inst.def_id().is_local())),
            ("ik", J::s(kind_name(&inst.def))),
            ("args", gargs),
            ("depth", J::Int(depth as i128)),
            ("span", self.loc(body.span)),
            ("argc", J::Int(body.arg_count as i128)),
            ("spread", J::opt(body.spread_arg.map(|l| J::Int(l.as_u32() as i128)))),
            ("locals", J::Arr(locals)),
            ("names", J::Obj(names)),
            ("blocks", J::Arr(blocks)),
        ])
    }

    fn place(
        &mut self,
        inst: Instance<'tcx>,
        tenv: TypingEnv<'tcx>,
        body: &Body<'tcx>,
        p: Place<'tcx>,
    ) -> J {
        let mut proj = vec![];
        for e in p.projection.iter() {
            proj.push(match e {
                ProjectionElem::Deref => J::arr([J::s("d")]),
                ProjectionElem::Field(f, _) => J::arr([J::s("f"), J::Int(f.as_u32() as i128)]),
                ProjectionElem::Downcast(_, v) => J::arr([J::s("v"), J::Int(v.as_u32() as i128)]),
                ProjectionElem::Index(l) => J::arr([J::s("i"), J::Int(l.as_u32() as i128)]),
                ProjectionElem::ConstantIndex { offset, min_length, from_end } => J::arr([
                    J::s("ci"),
                    J::UInt(offset as u128),
                    J::UInt(min_length as u128),
                    J::Bool(from_end),
                ]),
                ProjectionElem::Subslice { from, to, from_end } => {
                    J::arr([J::s("ss"), J::UInt(from as u128), J::UInt(to as u128), J::Bool(from_end)])
                }
                ProjectionElem::OpaqueCast(_) => J::arr([J::s("o")]),
                ProjectionElem::UnwrapUnsafeBinder(_) => J::arr([J::s("o")]),
            });
        }
        J::obj(vec![("l", J::Int(p.local.as_u32() as i128)), ("p", J::Arr(proj))])
    }

    fn place_ty(
        &mut self,
        inst: Instance<'tcx>,
        tenv: TypingEnv<'tcx>,
        body: &Body<'tcx>,
        p: Place<'tcx>,
    ) -> Ty<'tcx> {
        let t = p.ty(&body.local_decls, self.tcx).ty;
        self.subst(inst, tenv, t)
    }

    fn scalar_int_json(&mut self, si: ty::ScalarInt, t: Ty<'tcx>) -> J {
        let bits = si.to_bits_unchecked();
        let size = si.size().bytes();
        let mut v = vec![("int", J::UInt(bits)), ("size", J::UInt(size as u128))];
        if t.is_signed() {
            let sv = si.to_int(si.size());
            v.push(("sint", J::Int(sv)));
        }
        J::obj(v)
    }

    fn constant(
        &mut self,
        inst: Instance<'tcx>,
        tenv: TypingEnv<'tcx>,
        c: &mir::ConstOperand<'tcx>,
    ) -> J {
        let tcx = self.tcx;
        let konst = self.subst(inst, tenv, c.const_);
        let t = konst.ty();
        let tid = self.ty(t);
        let mut v: Vec<(&str, J)> = vec![("k", J::s("const")), ("ty", J::Int(tid as i128))];
        // fn items
        if let ty::FnDef(def, args) = t.kind() {
            let callee = self.callee_json(inst, tenv, *def, args, None);
            v.push(("fn", callee));
            return J::obj(v);
        }
        match konst {
            MirConst::Unevaluated(uv, _) => {
                // try to evaluate (succeeds for monomorphic constants)
                if uv.promoted.is_none() {
                    if let Ok(val) = tcx.const_eval_resolve(tenv, uv, rustc_span::DUMMY_SP) {
                        if let Some(j) = self.const_value(val, t) {
                            v.push(("v", j));
                            v.push(("from", J::s(self.path(uv.def))));
                            return J::obj(v);
                        }
                    }
                }
                let mut u: Vec<(&str, J)> = vec![("def", J::s(self.path(uv.def)))];
                let a = self.gargs(uv.args);
                u.push(("args", a));
                u.push(("s", J::s(tcx.def_path_str_with_args(uv.def, uv.args))));
                if let Some(p) = uv.promoted {
                    u.push(("promoted", J::Int(p.as_u32() as i128)));
                }
                v.push(("uneval", J::obj(u)));
            }
            MirConst::Val(val, _) => match self.const_value(val, t) {
                Some(j) => v.push(("v", j)),
                None => v.push(("opaque", J::s(format!("{}", konst)))),
            },
            MirConst::Ty(_, ct) => {
                if let Some(x) = ct.try_to_target_usize(tcx) {
                    v.push(("v", J::obj(vec![("int", J::UInt(x as u128)), ("size", J::UInt(8))])));
                } else if let Some(sc) = ct.try_to_scalar() {
                    if let mir::interpret::Scalar::Int(si) = sc {
                        v.push(("v", self.scalar_int_json(si, t)));
                    } else {
                        v.push(("tyconst", J::s(format!("{}", ct))));
                    }
                } else {
                    v.push(("tyconst", J::s(format!("{}", ct))));
                }
            }
        }
        J::obj(v)
    }

    fn const_value(&mut self, val: ConstValue, t: Ty<'tcx>) -> Option<J> {
        let tcx = self.tcx;
        match val {
            ConstValue::ZeroSized => Some(J::obj(vec![("zst", J::Bool(true))])),
            ConstValue::Scalar(mir::interpret::Scalar::Int(si)) => {
                if t.is_bool() || t.is_integral() || t.is_char() || t.is_floating_point() {
                    let mut j = self.scalar_int_json(si, t);
                    if t.is_floating_point() {
                        if let J::Obj(ref mut v) = j {
                            let bits = si.to_bits_unchecked();
                            let f = if si.size().bytes() == 8 {
                                f64::from_bits(bits as u64)
                            } else {
                                f32::from_bits(bits as u32) as f64
                            };
                            v.push(("float".to_string(), J::s(format!("{:?}", f))));
                        }
                    }
                    return Some(j);
                }
                if let ty::Adt(adt, _) = t.kind() {
                    if adt.is_enum() && adt.variants().iter().all(|v| v.fields.is_empty()) {
                        // fieldless enum: scalar is the tag
                        let bits = si.to_bits_unchecked();
                        for (vi, _) in adt.variants().iter_enumerated() {
                            let d = adt.discriminant_for_variant(tcx, vi);
                            let size = si.size();
                            if size.truncate(d.val) == bits {
                                return Some(J::obj(vec![
                                    ("variant", J::Int(vi.as_u32() as i128)),
                                    ("fields", J::Arr(vec![])),
                                ]));
                            }
                        }
                    }
                }
                // other scalar-represented ADTs: try destructuring
                self.destructure(val, t).or_else(|| {
                    Some(J::obj(vec![
                        ("rawint", J::UInt(si.to_bits_unchecked())),
                        ("size", J::UInt(si.size().bytes() as u128)),
                    ]))
                })
            }
            ConstValue::Scalar(mir::interpret::Scalar::Ptr(p, _)) => {
                let alloc_id = p.provenance.alloc_id();
                match tcx.global_alloc(alloc_id) {
                    mir::interpret::GlobalAlloc::Static(did) => {
                        Some(J::obj(vec![("static", J::s(self.path(did)))]))
                    }
                    mir::interpret::GlobalAlloc::Function { instance } => {
                        Some(J::obj(vec![("fnptr", J::s(self.inst_key(instance)))]))
                    }
                    _ => Some(J::obj(vec![("ptr", J::s("alloc"))])),
                }
            }
            ConstValue::Slice { .. } => Some(J::obj(vec![("slice", J::Bool(true))])),
            ConstValue::Indirect { .. } => self.destructure(val, t),
        }
    }

    fn destructure(&mut self, val: ConstValue, t: Ty<'tcx>) -> Option<J> {
        let tcx = self.tcx;
        if !matches!(t.kind(), ty::Adt(..) | ty::Tuple(..)) {
            return None;
        }
        if t.has_param() {
            return None;
        }
        let d = tcx.try_destructure_mir_constant_for_user_output(val, t)?;
        let mut fields = vec![];
        let mut tys = vec![];
        for (fv, fty) in d.fields.iter() {
            tys.push(J::Int(self.ty(*fty) as i128));
            match self.const_value(*fv, *fty) {
                Some(j) => fields.push(j),
                None => fields.push(J::obj(vec![("opaque", J::s("field"))])),
            }
        }
        Some(J::obj(vec![
            ("variant", J::opt(d.variant.map(|v| J::Int(v.as_u32() as i128)))),
            ("fields", J::Arr(fields)),
            ("tys", J::Arr(tys)),
        ]))
    }

    fn operand(
        &mut self,
        inst: Instance<'tcx>,
        tenv: TypingEnv<'tcx>,
        body: &Body<'tcx>,
        o: &Operand<'tcx>,
    ) -> J {
        match o {
            Operand::Copy(p) => {
                J::obj(vec![("k", J::s("copy")), ("p", self.place(inst, tenv, body, *p))])
            }
            Operand::Move(p) => {
                J::obj(vec![("k", J::s("move")), ("p", self.place(inst, tenv, body, *p))])
            }
            Operand::Constant(c) => self.constant(inst, tenv, c),
            _ => J::obj(vec![("k", J::s("other")), ("s", J::s(format!("{:?}", o)))]),
        }
    }

    fn stmt(
        &mut self,
        inst: Instance<'tcx>,
        tenv: TypingEnv<'tcx>,
        body: &Body<'tcx>,
        st: &mir::Statement<'tcx>,
    ) -> Option<J> {
        let line = self.line(st.source_info.span);
        let x = st.source_info.span.from_expansion();
        match &st.kind {
            StatementKind::Assign(b) => {
                let (p, r) = &**b;
                let pj = self.place(inst, tenv, body, *p);
                let rj = self.rvalue(inst, tenv, body, r);
                Some(J::obj(vec![
                    ("k", J::s("assign")),
                    ("p", pj),
                    ("r", rj),
                    ("l", J::Int(line)),
                    ("x", J::Bool(x)),
                ]))
            }
            StatementKind::SetDiscriminant { place, variant_index } => Some(J::obj(vec![
                ("k", J::s("setdiscr")),
                ("p", self.place(inst, tenv, body, **place)),
                ("v", J::Int(variant_index.as_u32() as i128)),
                ("l", J::Int(line)),
            ])),
            StatementKind::Intrinsic(i) => match &**i {
                mir::NonDivergingIntrinsic::Assume(_) => None,
                mir::NonDivergingIntrinsic::CopyNonOverlapping(c) => Some(J::obj(vec![
                    ("k", J::s("copy_nonoverlapping")),
                    ("src", self.operand(inst, tenv, body, &c.src)),
                    ("dst", self.operand(inst, tenv, body, &c.dst)),
                    ("count", self.operand(inst, tenv, body, &c.count)),
                    ("l", J::Int(line)),
                ])),
            },
            _ => None,
        }
    }

    fn rvalue(
        &mut self,
        inst: Instance<'tcx>,
        tenv: TypingEnv<'tcx>,
        body: &Body<'tcx>,
        r: &Rvalue<'tcx>,
    ) -> J {
        let tcx = self.tcx;
        match r {
            Rvalue::Use(o, ..) => {
                J::obj(vec![("k", J::s("use")), ("o", self.operand(inst, tenv, body, o))])
            }
            Rvalue::Ref(_, bk, p) => J::obj(vec![
                ("k", J::s("ref")),
                (
                    "m",
                    J::s(match bk {
                        BorrowKind::Shared => "shared",
                        BorrowKind::Fake(_) => "fake",
                        BorrowKind::Mut { .. } => "mut",
                    }),
                ),
                ("p", self.place(inst, tenv, body, *p)),
            ]),
            Rvalue::RawPtr(k, p) => J::obj(vec![
                ("k", J::s("rawptr")),
                ("m", J::s(format!("{:?}", k))),
                ("p", self.place(inst, tenv, body, *p)),
            ]),
            Rvalue::Cast(ck, o, t) => {
                let t = self.subst(inst, tenv, *t);
                let from = o.ty(&body.local_decls, tcx);
                let from = self.subst(inst, tenv, from);
                let cks = match ck {
                    CastKind::PointerCoercion(pc, _) => format!("Coerce:{:?}", pc),
                    other => format!("{:?}", other),
                };
                J::obj(vec![
                    ("k", J::s("cast")),
                    ("ck", J::s(cks)),
                    ("o", self.operand(inst, tenv, body, o)),
                    ("ty", J::Int(self.ty(t) as i128)),
                    ("from", J::Int(self.ty(from) as i128)),
                ])
            }
            Rvalue::BinaryOp(op, b) => {
                let (a, c) = &**b;
                let at = a.ty(&body.local_decls, tcx);
                let at = self.subst(inst, tenv, at);
                J::obj(vec![
                    ("k", J::s("binop")),
                    ("op", J::s(format!("{:?}", op))),
                    ("a", self.operand(inst, tenv, body, a)),
                    ("b", self.operand(inst, tenv, body, c)),
                    ("ty", J::Int(self.ty(at) as i128)),
                ])
            }
            Rvalue::UnaryOp(op, o) => {
                let ot = o.ty(&body.local_decls, tcx);
                let ot = self.subst(inst, tenv, ot);
                J::obj(vec![
                    ("k", J::s("unop")),
                    ("op", J::s(format!("{:?}", op))),
                    ("o", self.operand(inst, tenv, body, o)),
                    ("ty", J::Int(self.ty(ot) as i128)),
                ])
            }
            Rvalue::Discriminant(p) => {
                let pt = self.place_ty(inst, tenv, body, *p);
                J::obj(vec![
                    ("k", J::s("discr")),
                    ("p", self.place(inst, tenv, body, *p)),
                    ("ty", J::Int(self.ty(pt) as i128)),
                ])
            }
            Rvalue::Aggregate(ak, ops) => {
                let opsj: Vec<J> =
                    ops.iter().map(|o| self.operand(inst, tenv, body, o)).collect();
                let akj = match &**ak {
                    AggregateKind::Array(_) => J::obj(vec![("k", J::s("array"))]),
                    AggregateKind::Tuple => J::obj(vec![("k", J::s("tuple"))]),
                    AggregateKind::Adt(did, vi, args, _, active) => {
                        self.note_adt(*did);
                        let args = self.subst(inst, tenv, *args);
                        J::obj(vec![
                            ("k", J::s("adt")),
                            ("def", J::s(self.path(*did))),
                            ("variant", J::Int(vi.as_u32() as i128)),
                            ("args", self.gargs(args)),
                            ("active", J::opt(active.map(|f| J::Int(f.as_u32() as i128)))),
                        ])
                    }
                    AggregateKind::Closure(did, args) => {
                        let args = self.subst(inst, tenv, *args);
                        // the closure body instantiated for these arguments (closure types print without their
                        // generic arguments, so callers' instance keys cannot be relied on to reach it)
                        if self.cur_depth < self.max_depth {
                            let ci = Instance::new_raw(*did, args);
                            self.queue.push_back((ci, tenv, self.cur_depth + 1));
                        }
                        // enqueue closure body instance so that its MIR is available instantiated
                        J::obj(vec![
                            ("k", J::s("closure")),
                            ("def", J::s(self.path(*did))),
                            ("key", J::s(tcx.def_path_str_with_args(*did, args))),
                        ])
                    }
                    AggregateKind::RawPtr(..) => J::obj(vec![("k", J::s("rawptr"))]),
                    _ => J::obj(vec![("k", J::s("other"))]),
                };
                J::obj(vec![("k", J::s("agg")), ("ak", akj), ("ops", J::Arr(opsj))])
            }
            Rvalue::Repeat(o, n) => J::obj(vec![
                ("k", J::s("repeat")),
                ("o", self.operand(inst, tenv, body, o)),
                ("n", J::s(format!("{}", n))),
            ]),
            Rvalue::CopyForDeref(p) => J::obj(vec![
                ("k", J::s("use")),
                ("o", J::obj(vec![("k", J::s("copy")), ("p", self.place(inst, tenv, body, *p))])),
            ]),
            Rvalue::ThreadLocalRef(did) => {
                J::obj(vec![("k", J::s("tlref")), ("def", J::s(self.path(*did)))])
            }
            other => J::obj(vec![("k", J::s("other")), ("s", J::s(format!("{:?}", other)))]),
        }
    }

    fn unwind(&self, u: &UnwindAction) -> J {
        match u {
            UnwindAction::Continue => J::s("cont"),
            UnwindAction::Unreachable => J::s("unreach"),
            UnwindAction::Terminate(_) => J::s("term"),
            UnwindAction::Cleanup(bb) => J::Int(bb.as_u32() as i128),
        }
    }

    fn callee_json(
        &mut self,
        inst: Instance<'tcx>,
        tenv: TypingEnv<'tcx>,
        def: DefId,
        args: GenericArgsRef<'tcx>,
        depth: Option<usize>,
    ) -> J {
        let tcx = self.tcx;
        let mut v: Vec<(&str, J)> = vec![
            ("def", J::s(self.path(def))),
            ("s", J::s(tcx.def_path_str_with_args(def, args))),
            ("local", J::Bool(def.is_local())),
            ("krate", J::s(tcx.crate_name(def.krate).to_string())),
        ];
        let ga = self.gargs(args);
        v.push(("args", ga));
        if let Some(tr) = tcx.trait_of_assoc(def) {
            v.push(("trait", J::s(self.path(tr))));
        }
        if let Some(i) = tcx.intrinsic(def) {
            v.push(("intrinsic", J::s(i.name.to_string())));
        }
        if matches!(tcx.def_kind(def), DefKind::Fn | DefKind::AssocFn) {
            let sig = tcx.fn_sig(def).instantiate_identity().skip_norm_wip();
            v.push(("unsafe", J::Bool(sig.safety().is_unsafe())));
        }
        if matches!(tcx.def_kind(def), DefKind::Ctor(..)) {
            v.push(("ctor", J::Bool(true)));
        }
        match Instance::try_resolve(tcx, tenv, def, args) {
            Ok(Some(ci)) => {
                let key = self.inst_key(ci);
                let mut r: Vec<(&str, J)> = vec![
                    ("def", J::s(self.path(ci.def_id()))),
                    ("ik", J::s(kind_name(&ci.def))),
                    ("key", J::s(key)),
                    ("local", J::Bool(ci.def_id().is_local())),
                ];
                if let InstanceKind::Virtual(_, idx) = ci.def {
                    r.push(("vtable_idx", J::Int(idx as i128)));
                }
                if let Some(d) = depth {
                    if d < self.max_depth && self.wanted(ci) {
                        self.queue.push_back((ci, tenv, d + 1));
                        r.push(("queued", J::Bool(true)));
                    }
                }
                v.push(("resolved", J::obj(r)));
            }
            _ => {
                v.push(("resolved", J::Null));
            }
        }
        J::obj(v)
    }

    fn term(
        &mut self,
        inst: Instance<'tcx>,
        tenv: TypingEnv<'tcx>,
        body: &Body<'tcx>,
        t: &mir::Terminator<'tcx>,
        depth: usize,
    ) -> J {
        let tcx = self.tcx;
        let line = self.line(t.source_info.span);
        let x = t.source_info.span.from_expansion();
        let mut v: Vec<(&str, J)> = vec![("l", J::Int(line))];
        if x {
            let ed = t.source_info.span.ctxt().outer_expn_data();
            if let rustc_span::ExpnKind::Macro(_, name) = ed.kind {
                v.push(("x", J::s(name.to_string())));
            } else {
                v.push(("x", J::s("desugar")));
            }
            let mut sp = t.source_info.span;
            let mut outer_name = String::new();
            while sp.from_expansion() {
                let ed = sp.ctxt().outer_expn_data();
                if let rustc_span::ExpnKind::Macro(_, name) = ed.kind {
                    outer_name = name.to_string();
                }
                sp = ed.call_site;
            }
            v.push(("xo", J::s(outer_name)));
        }
        match &t.kind {
            TerminatorKind::Goto { target } => {
                v.push(("k", J::s("goto")));
                v.push(("t", J::Int(target.as_u32() as i128)));
            }
            TerminatorKind::SwitchInt { discr, targets } => {
                v.push(("k", J::s("switch")));
                v.push(("o", self.operand(inst, tenv, body, discr)));
                let dt = discr.ty(&body.local_decls, tcx);
                let dt = self.subst(inst, tenv, dt);
                v.push(("ty", J::Int(self.ty(dt) as i128)));
                let mut vals = vec![];
                let mut tg = vec![];
                for (val, bb) in targets.iter() {
                    vals.push(J::UInt(val));
                    tg.push(J::Int(bb.as_u32() as i128));
                }
                v.push(("vals", J::Arr(vals)));
                v.push(("targets", J::Arr(tg)));
                v.push(("otherwise", J::Int(targets.otherwise().as_u32() as i128)));
            }
            TerminatorKind::Return => v.push(("k", J::s("return"))),
            TerminatorKind::Unreachable => v.push(("k", J::s("unreachable"))),
            TerminatorKind::UnwindResume => v.push(("k", J::s("resume"))),
            TerminatorKind::UnwindTerminate(_) => v.push(("k", J::s("abort"))),
            TerminatorKind::Drop { place, target, unwind, .. } => {
                v.push(("k", J::s("drop")));
                v.push(("p", self.place(inst, tenv, body, *place)));
                v.push(("t", J::Int(target.as_u32() as i128)));
                v.push(("u", self.unwind(unwind)));
                let pt = self.place_ty(inst, tenv, body, *place);
                v.push(("ty", J::Int(self.ty(pt) as i128)));
                let needs = pt.needs_drop(tcx, tenv);
                v.push(("needs_drop", J::Bool(needs)));
            }
            TerminatorKind::Call { func, args, destination, target, unwind, fn_span, .. } => {
                v.push(("k", J::s("call")));
                let fty = func.ty(&body.local_decls, tcx);
                let fty = self.subst(inst, tenv, fty);
                match fty.kind() {
                    ty::FnDef(def, cargs) => {
                        let c = self.callee_json(inst, tenv, *def, cargs, Some(depth));
                        v.push(("f", c));
                    }
                    _ => {
                        v.push((
                            "f",
                            J::obj(vec![
                                ("indirect", J::Bool(true)),
                                ("op", self.operand(inst, tenv, body, func)),
                                ("ty", J::s(format!("{}", fty))),
                            ]),
                        ));
                    }
                }
                let a: Vec<J> =
                    args.iter().map(|o| self.operand(inst, tenv, body, &o.node)).collect();
                v.push(("args", J::Arr(a)));
                v.push(("d", self.place(inst, tenv, body, *destination)));
                v.push(("t", J::opt(target.map(|b| J::Int(b.as_u32() as i128)))));
                v.push(("u", self.unwind(unwind)));
            }
            TerminatorKind::TailCall { .. } => v.push(("k", J::s("other"))),
            TerminatorKind::Assert { cond, expected, msg, target, unwind } => {
                v.push(("k", J::s("assert")));
                v.push(("c", self.operand(inst, tenv, body, cond)));
                v.push(("e", J::Bool(*expected)));
                let m = match &**msg {
                    mir::AssertKind::BoundsCheck { .. } => "BoundsCheck".to_string(),
                    mir::AssertKind::Overflow(op, ..) => format!("Overflow({:?})", op),
                    mir::AssertKind::OverflowNeg(_) => "OverflowNeg".to_string(),
                    mir::AssertKind::DivisionByZero(_) => "DivisionByZero".to_string(),
                    mir::AssertKind::RemainderByZero(_) => "RemainderByZero".to_string(),
                    mir::AssertKind::MisalignedPointerDereference { .. } => {
                        "MisalignedPointerDereference".to_string()
                    }
                    mir::AssertKind::NullPointerDereference => "NullPointerDereference".to_string(),
                    mir::AssertKind::InvalidEnumConstruction(_) => {
                        "InvalidEnumConstruction".to_string()
                    }
                    _ => "Other".to_string(),
                };
                v.push(("msg", J::s(m)));
                v.push(("t", J::Int(target.as_u32() as i128)));
                v.push(("u", self.unwind(unwind)));
            }
            TerminatorKind::FalseEdge { real_target, .. } => {
                v.push(("k", J::s("goto")));
                v.push(("t", J::Int(real_target.as_u32() as i128)));
            }
            TerminatorKind::FalseUnwind { real_target, .. } => {
                v.push(("k", J::s("goto")));
                v.push(("t", J::Int(real_target.as_u32() as i128)));
            }
            _ => {
                v.push(("k", J::s("other")));
                v.push(("s", J::s(format!("{:?}", t.kind))));
            }
        }
        J::obj(v)
    }
}

fn kind_name(k: &InstanceKind<'_>) -> &'static str {
    match k {
        InstanceKind::Item(_) => "Item",
        InstanceKind::Intrinsic(_) => "Intrinsic",
        InstanceKind::VTableShim(_) => "VTableShim",
        InstanceKind::ReifyShim(..) => "ReifyShim",
        InstanceKind::FnPtrShim(..) => "FnPtrShim",
        InstanceKind::Virtual(..) => "Virtual",
        InstanceKind::ClosureOnceShim { .. } => "ClosureOnceShim",
        InstanceKind::ConstructCoroutineInClosureShim { .. } => "ConstructCoroutineInClosureShim",
        InstanceKind::ThreadLocalShim(_) => "ThreadLocalShim",
        InstanceKind::DropGlue(..) => "DropGlue",
        InstanceKind::CloneShim(..) => "CloneShim",
        InstanceKind::FnPtrAddrShim(..) => "FnPtrAddrShim",
        _ => "Other",
    }
}
