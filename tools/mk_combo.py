#!/usr/bin/env python3
"""tools/mk_combo.py: build the patch-form mutants under mutants/<name>/ - a behaviour-preserving refactor taken from
benign/ combined with a defect written on top of it (edit list below). They show that rules generalised to accept
the refactor still report the defect in the refactored code."""
import json
import os
import shutil
import subprocess
import sys
import tempfile

VERIF = os.path.dirname(os.path.dirname(os.path.abspath(__file__)))

COMBOS = [
    ("C16-helper-skips-first", "R5-01-trace-each-helper", "C16", "trace-coverage",
     "on top of the shared trace_each helper: the helper skips the first element it is given",
     [("src/collect_impl.rs", "    for value in values {\n        cc.trace(value);", "    for value in values.into_iter().skip(1) {\n        cc.trace(value);")]),
    ("C01-root-enum-new-starts-traced", "R1-04-root-mark-enum", "C01", "initial-collector-state",
     "on top of the two-variant root flag: a new context starts with the root marked as already traced",
     [("src/context.rs", "            root_mark: RootMark::Pending,\n", "            root_mark: RootMark::Traced,\n")]),
    ("C06-root-enum-barrier-noop", "R1-04-root-mark-enum", "C06", "root-paths",
     "on top of the two-variant root flag: root_barrier stores Traced (the barrier no longer flags the root)",
     [("src/context.rs", "            self.root_mark = RootMark::Pending;\n        }\n    }\n\n    #[inline]\n    pub(crate) fn phase",
       "            self.root_mark = RootMark::Traced;\n        }\n    }\n\n    #[inline]\n    pub(crate) fn phase")]),
    ("C14-freelink-dec-frees-at-one", "R4-03-slots-free-link-niche", "C14", "slot-reachability",
     "on top of the niche-encoded free list: dec vacates the slot one handle early",
     [("src/dynamic_roots.rs", "                if *ref_count == 0 {\n                    *slot = Slot::Vacant {", "                if *ref_count <= 1 {\n                    *slot = Slot::Vacant {")]),
    ("C09-leftover-enum-swapped", "R2-06-finish-cycle-leftover-debt-enum", "C09", "exit-structure",
     "on top of the LeftoverDebt enum: do_collection passes Inherit after an atomic full cycle and Forgive otherwise",
     [("src/context.rs", "                            LeftoverDebt::Forgive\n", "                            LeftoverDebt::Inherit\n"),
      ("src/context.rs", "                            LeftoverDebt::Inherit\n                        });", "                            LeftoverDebt::Forgive\n                        });")]),
    ("C09-nested-counters-one-not-reset", "R2-07-cycle-counters-struct", "C09", "finish_cycle-shape",
     "on top of the nested CycleCounters struct: the reset loop leaves out traced_gcs",
     [("src/metrics.rs", "            marked_gcs,\n            traced_gcs,\n            remembered_gcs,\n        ] {", "            marked_gcs,\n            remembered_gcs,\n        ] {"),
      ("src/metrics.rs", "            traced_gcs,\n            remembered_gcs,\n        } = self;", "            traced_gcs: _,\n            remembered_gcs,\n        } = self;")]),
    ("C17-named-dealloc-other-layout", "R3-05-vtable-entries-as-named-fns", "C17", "layout-term-agreement",
     "on top of the vtable entries as named functions: dealloc computes the block layout from Layout::new::<GcHeader>()",
     [("src/gc_ptr.rs", "            let (alloc_layout, value_offset) = prefix_header_layout(\n                PtrProps::<T, TM::TypeMetadata, P>::META_HEADER_LAYOUT,\n                P::layout(TM::TYPE_METADATA, ptr_meta).unwrap(),\n            )\n            .unwrap();\n\n            let alloc_ptr = value_ptr.byte_sub(value_offset).as_ptr();\n            // SAFETY: the pointer was allocated with this layout.",
       "            let (alloc_layout, value_offset) = prefix_header_layout(\n                Layout::new::<GcHeader>(),\n                P::layout(TM::TYPE_METADATA, ptr_meta).unwrap(),\n            )\n            .unwrap();\n\n            let alloc_ptr = value_ptr.byte_sub(value_offset).as_ptr();\n            // SAFETY: the pointer was allocated with this layout.")]),
    ("C06-refcell-queue-regray-not-queued", "R1-03-queue-refcell", "C06", "backward_barrier-table",
     "on top of the RefCell-backed queue: make_gray_again turns the object Gray without queueing it",
     [("src/context.rs", "        header.set_color(GcColor::Gray);\n        self.gray_again.push(gc_ptr);\n        self.metrics.mark_gc_untraced(1);", "        header.set_color(GcColor::Gray);\n        self.metrics.mark_gc_untraced(1);")]),
    ("C04-module-dropall-ignores-live", "R1-06-drop-all-module-level", "C04", "drop_all-table",
     "on top of DropAll at module level: the live test is dropped (shells destructed a second time at arena drop)",
     [("src/context.rs", "                if header.is_live() {\n                    gc_ptr.drop_in_place();\n                    self.metrics.mark_gc_dropped(1);\n                }\n                gc_ptr.dealloc();",
       "                {\n                    gc_ptr.drop_in_place();\n                    self.metrics.mark_gc_dropped(1);\n                }\n                gc_ptr.dealloc();")]),
    ("C18-clamped-prefix-uses-allocated-length", "R5-06-slice-drop-clamped-prefix", "C18", "slice-builder:drop-prefix-is-init_length",
     "on top of the clamped prefix helper: the helper takes the larger of init_length and the allocated length",
     [("src/slice.rs", "self.init_length.min(allocated_length)", "self.init_length.max(allocated_length)"),
      ("src/slice.rs", "        debug_assert!(self.init_length <= allocated_length);\n", "")]),
    ("C14-rebrand-helper-without-gate", "R4-01-dynroots-rebrand-helper", "C14", "fetch-contract",
     "on top of the shared rebrand helper: try_fetch re-brands without asking contains()",
     [("src/dynamic_roots.rs", "        if !self.contains(root) {\n            return Err(MismatchedRootSet(()));\n        }\n        // SAFETY", "        // SAFETY"),
      ("src/dynamic_roots.rs", "        debug_assert!(self.contains(root));\n", "")]),
    ("C16-delegated-vecdeque-front-only", "R5-02-seq-delegate-to-slice", "C16", "trace-coverage",
     "on top of the slice delegation: VecDeque traces only the front slice of as_slices()",
     [("src/collect_impl.rs", "        let (front, back) = self.as_slices();\n        <[T] as Collect<'gc>>::trace(front, cc);\n        <[T] as Collect<'gc>>::trace(back, cc);",
       "        let (front, _back) = self.as_slices();\n        <[T] as Collect<'gc>>::trace(front, cc);")]),
    ("C01-header-ctor-flag-from-needs-drop", "R11-03-header-init-flags", "C01", "allocation-sets-needs-trace",
     "on top of the header constructor taking the needs-trace flag: GcPtr::alloc passes needs_drop::<T>() instead of "
     "T::NEEDS_TRACE (a Copy type holding a Gc is never traced)",
     [("src/gc_ptr.rs", "                &VtableFor::<T, TM, P>::VTABLE,\n                T::NEEDS_TRACE,\n", "                &VtableFor::<T, TM, P>::VTABLE,\n                core::mem::needs_drop::<T>(),\n")]),
    ("C09-has-debt-ignores-credits", "R11-02-has-debt-fast-path", "C09", "debt-predicate-equivalence",
     "on top of the has_debt fast path: the predicate answers from the debits alone (work done in the cycle never pays "
     "debt, so collect_debt runs to the end of the cycle whenever the wake-up threshold has been passed)",
     [("src/metrics.rs", "            Some(cycle_debits) => cycle_debits - self.cycle_credits() > 0.0,\n", "            Some(cycle_debits) => cycle_debits > 0.0,\n")]),
    ("C16-trace-slice-helper-back-half-dropped", "R11-05-trace-contiguous-slices", "C16", "trace-coverage",
     "on top of the shared trace_slice loop: VecDeque hands only the front half of as_slices() to it (a ring buffer that "
     "has wrapped keeps pointers the collector never sees)",
     [("src/collect_impl.rs", "        trace_slice(front, cc);\n        trace_slice(back, cc);\n", "        let _ = back;\n        trace_slice(front, cc);\n")]),
    ("C18-needs-drop-guard-looks-at-header-only", "R11-07-slice-builder-shortcuts", "C18", "slice-builder:destruct-then-release",
     "on top of the needs_drop shortcut in the slice builder's Drop: the guard asks needs_drop::<H>() only, so written "
     "elements with destructors are leaked (never destructed) whenever the header type is plain data",
     [("src/slice.rs", "            if mem::needs_drop::<SliceWithHeader<H, E>>() {\n", "            if mem::needs_drop::<H>() {\n")]),
    ("C13-from-static-via-assume-loses-bound", "R15-04-barrier-write-casts", "C13", "R13.1-assume-callers",
     "on top of from_static forwarding to Write::assume: the 'static bound is dropped, so safe code gets a &Write on any "
     "reference without a barrier",
     [("src/barrier.rs", "    where\n        T: 'static,\n    {\n        // SAFETY: a `'static` value", "    {\n        // SAFETY: a `'static` value")]),
    ("C19-const-guard-forgets-alignment", "R15-07-zst-cache-constify", "C19", "zst-guard",
     "on top of the guard written as an inline constant: fits::<T>() looks at the size only, so an over-aligned "
     "zero-sized type is handed the (less aligned) cached pointer",
     [("src/zst_cache.rs", "        size_of::<T>() == 0 && align_of::<T>() <= MAX_ALIGN\n", "        size_of::<T>() == 0\n"),
      ("src/zst_cache.rs", "            debug_assert!(Gc::as_ptr(self.cached_ptr).align_offset(align_of::<T>()) == 0);\n", "")]),
    ("C16-reflock-trace-skips-when-borrowed", "R13-08-caller-located-builder-and-lock-panics", "C16", "trace-coverage",
     "on top of RefLock::trace going through try_borrow: a failed borrow is skipped silently instead of panicking (a "
     "leaked RefMut hides the contents from the collector)",
     [("src/lock.rs", "            Err(err) => panic!(\n                \"cannot trace the contents of a `RefLock` that is still mutably borrowed, was a \\\n                 `RefMut` leaked? ({err})\"\n            ),\n", "            Err(_) => {}\n")]),
    ("C11-free-all-resume-takes-next-too-late", "R17-07-context-drop-free-all", "C11", "drop_all-unwind-rows",
     "on top of free_all + Resume guard: the rest of the list is recorded only after the destructor has run, so a "
     "panicking destructor leaves the guard empty and every older object is leaked (never destructed, never released)",
     [("src/context.rs", "        let header = gc_ptr.header();\n        resume.rest = header.next();\n        unsafe {\n            if header.is_live() {\n                gc_ptr.drop_in_place();\n                metrics.mark_gc_dropped(1);\n            }\n",
       "        let header = gc_ptr.header();\n        let next = header.next();\n        unsafe {\n            if header.is_live() {\n                gc_ptr.drop_in_place();\n                metrics.mark_gc_dropped(1);\n            }\n            resume.rest = next;\n")]),
    ("C08-progress-enum-root-step-reports-exhausted", "R17-03-progress-enum-instead-of-controlflow", "C08", "mark_one-pending-work",
     "on top of the private Progress enum: the root-tracing step of mark_one reports Exhausted (the driver takes marking "
     "to be complete although the root trace may just have queued objects)",
     [("src/context.rs", "            root.trace(self);\n            self.root_needs_trace = false;\n            Progress::Worked\n", "            root.trace(self);\n            self.root_needs_trace = false;\n            Progress::Exhausted\n")]),
    ("C17-named-masks-live-collides-with-needs-trace", "R20-02-gc-ptr-header-tags", "C17", "flag-encoding",
     "on top of the named tag masks and the retag helper: LIVE_MASK is given the value of NEEDS_TRACE_MASK (setting the "
     "live flag also flips needs-trace)",
     [("src/gc_ptr.rs", "    const LIVE_MASK: usize = 0x8;\n", "    const LIVE_MASK: usize = 0x4;\n")]),
    ("C07-white-bit-test-misses-white-weak", "R11-04-white-bit-test", "C07", "resurrect-table",
     "on top of the single-bit whiteness test: is_white compares both colour bits with zero, so a WhiteWeak object "
     "is not recognised as dead (resurrect leaves it dead, the barrier does not re-gray for it)",
     [("src/gc_ptr.rs", "tagged_ptr::get::<NON_WHITE_BIT, _>(self.tagged_vtable.get()) == 0", "tagged_ptr::get::<0x3, _>(self.tagged_vtable.get()) == 0")]),
]


def main():
    only = sys.argv[1] if len(sys.argv) > 1 else None
    for name, base, prop, rule, what, edits in COMBOS:
        if only and only not in name:
            continue
        d = tempfile.mkdtemp(prefix="gcv-combo.", dir="/var/tmp")
        try:
            subprocess.run(["rsync", "-a", "--exclude", "target", "--exclude", ".git", "/repo/", d + "/"], check=True)
            subprocess.run(["git", "init", "-q"], cwd=d, check=True)
            subprocess.run(["git", "add", "-A"], cwd=d, check=True)
            subprocess.run(["git", "-c", "user.email=x@x", "-c", "user.name=x", "commit", "-qm", "base"], cwd=d, check=True)
            subprocess.run(["git", "apply", os.path.join(VERIF, "benign", base, "patch.diff")], cwd=d, check=True)
            for f, old, new in edits:
                p = os.path.join(d, f)
                s = open(p).read()
                if s.count(old) != 1:
                    raise SystemExit("%s: edit anchor occurs %d times in %s: %r" % (name, s.count(old), f, old[:60]))
                open(p, "w").write(s.replace(old, new))
            subprocess.run(["git", "add", "-A", "-N"], cwd=d, check=True)
            diff = subprocess.run(["git", "diff"], cwd=d, capture_output=True, text=True, check=True).stdout
            out = os.path.join(VERIF, "mutants", name)
            os.makedirs(out, exist_ok=True)
            open(os.path.join(out, "patch.diff"), "w").write(diff)
            json.dump({"property": prop, "what": what, "expect_rule": rule, "kind": "mutant", "on_top_of": "benign/" + base},
                      open(os.path.join(out, "meta.json"), "w"), indent=1)
            print("built", name)
        finally:
            shutil.rmtree(d, ignore_errors=True)


if __name__ == "__main__":
    main()
