# Table read by tools/gen_manifest.py
TRUSTED = ("Trusted: rustc nightly's type checker, trait resolution and MIR construction (-Zmir-opt-level=0) as a "
           "faithful model of the compiled program; std/alloc contracts; the reviewed tables in /verif/gcv/props "
           "and the oracle predicates in /verif/gcv/spec.py and spec_protocol.py. Decides the structural clauses listed in DESIGN.md for this property; the clauses "
           "listed there as 'not decided' (and in the evidence file's not_decided key) are outside static reach.")

ENGINES = [
    {"name": "gcv-driver", "path": "/verif/driver", "serves_properties": ["C01","C02","C03","C04","C05","C06","C07","C08","C10","C11"],
     "kind_free_text": "nightly rustc_private driver (zero deps) injected with RUSTC_WORKSPACE_WRAPPER into cargo +nightly check of /repo; dumps items, impls, predicates, variances, resolved call edges and structured per-instance MIR as JSON"},
    {"name": "gcv-typestate", "path": "/verif/gcv/interp.py", "serves_properties": ["C01","C02","C04","C05","C06","C07","C08","C10","C11"],
     "kind_free_text": "Python abstract interpreter over the MIR dump (finite typestate domain, path-sensitive, interprocedural by inlining resolved callees, unwind edges followed); extracts transition tables and a per-object automaton compared with hand-written spec tables (gcv/spec.py, gcv/spec_protocol.py)"},
    {"name": "gcv-rules", "path": "/verif/gcv", "serves_properties": ["C01","C02","C03","C04","C05","C07","C10","C11"],
     "kind_free_text": "Python rule engines over the driver's facts: who-may-call / reachability over the resolved call graph, CFG dominance incl. unwind edges, signature and impl-table rules"},
]

NOTES = ("Static analysis only: no registered check executes gc-arena code. Every check re-analyses /repo's current "
         "working tree through the compiler (facts cached under /verif/.cache keyed by a content hash of the sources "
         "and of the driver). See DESIGN.md.")

NOT_CLAIMED = {}

TS = ("abstract interpretation of the compiler's MIR on a finite typestate domain (transition tables for every "
      "abstract pre-state) + per-object typestate automaton + hand-written spec oracle")

def _c(tech, text):
    return {"technique": tech, "text": text, "note": TRUSTED}

CLAIMED = {
    "C01": _c(TS + "; call-graph confinement rules; CFG must-pass-through contracts of the hand-modelled primitives (vtable slot forwarding), allocation-state and initial-state rules; coverage analysis of the collector's own Collect impls",
              "Decides the local obligations O1-O8 of the tri-colour safety argument for every abstract colour/phase/queue "
              "state and every MIR path (normal and unwind) of the collector primitives, barriers and sanctioned adoption "
              "paths, and the free-site discipline over the resolved call graph. The global theorem is the paper induction "
              "of DESIGN.md §7 over these machine-checked premises; histories over concrete heaps are not explored."),
    "C02": _c(TS + "; call-graph confinement of colour writers",
              "Decides the structural necessary conditions of exact, complete reclamation: exact per-object sweep outcome "
              "table, colour-move frame conditions of every primitive, totality of the sweep, shell release path, whole-cycle "
              "semantics of finish_cycle (protocol exploration of do_collection's MIR). Set equality on histories is not decided."),
    "C03": {
        "technique": "call-graph reachability (resolved callees, drop glue, vtable slots) + signature rule + CFG ordering rule",
        "text": "For every externally callable function of the crate, in every feature configuration analysed, collection work "
                "(do_collection/mark_one/sweep_one/drop_in_place/trace_value/DropAll) is unreachable unless the signature demands "
                "exclusive access to the arena, and no function that invokes a caller-supplied closure can perform such work before "
                "or around the invocation. This is a whole-program may-reach analysis, so it covers every callback body and collector "
                "state at once; it is the right level because the property is structural (who may call what).",
        "note": TRUSTED,
    },
    "C04": _c(TS + "; CFG rule for the live flag; CFG must-pass-through contracts of GcPtr::drop_in_place / dealloc and their vtable slots; sibling term agreement of request and release layouts",
              "Exactly-once destruction as a typestate invariant (S6) over all reachable abstract states incl. unwind exits; the "
              "arena-drop walk over all short list shapes from every phase; no use after release inside the collector; live flag "
              "set only at allocation. Allocator-side accounting on histories is not decided."),
    "C05": _c(TS + "; call-graph rule (weak queries never reach a value dereference)",
              "Truth tables of GcWeak::upgrade/is_dropped/is_dead and of weak tracing/barriers extracted from MIR through the public "
              "API for every (phase, colour, live, needs-trace) state, compared with the specification; live-flag monotonicity and "
              "upgrade-vs-sweep consistency (S5) on the automaton."),
    "C06": _c(TS + " applied end-to-end to every sanctioned adoption path",
              "Each explicit barrier and each sanctioned adoption path (11 paths) is abstractly interpreted from its MIR for every "
              "phase x parent colour x needs-trace x child colour x None/alias case; the tri-colour post-condition, frame "
              "conditions and panic-freedom are checked on every outcome. Survival over later cycles is the composition with "
              "C01's obligations, not a history exploration."),
    "C07": _c(TS + "; protocol exploration of mark_debt/finish_marking; call-graph rule for Finalization",
              "is_dead / resurrect tables through the public API; MarkedArena returned exactly when the call ends Marked (from "
              "do_collection's MIR); resurrect re-opens marking. Exactness of is_dead on concrete graphs needs the global theorem."),
    "C08": _c("abstract reachability of Context::do_collection and the Arena wrappers interpreted from MIR (finite state, "
              "loop detection by state hashing) against a per-method protocol table",
              "Every (method, entry phase, pending work, cursor, list) case and every nondeterministic debt/work outcome is explored; "
              "phase walks, stop phases, Option-ness of MarkedArena and the collection_phase mapping are compared with the "
              "specification. Exhaustive over the finite abstract domain."),
    "C10": _c(TS + " with a trace-credit ghost (S4); who-may-call pairing rules; subtraction inventory",
              "No reachable abstract state lets mark_gc_untraced fire without an outstanding credit (this is the rule that found the "
              "traced_gcs underflow, repaired by fix cddd983); credits match work in every primitive; count pairing by call-graph "
              "rules. Numeric wrap by addition and allocator equality on histories are not decided."),
    "C11": _c(TS + " on unwind edges; CFG/dataflow rules for constructors and the slice builder",
              "Every may-unwind call site in the collector is enumerated (not sampled): unwind rows of mark_one/sweep_one/DropAll, "
              "protocol on unwinding exits of do_collection, constructor callbacks dropping the boxed context, slice-builder "
              "prefix discipline. The continued-history behaviour follows from invariants holding at unwinding exits."),
}

CLAIMED.update({
    "C12": _c("type-checked facts (variances_of, impl predicates, lifetimes in Collect impl Self types, lifetime-only transmute inventory) + abstract interpretation of the dynamic-root gate + compile-fail witness corpus with compiling twins",
              "Variance, 'static-impl and re-branding facts are global facts of the type-checked program, so they settle the "
              "question for all client programs; the escape corpus (88 probes, each compiled twice against the current tree) pins "
              "each escape route through each callback entry point. rustc's own lifetime checking is trusted."),
    "C13": _c("impl-table / signature / who-may-call rules over the type-checked program + inventory of exported macro_rules! whose expansion contains unsafe + compile-fail witnesses (incl. the three exploit programs)",
              "Enumerates every way safe code can obtain a &Write<T> or an unlocked cell (transmute producers, DerefWrite / IndexWrite / "
              "Unlock implementors, lock.rs mutators) and checks each against a reviewed soundness criterion. Found and fixed the "
              "unsound DerefWrite impls (fix 96d609a). The closing meta-theorem is a paper argument (DESIGN.md §7)."),
    "C17": _c("sibling term agreement on uninterpreted terms (abstract interpretation of alloc vs dealloc MIR) + abstract-address interpretation of the flag accessors + per-path dependence of every value-layout function on its type parameters + no-address-arithmetic / no-foreign-metadata scan over every caller of a raw pointer constructor",
              "Decides request/release layout agreement, writer/reader offset agreement and the flag encode/decode round trip for all "
              "tag states from the MIR; the arithmetic inside Layout::extend/pad_to_align (alignment, disjointness for every size) "
              "is delegated to std's contract and listed as not decided."),
    "C19": _c("no-address-arithmetic / no-foreign-metadata scan over the named conversions and every caller of a raw pointer constructor + ordering-domain interpretation of the ZstCache guard + type-signature conjuring lint + witnesses",
              "Identity of every named conversion as a structural fact of its MIR; the ZstCache guard over all orderings of "
              "size/align/MAX_ALIGN; the conjuring lint over the whole public API (found ZstCache::alloc_zst, fix f123ef0)."),
    "C20": _c("item + MIR scan for shared mutable state in every feature configuration, with a positive-control fixture crate; construction who-may-call rules; abstract interpretation of the dynamic-root gate (fetch/try_fetch/contains) on terms",
              "The crate has no static mut / non-Freeze static / thread-local; all collector state is created per arena; the one "
              "cross-arena channel (DynamicRoot handles) is closed because fetch/try_fetch re-brand only when contains() is true and "
              "contains() is the identity comparison of the set's Rc with the handle's Weak. This is the right level: independence is "
              "the absence of a shared channel, which is a whole-program structural fact."),
})
for e in ENGINES:
    if e["name"] == "gcv-driver":
        e["serves_properties"] = sorted(set(e["serves_properties"]) | {"C12", "C13", "C17", "C19", "C20"})
    if e["name"] == "gcv-rules":
        e["serves_properties"] = sorted(set(e["serves_properties"]) | {"C12", "C13", "C17", "C19", "C20"})
    if e["name"] == "gcv-typestate":
        e["serves_properties"] = sorted(set(e["serves_properties"]) | {"C17", "C19"})
ENGINES.append({"name": "gcv-witness", "path": "/verif/gcv/witness.py", "serves_properties": ["C03", "C12", "C13", "C15", "C19"],
                "kind_free_text": "compile-fail / compile-pass witness corpus (probes/<ID>/*.rs): each program is compiled twice with rustc +nightly --emit=metadata against an rlib of the current tree (with and without --cfg bad); never run"})

CLAIMED.update({
    "C09": _c("abstract reachability of do_collection (exit structure of debt-driven calls) + credit consistency of every transition table + symbolic interpretation of the debt formula (polarity / ordering-domain analysis)",
              "Claims ONLY the structural clauses: debt consulted before any work, re-checked after every unit, PayDebt exits only after a "
              "false debt test or at the stop condition, credits at most once per unit, formula polarity and pairing, finish_cycle shape. "
              "The inequalities (rho bound, heap factor, wake-up thresholds on concrete counts, zero debt as arithmetic) are NOT decided by "
              "any sound static argument in reach and are listed in the evidence's not_decided on every run."),
    "C14": _c("coverage rule on the root-set Collect chain + slot-table transition tables extracted by interpreting Slots::add/inc/dec over all well-formed short vectors + handle pairing / fetch contract by abstract interpretation + re-brand dominance",
              "Slot reuse never changes what a live handle resolves to, the count moves by exactly one per handle event, handles are built "
              "only paired with add/inc, and fetch re-brands only on the true edge of the set-identity test. The end-to-end survival history "
              "is the composition with C01, not explored."),
    "C15": _c("static inspection of derive expansions over a generated shape corpus (coverage analysis on derived MIR, const-evaluated NEEDS_TRACE) + rejection witnesses",
              "Every generated shape's expansion is checked for complete field coverage per variant and the exact NEEDS_TRACE disjunction; "
              "the macro itself is not proved (bounded-corpus argument, labelled as such)."),
    "C16": _c("coverage analysis on the MIR of every impl Collect (def-use chains through reviewed total accessors, CFG loop-totality and conditional-trace rules, parameter coverage) + boolean exploration of NEEDS_TRACE, in every feature configuration",
              "Every provided impl (72 default / 80 all features) is analysed, in every type-parameter position; third-party iterator "
              "totality is trusted."),
    "C18": _c("call-graph reachability + absent-drop-terminator rule after drop elaboration + CFG/dataflow rules on the slice builder + ordering-domain interpretation of copy_slice",
              "Abandoned builders only deallocate, completion registers exactly once through assume_init, the slice builder destructs "
              "exactly the initialised prefix, wrong-length copies are rejected through the builder's Drop. Value equality of contents "
              "is not decided."),
})
for e in ENGINES:
    if e["name"] in ("gcv-driver", "gcv-rules", "gcv-typestate"):
        e["serves_properties"] = sorted(set(e["serves_properties"]) | {"C09", "C14", "C16", "C18"})
    if e["name"] == "gcv-driver":
        e["serves_properties"] = sorted(set(e["serves_properties"]) | {"C15"})
ENGINES.append({"name": "gcv-corpus", "path": "/verif/gcv/corpus.py", "serves_properties": ["C15"],
                "kind_free_text": "generated crate of derive(Collect) type shapes, type-checked (never run) through the driver against the current tree; expansions' MIR and const-evaluated NEEDS_TRACE inspected by the coverage analysis"})

# ---- second session: bounded heap exploration (E6), new rule families
HEAP = ("; bounded heap exploration (E6): abstract interpretation of the collector's MIR over every abstract heap of <= K objects "
        "with strong / weak edges reachable from the empty arena by <= depth API operations, user Collect::trace specified as exact, "
        "invariant %s evaluated on every explored state and transition")
HEAP_TEXT = (" The bounded heap exploration (DESIGN.md §11) additionally checks the property statement itself - in terms of "
             "reachability from the root - on every abstract heap of at most K objects reachable within the explored depth (quick: K=2, "
             "depth 5; thorough: K=2 depth 9 and K=3 depth 5); it is a bounded exploration, not a proof for all heaps.")
for pid, inv in (("C01", "H1 (no strongly reachable object destructed / released)"), ("C02", "H4 (two full cycles leave exactly the reachable objects)"),
                 ("C04", "H2 (exactly-once destruction and release, arena drop)"), ("C05", "H3 (weak pointers: no released target, upgrade truth)"),
                 ("C06", "(no barrier / allocation / upgrade call panics)"), ("C07", "H5 (nothing reachable is dead at Marked; resurrection holds for the cycle)"),
                 ("C10", "H6 (Gc count = unreleased allocations, no counter underflow)"),
                 ("C14", "H1 with DynamicRootSet::stash among the adoption paths (a stashed object survives while the reachable set holds it)"),
                 ("C11", "H1-H4, H6 under injected panics of user trace / destructors, oracles run fault-free afterwards")):
    CLAIMED[pid]["technique"] += HEAP % inv
    CLAIMED[pid]["text"] += HEAP_TEXT
CLAIMED["C03"]["technique"] += "; CFG rule on the value parameter of allocation functions (no normal path keeps ownership: the value is moved into the block)"
CLAIMED["C04"]["technique"] += "; CFG rule on the value parameter of allocation functions"
CLAIMED["C07"]["technique"] += "; the marking half of the tri-colour obligations (trace, mark_one, barriers, adoption paths) as premises of 'nothing reachable is dead'"
CLAIMED["C13"]["technique"] += "; projection-step rule (a &Write projection goes through Deref / Index only under the marker bound for the very type); macro metavariables never transcribed inside unsafe"
CLAIMED["C15"]["technique"] += "; impl-predicate rule ('static demanded for every require_static field of generic type, under every bound override)"
CLAIMED["C16"]["technique"] += "; interprocedural helper / closure summaries and splitting accessors in the coverage analysis"
CLAIMED["C18"]["technique"] += "; term interpretation of the slice builder's Drop; loop rule (no pointer-range loop over generic elements); value-moved-into-block rule"
CLAIMED["C19"]["technique"] += "; macro metavariables never transcribed inside unsafe (macro inventory) ; escape analysis of computed addresses"
CLAIMED["C12"]["technique"] += "; macro metavariables never transcribed inside unsafe (macro inventory)"
ENGINES.append({"name": "gcv-heap", "path": "/verif/gcv/heap.py", "serves_properties": ["C01", "C02", "C04", "C05", "C06", "C07", "C10", "C11", "C14"],
                "kind_free_text": "bounded heap exploration (E6): the abstract interpreter run over small abstract heaps with an edge relation; level-synchronous parallel breadth-first exploration from the empty arena; invariants H1-H6 are the property statements in terms of reachability; nothing of gc-arena is executed"})
ENGINES.append({"name": "gcv-canon", "path": "/verif/gcv/canon.py", "serves_properties": ["C01", "C02", "C03", "C04", "C05", "C06", "C07", "C08", "C09", "C10", "C11", "C14", "C18"],
                "kind_free_text": "normalisation of the fact file to the pinned vocabulary: impl blocks in other modules, moved items, and renamed private items found by their role in the call graph relative to the public API (never by spelling); identity on the unchanged tree"})
NOTES += (" Eight checks share one bounded heap exploration per analysed tree (cached next to the fact files; recomputed whenever the "
          "tree, the tier or the engine's sources change).")

# ---- third session
CLAIMED["C01"]["technique"] += ("; needs-trace establishers identified by effect (setter or constructor parameter); unwinding exits of the "
                                "root-mutating entry points; H1 also under injected panics (root written through Arena::mutate_root with a "
                                "callback that may panic after the store)")
CLAIMED["C05"]["technique"] += "; store-after-upgrade rows (strong barrier tables / adoption paths with a weakly marked child)"
CLAIMED["C06"]["technique"] += "; unwinding exits of the root-mutating entry points"
CLAIMED["C09"]["technique"] += ("; propositional equivalence of every Metrics predicate the collector asks with allocation_debt() > 0 "
                                "(enumeration of orderings of the compared terms)")
CLAIMED["C16"]["technique"] += "; fallible accessors (a trace call is not skipped on a failed borrow)"
CLAIMED["C17"]["technique"] += ("; effect-based flag-encoding analysis (every writer of the tagged vtable word interpreted on all tag states: "
                                "one attribute, others and the vtable address intact)")
CLAIMED["C19"]["technique"] += "; inline-const guards interpreted in place"
for e in ENGINES:
    if e["name"] == "gcv-typestate":
        e["kind_free_text"] = e.get("kind_free_text", "") + (" Raw accesses to the object header are interpreted over the concrete tag "
                                                               "bits with the code read off the tree's own getters (header word codec).")

# ---- third session, later additions (seed rounds five and six)
CLAIMED["C03"]["technique"] += "; def-use rule: a pointer to a builder's block is made only after the builder is disarmed / consumed"
CLAIMED["C04"]["technique"] += "; who-may-write rule on the per-value metadata in front of the header (written only at allocation)"
CLAIMED["C05"]["technique"] += "; call-graph rule: from a weak pointer to its value only through Context::upgrade / resurrect"
CLAIMED["C06"]["technique"] += "; un-tabled safe lock setters discovered by signature and interpreted like the tabled adoption paths"
CLAIMED["C07"]["technique"] += "; the live flag tracks destruction on every exit of the sweep (weakly-kept rows, automaton S6)"
CLAIMED["C08"]["technique"] += "; pending-work rows of mark_one (what the protocol exploration's summary of it assumes)"
CLAIMED["C11"]["technique"] += "; def-use rule: a pointer to a builder's block is made only after the builder is disarmed / consumed"
CLAIMED["C12"]["technique"] += ("; brand-provenance rule on every exported signature (regions in brand positions, read off variances by the "
                                "driver: an output brand must be an input brand or the bound region of a higher-ranked closure bound)")
CLAIMED["C14"]["technique"] += "; who-may-call rule on the slot-count moves (add / inc / dec) and immutability of a handle after construction"
CLAIMED["C15"]["technique"] += "; self-referential shapes in the corpus"
CLAIMED["C16"]["technique"] += "; forwarding Trace impls define both methods, no kind-changing default body"
CLAIMED["C17"]["technique"] += "; who-may-write rule on the per-value metadata in front of the header"
CLAIMED["C18"]["technique"] += "; who-may-call rule on the unsafe builder completions; def-use rule on pointers to a builder's block"
CLAIMED["C19"]["technique"] += "; signature rule: the coercion site of unsize! is raw-pointer to raw-pointer (+ Deref-coercion rejection witnesses)"

CLAIMED["C04"]["technique"] += "; CFG rule: a value handed to an allocation entry is moved into the block on every path not dominated by the false edge of needs_drop::<T>()"
CLAIMED["C11"]["technique"] += "; CFG dominance rule: the sweep cursor is stored before every call that switches the phase to Sweep; def-use rule on block exposure after a builder is disarmed"
CLAIMED["C12"]["technique"] += ("; predicate rule on every arena constructor (root Collect for every brand); ADT rule: Arena is not a built-in "
                                "unsizing target (root parameter occurs outside the last field)")
CLAIMED["C13"]["technique"] += "; rejection witnesses for the Collect-implementing macros applied to sized types"
CLAIMED["C18"]["technique"] += "; variance rule (compiler's variances_of): every builder is invariant in its value type; drop-order rule on builder types"
CLAIMED["C19"]["technique"] += "; trait rule: traits whose results the library dereferences unchecked are unsafe traits; Gc values are built only from carrier constructors"

CLAIMED["C09"]["technique"] += "; protocol rule: no debt-driven exit between the last sweep step and the roll-over (stop-the-world clause)"
CLAIMED["C14"]["technique"] += "; call-graph rule: no function of the handle type reaches a reference-forming block accessor"
CLAIMED["C15"]["technique"] += "; rejection witnesses for option strings that are more than a where clause"
CLAIMED["C17"]["technique"] += "; variance rule (compiler's variances_of): builders invariant in the metadata strategy parameters"
CLAIMED["C04"]["technique"] += "; unwind rows: the block of a value whose destructor unwinds is released or still linked"

NOTES += (" Repairs of genuine defects in /repo (unguarded `fix:` commits, each minimal, the unedited suite passes with each): "
          "cddd983, 96d609a, f123ef0, 4330406, 91603c3, 40fcb09, 1f3a763, fa7262c, de7ddba, cf49bbc, 5ee669b, 44f0b73, 00061de, e98c550, 45c243b, 3d82973; "
          "see known_findings.json (seventeen `fixed:` entries; one open finding, F11 under C12, reported as a KNOWN-FINDING line with exit 0) "
          "and DESIGN.md section 5. Defects reported by independent reviewers in clauses no check decides (C09 / C10 numeric clauses) are "
          "listed in DESIGN.md section 10.2 and are neither claimed nor suppressed.")
