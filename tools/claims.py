# Table read by tools/gen_manifest.py
TRUSTED = ("Trusted: rustc nightly's type checker, trait resolution and MIR construction (-Zmir-opt-level=0) as a "
           "faithful model of the compiled program; std/alloc contracts; the reviewed tables under /verif/gcv/props "
           "and /verif/spec. Decides the structural clauses listed in DESIGN.md for this property; the clauses "
           "listed there as 'not decided' (and in the evidence file's not_decided key) are outside static reach.")

ENGINES = [
    {"name": "gcv-driver", "path": "/verif/driver", "serves_properties": ["C03"],
     "kind_free_text": "nightly rustc_private driver (zero deps) injected with RUSTC_WORKSPACE_WRAPPER into cargo +nightly check of /repo; dumps items, impls, predicates, variances, resolved call edges and structured per-instance MIR as JSON"},
    {"name": "gcv-rules", "path": "/verif/gcv", "serves_properties": ["C03"],
     "kind_free_text": "Python rule engines over the driver's facts: who-may-call / reachability over the resolved call graph, CFG dominance incl. unwind edges, signature and impl-table rules"},
]

NOTES = ("Static analysis only: no registered check executes gc-arena code. Every check re-analyses /repo's current "
         "working tree through the compiler (facts cached under /verif/.cache keyed by a content hash of the sources "
         "and of the driver). See DESIGN.md.")

NOT_CLAIMED = {}

CLAIMED = {
    "C03": {
        "technique": "call-graph reachability (resolved callees, drop glue, vtable slots) + signature rule + CFG ordering rule",
        "text": "For every externally callable function of the crate, in every feature configuration analysed, collection work "
                "(do_collection/mark_one/sweep_one/drop_in_place/trace_value/DropAll) is unreachable unless the signature demands "
                "exclusive access to the arena, and no function that invokes a caller-supplied closure can perform such work before "
                "or around the invocation. This is a whole-program may-reach analysis, so it covers every callback body and collector "
                "state at once; it is the right level because the property is structural (who may call what).",
        "note": TRUSTED,
    },
}
