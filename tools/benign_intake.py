#!/usr/bin/env python3
"""tools/benign_intake.py <prefix> <dir-with-NN-name.diff/.md> [--no-tests] [--only SUBSTR]
Take behaviour-preserving refactors written by an independent sub-agent (one unified diff + one description per
patch), confirm each in a scratch copy of /repo (applies; the 39 tests and the doc tests pass with it), run all 20
checks against the copy and store the case as /verif/benign/<prefix>-<name>/{patch.diff,README.md,meta.json}.
A check that fires on such a case is a false alarm of the checker (or the refactor is not behaviour-preserving:
triage by reading) - the verdict is recorded in meta.json, nothing is hidden."""
import concurrent.futures as cf
import glob
import json
import os
import shutil
import subprocess
import sys

VERIF = os.path.dirname(os.path.dirname(os.path.abspath(__file__)))
sys.path.insert(0, os.path.join(VERIF, "tools"))
import mutant as mt  # noqa: E402

ALL = ["C%02d" % i for i in range(1, 21)]


def one(prefix, diff, with_tests):
    name = os.path.basename(diff)[:-5]
    cid = "%s-%s" % (prefix, name)
    out = os.path.join(VERIF, "benign", cid)
    os.makedirs(out, exist_ok=True)
    shutil.copy(diff, os.path.join(out, "patch.diff"))
    md = diff[:-5] + ".md"
    if os.path.exists(md):
        shutil.copy(md, os.path.join(out, "README.md"))
    meta = {"case": cid, "kind": "benign", "property": "-", "source": "independent sub-agent (refactor task, area %s)" % prefix}
    try:
        old = json.load(open(os.path.join(out, "meta.json")))
        for k in ("what", "triage"):
            if k in old:
                meta[k] = old[k]
    except (OSError, ValueError):
        pass
    if "what" not in meta and os.path.exists(md):
        meta["what"] = " ".join(open(md).read().split())[:400]
    d = mt.make_copy()
    try:
        subprocess.run(["git", "init", "-q"], cwd=d)
        r = subprocess.run(["git", "apply", os.path.join(out, "patch.diff")], cwd=d, capture_output=True, text=True)
        shutil.rmtree(os.path.join(d, ".git"), ignore_errors=True)
        meta["patch_applies"] = r.returncode == 0
        if r.returncode != 0:
            meta["apply_error"] = r.stderr[-400:]
            return meta
        if with_tests:
            env = dict(os.environ, CARGO_NET_OFFLINE="true", CARGO_TARGET_DIR=os.path.join(d, "target"))
            r = subprocess.run("cargo test --offline --workspace 2>&1 | grep -E '^test result:|panicked|^error' | tail -8", cwd=d, env=env,
                               shell=True, capture_output=True, text=True, timeout=1800)
            meta["suite_passes"] = "39 passed; 0 failed" in r.stdout and "FAILED" not in r.stdout and "error" not in r.stdout
            meta["suite_tail"] = r.stdout[-500:]
            shutil.rmtree(os.path.join(d, "target"), ignore_errors=True)
        res = mt.run_checks(d, ALL)
        meta["fired"] = sorted(i for i, (rc, txt) in res.items() if rc != 0)
        meta["output"] = {i: [l.strip()[:500] for l in txt.splitlines() if l.startswith("  [")][:6] for i, (rc, txt) in res.items() if rc != 0}
    finally:
        shutil.rmtree(d, ignore_errors=True)
        json.dump(meta, open(os.path.join(out, "meta.json"), "w"), indent=1)
    return meta


def main():
    prefix, src = sys.argv[1], sys.argv[2]
    with_tests = "--no-tests" not in sys.argv
    only = sys.argv[sys.argv.index("--only") + 1] if "--only" in sys.argv else None
    diffs = sorted(glob.glob(os.path.join(src, "*.diff")))
    if only:
        diffs = [p for p in diffs if only in p]
    with cf.ThreadPoolExecutor(max_workers=4) as ex:
        for m in ex.map(lambda p: one(prefix, p, with_tests), diffs):
            print("%-60s applies=%s suite=%s fired=%s" % (m["case"], m.get("patch_applies"), m.get("suite_passes"), m.get("fired")))
            for i, ls in (m.get("output") or {}).items():
                for l in ls[:3]:
                    print("      %s %s" % (i, l[:300]))


if __name__ == "__main__":
    main()
