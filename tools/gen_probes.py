#!/usr/bin/env python3
"""Generate the witness corpus under /verif/probes (committed; regenerate only when editing this file).
Every probe is a complete client program; the offending lines are under #[cfg(bad)], the compiling twin
under #[cfg(not(bad))]."""
import os
import shutil

VERIF = os.path.dirname(os.path.dirname(os.path.abspath(__file__)))
OUT = os.path.join(VERIF, "probes")

PRELUDE = '''#![allow(unused)]
use gc_arena::{Arena, Collect, Gc, GcWeak, Mutation, Finalization, Rootable, DynamicRootSet, DynamicRoot, Static};
use gc_arena::lock::{Lock, RefLock, OnceLock};
use gc_arena::barrier::{Write, field, unlock};
use std::cell::{Cell, RefCell};
use std::rc::Rc;
use std::sync::Arc;

#[derive(Collect)]
#[collect(no_drop)]
struct R<'gc> {
    p: Gc<'gc, i32>,
    w: GcWeak<'gc, i32>,
    set: DynamicRootSet<'gc>,
    cell: Gc<'gc, RefLock<Option<Gc<'gc, i32>>>>,
    lock: Gc<'gc, Lock<Option<Gc<'gc, i32>>>>,
}
type A = Arena<Rootable![R<'_>]>;
fn mk() -> A {
    Arena::new(|mc| {
        let p = Gc::new(mc, 1);
        R { p, w: Gc::downgrade(p), set: DynamicRootSet::new(mc), cell: Gc::new(mc, RefLock::new(None)), lock: Gc::new(mc, Lock::new(None)) }
    })
}
'''

LIFETIME = "~lifetime may not live long enough|E0521|E0597|E0716|E0515|~borrowed data escapes"

probes = []


def P(pid, name, fail, what, body, prelude=PRELUDE, features=None, passonly=False):
    probes.append((pid, name, fail, what, body, prelude, features, passonly))


# ------------------------------------------------------------------------------------------------ C12
# return from each callback entry point x branded type
RET_EXPRS = {
    "gc": "root.p",
    "gcweak": "root.w",
    "gcref": "Gc::as_ref(root.p)",
    "rootset": "root.set",
    "write": "Gc::write(mc, root.cell)",
    "mutation": "mc",
}
for k, e in RET_EXPRS.items():
    P("C12", "ret_mutate_%s" % k, LIFETIME, "%s returned from the Arena::mutate callback" % k, '''
fn main() {
    let arena = mk();
    #[cfg(bad)]
    let _escaped = arena.mutate(|mc, root| %s);
    #[cfg(not(bad))]
    let _fine: i32 = arena.mutate(|mc, root| { let _x = %s; *root.p });
}
''' % (e, e))
    P("C12", "ret_mutate_root_%s" % k, LIFETIME, "%s returned from the Arena::mutate_root callback" % k, '''
fn main() {
    let mut arena = mk();
    #[cfg(bad)]
    let _escaped = arena.mutate_root(|mc, root| %s);
    #[cfg(not(bad))]
    let _fine: i32 = arena.mutate_root(|mc, root| { let _x = %s; *root.p });
}
''' % (e, e))
    if k != "mutation":
        P("C12", "ret_finalize_%s" % k, LIFETIME, "%s returned from the MarkedArena::finalize callback" % k, '''
fn main() {
    let mut arena = mk();
    let marked = arena.finish_marking().unwrap();
    #[cfg(bad)]
    let _escaped = marked.finalize(|fc, root| { let mc: &Mutation = fc; %s });
    #[cfg(not(bad))]
    let _fine: i32 = marked.finalize(|fc, root| { let mc: &Mutation = fc; let _x = %s; *root.p });
}
''' % (e, e))
P("C12", "ret_finalize_fc", LIFETIME, "the Finalization handle returned from finalize", '''
fn main() {
    let mut arena = mk();
    let marked = arena.finish_marking().unwrap();
    #[cfg(bad)]
    let _escaped = marked.finalize(|fc, _root| fc);
    #[cfg(not(bad))]
    let _fine: bool = marked.finalize(|fc, root| Gc::is_dead(fc, root.p));
}
''')
P("C12", "ret_rootless_gc", LIFETIME, "Gc returned from rootless_mutate", '''
fn main() {
    #[cfg(bad)]
    let _escaped = gc_arena::arena::rootless_mutate(|mc| Gc::new(mc, 1));
    #[cfg(not(bad))]
    let _fine: i32 = gc_arena::arena::rootless_mutate(|mc| *Gc::new(mc, 1));
}
''')
P("C12", "ret_rootless_mc", LIFETIME, "&Mutation returned from rootless_mutate", '''
fn main() {
    #[cfg(bad)]
    let _escaped = gc_arena::arena::rootless_mutate(|mc| mc);
    #[cfg(not(bad))]
    let _fine: usize = gc_arena::arena::rootless_mutate(|mc| mc.metrics().total_gc_count());
}
''')
# store into an outer variable / static / thread local from each entry point
for entry, call in [("mutate", "arena.mutate(|mc, root| {{ {} }});"), ("mutate_root", "arena.mutate_root(|mc, root| {{ {} }});")]:
    for k, e in [("gc", "root.p"), ("gcweak", "root.w"), ("rootset", "root.set"), ("gcref", "Gc::as_ref(root.p)")]:
        P("C12", "outer_store_%s_%s" % (entry, k), LIFETIME, "%s stored into a variable outside the %s callback" % (k, entry), '''
fn main() {
    let mut arena = mk();
    let mut out = None;
    #[cfg(bad)]
    %s
    #[cfg(not(bad))]
    %s
    let _ = out;
}
''' % (call.format("out = Some(%s);" % e), call.format("let _x = %s; out = Some(1);" % e)))
P("C12", "outer_store_new_mc", LIFETIME, "&Mutation smuggled out of the Arena::new callback", '''
fn main() {
    let mut out = None;
    #[cfg(bad)]
    let _a = Arena::<Rootable![Gc<'_, i32>]>::new(|mc| { out = Some(mc); Gc::new(mc, 1) });
    #[cfg(not(bad))]
    let _a = Arena::<Rootable![Gc<'_, i32>]>::new(|mc| { out = Some(1); Gc::new(mc, 1) });
    let _ = out;
}
''')
P("C12", "outer_store_map_root", LIFETIME, "old root pointer smuggled out of map_root", '''
fn main() {
    let arena = mk();
    let mut out = None;
    #[cfg(bad)]
    let _b = arena.map_root::<Rootable![Gc<'_, i32>]>(|_mc, r| { out = Some(r.p); r.p });
    #[cfg(not(bad))]
    let _b = arena.map_root::<Rootable![Gc<'_, i32>]>(|_mc, r| { out = Some(1); r.p });
    let _ = out;
}
''')
P("C12", "outer_store_try_map_root", LIFETIME, "old root pointer smuggled out of try_map_root", '''
fn main() {
    let arena = mk();
    let mut out = None;
    #[cfg(bad)]
    let _b = arena.try_map_root::<Rootable![Gc<'_, i32>], ()>(|_mc, r| { out = Some(r.w); Ok(r.p) });
    #[cfg(not(bad))]
    let _b = arena.try_map_root::<Rootable![Gc<'_, i32>], ()>(|_mc, r| { out = Some(1); Ok(r.p) });
    let _ = out;
}
''')
P("C12", "thread_local_store", LIFETIME, "Gc stored into a thread local", '''
thread_local! { static SLOT: RefCell<Option<Gc<'static, i32>>> = RefCell::new(None); }
thread_local! { static NUM: RefCell<Option<i32>> = RefCell::new(None); }
fn main() {
    let arena = mk();
    #[cfg(bad)]
    arena.mutate(|_mc, root| SLOT.with(|s| *s.borrow_mut() = Some(root.p)));
    #[cfg(not(bad))]
    arena.mutate(|_mc, root| NUM.with(|s| *s.borrow_mut() = Some(*root.p)));
}
''')
P("C12", "static_mutex_store", LIFETIME, "GcWeak stored into a static", '''
use std::sync::Mutex;
struct SendPtr<T>(T);
unsafe impl<T> Send for SendPtr<T> {}
static SLOT: Mutex<Option<SendPtr<GcWeak<'static, i32>>>> = Mutex::new(None);
static NUM: Mutex<Option<i32>> = Mutex::new(None);
fn main() {
    let arena = mk();
    #[cfg(bad)]
    arena.mutate(|_mc, root| *SLOT.lock().unwrap() = Some(SendPtr(root.w)));
    #[cfg(not(bad))]
    arena.mutate(|_mc, root| *NUM.lock().unwrap() = Some(*root.p));
}
''')
P("C12", "cross_arena_store", LIFETIME, "pointer of arena A stored into an object of arena B", '''
fn main() {
    let a = mk();
    let b = mk();
    #[cfg(bad)]
    a.mutate(|_mca, ra| b.mutate(|mcb, rb| { *rb.cell.borrow_mut(mcb) = Some(ra.p); }));
    #[cfg(not(bad))]
    a.mutate(|_mca, ra| b.mutate(|mcb, rb| { let _n = *ra.p; *rb.cell.borrow_mut(mcb) = Some(rb.p); }));
}
''')
P("C12", "cross_arena_root_swap", LIFETIME, "the roots of two arenas exchanged through nested mutate_root callbacks", '''
fn main() {
    let mut a = mk();
    let mut b = mk();
    #[cfg(bad)]
    a.mutate_root(|_mca, ra| b.mutate_root(|_mcb, rb| std::mem::swap(ra, rb)));
    #[cfg(not(bad))]
    a.mutate_root(|_mca, ra| b.mutate_root(|mcb, rb| { let _n = *ra.p; rb.p = Gc::new(mcb, 2); }));
}
''')
P("C12", "cross_arena_root_field_swap", LIFETIME, "a root field of arena A exchanged with one of arena B", '''
fn main() {
    let mut a = mk();
    let mut b = mk();
    #[cfg(bad)]
    a.mutate_root(|_mca, ra| b.mutate_root(|_mcb, rb| std::mem::swap(&mut ra.p, &mut rb.p)));
    #[cfg(not(bad))]
    a.mutate_root(|_mca, ra| b.mutate_root(|_mcb, rb| { let _n = *ra.p; let mut q = rb.p; std::mem::swap(&mut q, &mut rb.p); }));
}
''')
P("C12", "cross_arena_stash", LIFETIME, "pointer of arena A stashed in the DynamicRootSet of arena B", '''
fn main() {
    let a = mk();
    let b = mk();
    #[cfg(bad)]
    let _h = a.mutate(|_mca, ra| b.mutate(|mcb, rb| rb.set.stash::<Rootable![i32]>(mcb, ra.p)));
    #[cfg(not(bad))]
    let _h = a.mutate(|_mca, _ra| b.mutate(|mcb, rb| rb.set.stash::<Rootable![i32]>(mcb, rb.p)));
}
''')
P("C12", "cross_arena_alloc_with_foreign_mc", LIFETIME, "allocation with arena A's Mutation stored into arena B", '''
fn main() {
    let a = mk();
    let b = mk();
    #[cfg(bad)]
    a.mutate(|mca, _ra| b.mutate(|mcb, rb| { *rb.cell.borrow_mut(mcb) = Some(Gc::new(mca, 5)); }));
    #[cfg(not(bad))]
    a.mutate(|_mca, _ra| b.mutate(|mcb, rb| { *rb.cell.borrow_mut(mcb) = Some(Gc::new(mcb, 5)); }));
}
''')
# variance: shrink and grow for each branded type
VAR_TYPES = {
    "gc": "Gc<'{}, i32>",
    "gcweak": "GcWeak<'{}, i32>",
    "mutation": "&'x Mutation<'{}>",
    "finalization": "&'x Finalization<'{}>",
    "rootset": "DynamicRootSet<'{}>",
    "gcbuilder": "gc_arena::GcBuilder<'{}, i32>",
    "zstcache": "gc_arena::zst_cache::ZstCache<'{}, 8>",
    "slicebuilder": "gc_arena::GcSliceBuilder<'{}, u8>",
    "strbuilder": "gc_arena::GcStrBuilder<'{}>",
    "swhbuilder": "gc_arena::GcSliceWithHeaderBuilder<'{}, u8, u8>",
    "swhsbuilder": "gc_arena::slice::GcSliceWithHeaderSliceBuilder<'{}, u8, u8>",
}
for k, t in VAR_TYPES.items():
    P("C12", "variance_shrink_%s" % k, LIFETIME, "covariant use (shrinking the brand) of %s" % k, '''
#[cfg(bad)]
fn conv<'x, 'long: 'short, 'short>(v: %s) -> %s { v }
#[cfg(not(bad))]
fn conv<'x, 'long: 'short, 'short>(v: %s) -> %s { v }
fn main() {}
''' % (t.format("long"), t.format("short"), t.format("long"), t.format("long")))
    P("C12", "variance_grow_%s" % k, LIFETIME, "contravariant use (growing the brand) of %s" % k, '''
#[cfg(bad)]
fn conv<'x, 'long: 'short, 'short>(v: %s) -> %s { v }
#[cfg(not(bad))]
fn conv<'x, 'long: 'short, 'short>(v: %s) -> %s { v }
fn main() {}
''' % (t.format("short"), t.format("long"), t.format("short"), t.format("short")))
# auto traits
AUTO = {
    "gc": "Gc<'static, i32>", "gcweak": "GcWeak<'static, i32>", "mutation_ref": "&'static Mutation<'static>",
    "finalization_ref": "&'static Finalization<'static>", "arena": "A", "rootset": "DynamicRootSet<'static>",
    "dynroot": "DynamicRoot<Rootable![i32]>", "gcbuilder": "gc_arena::GcBuilder<'static, i32>",
    "metrics": "gc_arena::metrics::Metrics", "zstcache": "gc_arena::zst_cache::ZstCache<'static, 8>",
    "marked_arena": "gc_arena::arena::MarkedArena<'static, Rootable![R<'_>]>",
    "write_ref": "&'static Write<RefLock<Option<Gc<'static, i32>>>>",
}
for k, t in AUTO.items():
    for tr in ("Send", "Sync"):
        if k.endswith("_ref") and tr == "Sync":
            continue
        P("C12", "auto_%s_%s" % (tr.lower(), k), "E0277", "%s is not %s" % (k, tr), '''
fn need<T: %s>() {}
fn main() {
    #[cfg(bad)]
    need::<%s>();
    #[cfg(not(bad))]
    need::<i32>();
}
''' % (tr, t))
P("C12", "thread_spawn_arena", "E0277", "an Arena moved to another thread", '''
fn main() {
    let arena = mk();
    #[cfg(bad)]
    std::thread::spawn(move || { let _a = arena; }).join().unwrap();
    #[cfg(not(bad))]
    std::thread::spawn(move || { let _a = 1; }).join().unwrap();
}
''')
P("C12", "thread_scope_gc", "E0277", "a Gc used from a scoped thread", '''
fn main() {
    let arena = mk();
    arena.mutate(|_mc, root| {
        let p = root.p;
        let n = *root.p;
        std::thread::scope(|s| {
            #[cfg(bad)]
            s.spawn(move || { let _x = p; });
            #[cfg(not(bad))]
            s.spawn(move || { let _x = n; });
        });
    });
}
''')
# 'static-only Collect impls
P("C12", "collect_ref_nonstatic", "E0277|" + LIFETIME, "a &'gc T field inside a derived Collect type", '''
#[derive(Collect)]
#[collect(no_drop)]
#[cfg(bad)]
struct S<'gc> { r: &'gc Gc<'gc, i32> }
#[derive(Collect)]
#[collect(no_drop)]
#[cfg(not(bad))]
struct S<'gc> { r: Gc<'gc, i32> }
fn main() {}
''')
P("C12", "collect_cell_gc", "E0277|" + LIFETIME, "a Cell<Option<Gc>> field inside a derived Collect type", '''
#[derive(Collect)]
#[collect(no_drop)]
#[cfg(bad)]
struct S<'gc> { r: Cell<Option<Gc<'gc, i32>>> }
#[derive(Collect)]
#[collect(no_drop)]
#[cfg(not(bad))]
struct S<'gc> { r: Lock<Option<Gc<'gc, i32>>> }
fn main() {}
''')
P("C12", "collect_refcell_gc", "E0277|" + LIFETIME, "a RefCell<Gc> field inside a derived Collect type", '''
#[derive(Collect)]
#[collect(no_drop)]
#[cfg(bad)]
struct S<'gc> { r: RefCell<Gc<'gc, i32>> }
#[derive(Collect)]
#[collect(no_drop)]
#[cfg(not(bad))]
struct S<'gc> { r: RefLock<Gc<'gc, i32>> }
fn main() {}
''')
P("C12", "collect_static_wrapper_gc", "E0277|E0599|" + LIFETIME, "Static<Gc<'gc, _>> as a Collect field", '''
#[derive(Collect)]
#[collect(no_drop)]
#[cfg(bad)]
struct S<'gc> { r: Static<Gc<'gc, i32>> }
#[derive(Collect)]
#[collect(no_drop)]
#[cfg(not(bad))]
struct S<'gc> { r: Static<i32>, g: Gc<'gc, i32> }
fn main() {}
''')
P("C12", "leaked_static_ref_root", "E0277|E0599|~not general enough|" + LIFETIME, "Box::leak'd &'static Gc<'gc,_> as a collectable root (documented rustc-bug example)", '''
fn main() {
    #[cfg(bad)]
    {
        let mut arena = Arena::<Rootable![&'static Gc<'_, i32>]>::new(|mc| Box::leak(Box::new(Gc::new(mc, 4))));
        arena.finish_cycle();
    }
    #[cfg(not(bad))]
    {
        let mut arena = Arena::<Rootable![Gc<'_, i32>]>::new(|mc| Gc::new(mc, 4));
        arena.finish_cycle();
    }
}
''')
P("C12", "static_ref_root_escape", "E0277|E0599|~not general enough|" + LIFETIME, "a root type that is only well-formed at the brand 'static (&'static Gc<'gc, _>) makes every callback assume 'gc: 'static: a Gc<'static, _> leaves mutate as dyn Any and outlives the arena (no collection method needed)", '''
use std::any::Any;
fn main() {
    #[cfg(bad)]
    let _escaped: Gc<'static, i32> = {
        let arena = Arena::<Rootable![&'static Gc<'_, i32>]>::new(|mc| Box::leak(Box::new(Gc::new(mc, 4))));
        let b: Box<dyn Any> = arena.mutate(|_mc, root| { let g: Gc<'_, i32> = **root; Box::new(g) as Box<dyn Any> });
        *b.downcast::<Gc<'static, i32>>().unwrap()
    };
    #[cfg(not(bad))]
    let _copied: i32 = {
        let arena = Arena::<Rootable![Gc<'_, i32>]>::new(|mc| Gc::new(mc, 4));
        let b: Box<dyn Any> = arena.mutate(|_mc, root| { let g: Gc<'_, i32> = *root; Box::new(*g) as Box<dyn Any> });
        *b.downcast::<i32>().unwrap()
    };
}
''')
P("C12", "non_collect_root_with_destructor", "E0277|E0599|~not general enough", "an arena built around a root that is not Collect: such a root may have any Drop impl, and the arena frees every allocation before it drops its root", '''
struct Plain<'gc> { p: Gc<'gc, i32> }
impl<'gc> Drop for Plain<'gc> { fn drop(&mut self) { let _v: i32 = *self.p; } }
#[derive(Collect)]
#[collect(no_drop)]
struct Traced<'gc> { p: Gc<'gc, i32> }
fn main() {
    #[cfg(bad)]
    let _arena = Arena::<Rootable![Plain<'_>]>::new(|mc| Plain { p: Gc::new(mc, 4) });
    #[cfg(not(bad))]
    let _arena = Arena::<Rootable![Traced<'_>]>::new(|mc| Traced { p: Gc::new(mc, 4) });
}
''')
P("C12", "require_static_field_with_bound_override_holds_gc_ref", "E0277|E0599|E0310|~not general enough|" + LIFETIME, "a derived root with a type-level bound override parks a &'gc T in a require_static field (the derive must demand FieldType: 'static whatever the bound setting)", '''
#[derive(Collect)]
#[collect(no_drop, bound = "")]
struct Parked<'gc> {
    #[cfg(bad)]
    #[collect(require_static)]
    slot: Cell<Option<&'gc i32>>,
    #[cfg(not(bad))]
    #[collect(require_static)]
    slot: Cell<Option<&'static i32>>,
    p: Gc<'gc, i32>,
}
fn main() {
    let mut arena = Arena::<Rootable![Parked<'_>]>::new(|mc| Parked { slot: Cell::new(None), p: Gc::new(mc, 1) });
    #[cfg(bad)]
    arena.mutate(|_mc, r| r.slot.set(Some(r.p.as_ref())));
    arena.finish_cycle();
}
''')
P("C12", "implied_static_brand_via_phantom_root", LIFETIME + "|E0491|E0477", "a root that is Collect for every brand but only well-formed at 'gc: 'static (a PhantomData<&'static &'gc ()> component): every callback assumes the implied bound, Gc<'gc, T> is accepted where Gc<'static, T> is expected and pointers move between arenas through a 'static place", '''
use std::marker::PhantomData;
thread_local! {
    static TRANSFER: Cell<Option<Gc<'static, i32>>> = Cell::new(None);
    static NUMBER: Cell<Option<i32>> = Cell::new(None);
}
type World = Arena<Rootable![(Gc<'_, i32>, PhantomData<&'static &'_ ()>)]>;
fn main() {
    let a: World = Arena::new(|mc| (Gc::new(mc, 1), PhantomData));
    #[cfg(bad)]
    a.mutate(|_mc, root| TRANSFER.with(|t| t.set(Some(root.0))));
    #[cfg(not(bad))]
    a.mutate(|_mc, root| NUMBER.with(|t| t.set(Some(*root.0))));
}
''')
P("C12", "arena_unsized_through_root", "E0308|E0277", "Box<Arena<R1>> coerced to Box<Arena<R2>> through the (last, possibly unsized) root field: the coercion is checked at the brand 'static only", '''
trait Peek { fn peek(&self) -> i32; }
#[derive(Collect)]
#[collect(no_drop)]
struct Foo<'gc> { p: Gc<'gc, i32> }
impl<'gc> Peek for Foo<'gc> { fn peek(&self) -> i32 { *self.p } }
gc_arena::static_collect!(dyn Peek);
fn main() {
    let sized = Box::new(Arena::<Rootable![Foo<'_>]>::new(|mc| Foo { p: Gc::new(mc, 4) }));
    #[cfg(bad)]
    let _unsized: Box<Arena<Rootable![dyn Peek + 'static]>> = sized;
    #[cfg(not(bad))]
    let _same: Box<Arena<Rootable![Foo<'_>]>> = sized;
}
''')
P("C12", "foreign_lifetime_root", "E0277|E0599|E0521|" + LIFETIME, "a root type mentioning a non-'static foreign lifetime is collected", '''
fn f<'x>(v: &'x i32) {
    #[cfg(bad)]
    {
        let mut arena = Arena::<Rootable![&'x i32]>::new(|_mc| v);
        arena.finish_cycle();
    }
    #[cfg(not(bad))]
    {
        let mut arena = Arena::<Rootable![i32]>::new(|_mc| *v);
        arena.finish_cycle();
    }
}
fn main() { f(&1); }
''')
P("C12", "dynroot_fetch_brand", LIFETIME, "a fetched dynamic root returned out of the callback", '''
fn main() {
    let arena = mk();
    let h = arena.mutate(|mc, root| root.set.stash::<Rootable![i32]>(mc, root.p));
    #[cfg(bad)]
    let _escaped = arena.mutate(|_mc, root| root.set.fetch(&h));
    #[cfg(not(bad))]
    let _fine: i32 = arena.mutate(|_mc, root| *root.set.fetch(&h));
}
''')


P("C12", "static_collect_branded_root", "E0277|E0310|E0477|E0478|~not general enough|" + LIFETIME, "static_collect! on a type holding a branded pointer, used as a root", '''
use gc_arena::static_collect;
struct Holder<'gc>(Gc<'gc, i32>);
struct PlainHolder(i32);
#[cfg(bad)]
static_collect!(<'a> Holder<'a>);
#[cfg(not(bad))]
static_collect!(PlainHolder);
fn main() {
    #[cfg(bad)]
    let mut arena = Arena::<Rootable![Holder<'_>]>::new(|mc| Holder(Gc::new(mc, 1)));
    #[cfg(not(bad))]
    let mut arena = Arena::<Rootable![PlainHolder]>::new(|mc| PlainHolder(1));
    arena.finish_cycle();
}
''')

# ------------------------------------------------------------------------------------------------ C03
P("C03", "collect_inside_mutate", "E0502|E0500|E0501", "a collection method called inside the mutate callback", '''
fn main() {
    let mut arena = mk();
    #[cfg(bad)]
    arena.mutate(|_mc, _root| { arena.collect_debt(); });
    #[cfg(not(bad))]
    { arena.mutate(|_mc, _root| {}); arena.collect_debt(); }
}
''')
P("C03", "finish_cycle_inside_mutate_root", "E0499|E0500|E0501|E0502", "finish_cycle called inside the mutate_root callback", '''
fn main() {
    let mut arena = mk();
    #[cfg(bad)]
    arena.mutate_root(|_mc, _root| { arena.finish_cycle(); });
    #[cfg(not(bad))]
    { arena.mutate_root(|_mc, _root| {}); arena.finish_cycle(); }
}
''')
P("C03", "drop_arena_inside_mutate", "E0505|E0507|E0502", "the arena dropped inside its own mutate callback", '''
fn main() {
    let arena = mk();
    #[cfg(bad)]
    arena.mutate(|_mc, _root| { drop(arena); });
    #[cfg(not(bad))]
    { arena.mutate(|_mc, _root| {}); drop(arena); }
}
''')
P("C03", "collect_inside_finalize", "E0499|E0502|E0500|E0501|E0505", "a collection method called inside the finalize callback", '''
fn main() {
    let mut arena = mk();
    #[cfg(bad)]
    { let m = arena.finish_marking().unwrap(); m.finalize(|_fc, _root| { arena.collect_debt(); }); }
    #[cfg(not(bad))]
    { let m = arena.finish_marking().unwrap(); m.finalize(|_fc, _root| {}); arena.collect_debt(); }
}
''')
P("C03", "mark_debt_shared_ref", "E0596", "a collection method through a shared reference", '''
fn main() {
    let mut arena = mk();
    #[cfg(bad)]
    { let r = &arena; r.collect_debt(); }
    #[cfg(not(bad))]
    { let r = &mut arena; r.collect_debt(); }
}
''')

# ------------------------------------------------------------------------------------------------ C13
P("C13", "forge_write_literal", "E0639", "Write forged with a struct literal", '''
fn main() {
    let arena = mk();
    arena.mutate(|mc, root| {
        #[cfg(bad)]
        let w: Write<i32> = Write { __inner: 1 };
        #[cfg(not(bad))]
        let w: &Write<RefLock<Option<Gc<i32>>>> = Gc::write(mc, root.cell);
    });
}
''')
P("C13", "write_assume_safe", "E0133", "Write::assume called without unsafe", '''
fn main() {
    let arena = mk();
    arena.mutate(|mc, root| {
        #[cfg(bad)]
        let w = Write::assume(Gc::as_ref(root.cell));
        #[cfg(not(bad))]
        let w = Gc::write(mc, root.cell);
        *w.unlock().borrow_mut() = Some(Gc::new(mc, 2));
    });
}
''')
P("C13", "write_from_ref_and_ptr_safe", "E0133", "Write::__from_ref_and_ptr called without unsafe", '''
fn main() {
    let arena = mk();
    arena.mutate(|mc, root| {
        let r = Gc::as_ref(root.cell);
        #[cfg(bad)]
        let w = Write::__from_ref_and_ptr(r, r as *const _);
        #[cfg(not(bad))]
        let w = Gc::write(mc, root.cell);
        *w.unlock().borrow_mut() = Some(Gc::new(mc, 2));
    });
}
''')
P("C13", "from_static_branded", LIFETIME + "|E0477|E0310", "Write::from_static on data holding branded pointers", '''
fn main() {
    let arena = mk();
    arena.mutate(|mc, root| {
        #[cfg(bad)]
        { let w = Write::from_static(Gc::as_ref(root.cell)); *w.unlock().borrow_mut() = Some(Gc::new(mc, 2)); }
        #[cfg(not(bad))]
        { let s: &'static RefLock<i32> = Box::leak(Box::new(RefLock::new(0))); let w = Write::from_static(s); *w.unlock().borrow_mut() = 2; }
    });
}
''')
P("C13", "unlock_unchecked_safe", "E0133", "Unlock::unlock_unchecked called without unsafe", '''
use gc_arena::barrier::Unlock;
fn main() {
    let arena = mk();
    arena.mutate(|mc, root| {
        #[cfg(bad)]
        { *Gc::as_ref(root.cell).unlock_unchecked().borrow_mut() = Some(Gc::new(mc, 2)); }
        #[cfg(not(bad))]
        { *root.cell.unlock(mc).borrow_mut() = Some(Gc::new(mc, 2)); }
    });
}
''')
for lk, meth, store in [("RefLock", "as_ref_cell", "*c.borrow_mut() = Some(Gc::new(mc, 2));"), ("Lock", "as_cell", "c.set(Some(Gc::new(mc, 2)));")]:
    fld = "cell" if lk == "RefLock" else "lock"
    P("C13", "%s_raw_cell_safe" % lk.lower(), "E0133", "%s::%s called without unsafe" % (lk, meth), '''
fn main() {
    let arena = mk();
    arena.mutate(|mc, root| {
        #[cfg(bad)]
        { let c = Gc::as_ref(root.%s).%s(); %s }
        #[cfg(not(bad))]
        { let c = root.%s.unlock(mc); %s }
    });
}
''' % (fld, meth, store, fld, store))
P("C13", "oncelock_raw_cell_safe", "E0133|E0599", "OnceLock::as_once_cell called without unsafe", '''
#[derive(Collect)]
#[collect(no_drop)]
struct O<'gc> { o: Gc<'gc, OnceLock<Gc<'gc, i32>>> }
fn main() {
    let arena = Arena::<Rootable![O<'_>]>::new(|mc| O { o: Gc::new(mc, OnceLock::new()) });
    arena.mutate(|mc, root| {
        #[cfg(bad)]
        { let _ = Gc::as_ref(root.o).as_once_cell().set(Gc::new(mc, 2)); }
        #[cfg(not(bad))]
        { let _ = root.o.set(mc, Gc::new(mc, 2)); }
    });
}
''')
P("C13", "lock_set_without_write", "E0599|E0308|E0061", "Lock::set on a plain &Lock (no barrier)", '''
fn main() {
    let arena = mk();
    arena.mutate(|mc, root| {
        #[cfg(bad)]
        { Gc::as_ref(root.lock).set(Some(Gc::new(mc, 2))); }
        #[cfg(not(bad))]
        { root.lock.set(mc, Some(Gc::new(mc, 2))); }
    });
}
''')
P("C13", "reflock_borrow_mut_without_write", "E0599|E0308|E0061", "RefLock::borrow_mut on a plain &RefLock (no barrier)", '''
fn main() {
    let arena = mk();
    arena.mutate(|mc, root| {
        #[cfg(bad)]
        { *Gc::as_ref(root.cell).borrow_mut() = Some(Gc::new(mc, 2)); }
        #[cfg(not(bad))]
        { *root.cell.borrow_mut(mc) = Some(Gc::new(mc, 2)); }
    });
}
''')
P("C13", "as_deref_through_gc", "E0277|E0599", "Write projected through a Gc dereference (as_deref on Write<Gc<_>>)", '''
#[derive(Collect)]
#[collect(no_drop)]
struct Outer<'gc> { inner: Gc<'gc, RefLock<Option<Gc<'gc, i32>>>>, boxed: Box<RefLock<Option<Gc<'gc, i32>>>> }
fn main() {
    let arena = Arena::<Rootable![Gc<'_, Outer<'_>>]>::new(|mc| Gc::new(mc, Outer { inner: Gc::new(mc, RefLock::new(None)), boxed: Box::new(RefLock::new(None)) }));
    arena.mutate(|mc, root| {
        let w = Gc::write(mc, *root);
        #[cfg(bad)]
        { *field!(w, Outer, inner).as_deref().unlock().borrow_mut() = Some(Gc::new(mc, 2)); }
        #[cfg(not(bad))]
        { *field!(w, Outer, boxed).as_deref().unlock().borrow_mut() = Some(Gc::new(mc, 2)); }
    });
}
''')
P("C13", "field_through_box_deref", "E0308|E0026|E0574|E0559", "field! projecting through a Box dereference", '''
struct Inner<'gc> { slot: RefLock<Option<Gc<'gc, i32>>> }
struct Outer<'gc> { inner: Inner<'gc> }
fn f<'gc>(mc: &Mutation<'gc>, wb: &Write<Box<Inner<'gc>>>, wo: &Write<Outer<'gc>>) {
    #[cfg(bad)]
    { let _ = field!(wb, Inner, slot); }
    #[cfg(not(bad))]
    { let _ = field!(field!(wo, Outer, inner), Inner, slot); }
}
fn main() {}
''')
P("C13", "field_through_ref", "E0308|E0507|E0026|~implicitly-borrowing pattern", "field! projecting through a plain reference", '''
struct Inner<'gc> { slot: RefLock<Option<Gc<'gc, i32>>> }
fn f<'a, 'gc>(wr: &Write<&'a Inner<'gc>>, wi: &Write<Inner<'gc>>) {
    #[cfg(bad)]
    { let _ = field!(wr, Inner, slot); }
    #[cfg(not(bad))]
    { let _ = field!(wi, Inner, slot); }
}
fn main() {}
''')
P("C13", "field_through_gc", "E0308|E0026", "field! projecting through a Gc", '''
struct Inner<'gc> { slot: RefLock<Option<Gc<'gc, i32>>> }
fn f<'gc>(wg: &Write<Gc<'gc, Inner<'gc>>>, wi: &Write<Inner<'gc>>) {
    #[cfg(bad)]
    { let _ = field!(wg, Inner, slot); }
    #[cfg(not(bad))]
    { let _ = field!(wi, Inner, slot); }
}
fn main() {}
''')
# the three exploit programs (F2-F4): must be rejected; twins use a 'static pointee
P("C13", "exploit_from_mut_ref_as_deref", "E0310|E0477|E0521|E0597|E0599|E0277|" + LIFETIME,
  "Write::from_mut(&mut &T).as_deref() gives an unbarriered &Write<T> (use-after-free exploit F2)", '''
fn main() {
    let arena = mk();
    arena.mutate(|mc, root| {
        let s = Gc::new(mc, 7);
        #[cfg(bad)]
        {
            let mut r: &RefLock<Option<Gc<i32>>> = Gc::as_ref(root.cell);
            let w: &Write<RefLock<Option<Gc<i32>>>> = Write::from_mut(&mut r).as_deref();
            *w.unlock().borrow_mut() = Some(s);
        }
        #[cfg(not(bad))]
        {
            let st: &'static RefLock<i32> = Box::leak(Box::new(RefLock::new(0)));
            let mut r: &RefLock<i32> = st;
            let w: &Write<RefLock<i32>> = Write::from_mut(&mut r).as_deref();
            *w.unlock().borrow_mut() = *s;
        }
    });
}
''')
P("C13", "exploit_rc_as_deref", "E0310|E0477|E0521|E0597|E0599|E0277|" + LIFETIME,
  "Write<Rc<T>>::as_deref() reaches storage shared with an unbarriered object (exploit F3)", '''
#[derive(Collect)]
#[collect(no_drop)]
struct S<'gc> { shared: Gc<'gc, Rc<RefLock<Option<Gc<'gc, i32>>>>>, plain: Gc<'gc, Rc<RefLock<i32>>> }
fn main() {
    let arena = Arena::<Rootable![S<'_>]>::new(|mc| S { shared: Gc::new(mc, Rc::new(RefLock::new(None))), plain: Gc::new(mc, Rc::new(RefLock::new(0))) });
    arena.mutate(|mc, root| {
        let s = Gc::new(mc, 7);
        #[cfg(bad)]
        {
            let other: Gc<Rc<RefLock<Option<Gc<i32>>>>> = Gc::new(mc, Rc::clone(&*root.shared));
            *Gc::write(mc, other).as_deref().unlock().borrow_mut() = Some(s);
        }
        #[cfg(not(bad))]
        {
            let other: Gc<Rc<RefLock<i32>>> = Gc::new(mc, Rc::clone(&*root.plain));
            *Gc::write(mc, other).as_deref().unlock().borrow_mut() = *s;
        }
    });
}
''')
P("C13", "exploit_arc_as_deref", "E0310|E0477|E0521|E0597|E0599|E0277|" + LIFETIME,
  "Write<Arc<T>>::as_deref() reaches storage shared with an unbarriered object (exploit F4)", '''
#[derive(Collect)]
#[collect(no_drop)]
struct S<'gc> { shared: Gc<'gc, Arc<RefLock<Option<Gc<'gc, i32>>>>>, plain: Gc<'gc, Arc<RefLock<i32>>> }
fn main() {
    let arena = Arena::<Rootable![S<'_>]>::new(|mc| S { shared: Gc::new(mc, Arc::new(RefLock::new(None))), plain: Gc::new(mc, Arc::new(RefLock::new(0))) });
    arena.mutate(|mc, root| {
        let s = Gc::new(mc, 7);
        #[cfg(bad)]
        {
            let other: Gc<Arc<RefLock<Option<Gc<i32>>>>> = Gc::new(mc, Arc::clone(&*root.shared));
            *Gc::write(mc, other).as_deref().unlock().borrow_mut() = Some(s);
        }
        #[cfg(not(bad))]
        {
            let other: Gc<Arc<RefLock<i32>>> = Gc::new(mc, Arc::clone(&*root.plain));
            *Gc::write(mc, other).as_deref().unlock().borrow_mut() = *s;
        }
    });
}
''')
# (removed: a probe demanding that `w[..]` on a &Write<[T]> be rejected. RangeFull on an owning slice is a sound
# index; the probe pinned today's impl list rather than an escape and fired on a benign new impl. The impl list is
# reviewed by rule R13.3 instead.)
P("C13", "legit_uses", None, "documented legitimate uses keep compiling", '''
#[derive(Collect)]
#[collect(no_drop)]
struct Node<'gc> { next: RefLock<Option<Gc<'gc, Node<'gc>>>>, vals: Vec<Lock<Option<Gc<'gc, i32>>>>, boxed: Box<RefLock<Option<Gc<'gc, i32>>>>, opt: Option<RefLock<i32>> }
fn main() {
    let arena = Arena::<Rootable![Gc<'_, Node<'_>>]>::new(|mc| Gc::new(mc, Node { next: RefLock::new(None), vals: vec![Lock::new(None)], boxed: Box::new(RefLock::new(None)), opt: Some(RefLock::new(1)) }));
    arena.mutate(|mc, root| {
        let w = Gc::write(mc, *root);
        *field!(w, Node, next).unlock().borrow_mut() = Some(*root);
        *unlock!(w, Node, next).borrow_mut() = None;
        field!(w, Node, vals)[0].unlock().set(Some(Gc::new(mc, 1)));
        *field!(w, Node, boxed).as_deref().unlock().borrow_mut() = Some(Gc::new(mc, 2));
        if let Some(o) = field!(w, Node, opt).as_write() { *o.unlock().borrow_mut() = 3; }
        let mut local = RefLock::new(Some(Gc::new(mc, 3)));
        *Write::from_mut(&mut local).unlock().borrow_mut() = None;
    });
}
''', passonly=True)

# ------------------------------------------------------------------------------------------------ C19
P("C19", "conjure_zst_void", "E0133", "ZstCache::alloc_zst conjures a Gc to an uninhabited type from safe code (F5)", '''
enum Void {}
fn main() {
    gc_arena::arena::rootless_mutate(|mc| {
        let z = gc_arena::zst_cache::ZstCache::<8>::new(mc);
        #[cfg(bad)]
        let _v: Option<Gc<Void>> = z.alloc_zst::<Void>();
        #[cfg(not(bad))]
        let _v: Gc<()> = z.alloc(mc, ());
    });
}
''')
P("C19", "conjure_zst_token", "E0133", "ZstCache::alloc_zst conjures a Gc to a constructor-guarded token type", '''
mod guarded { pub struct Token(()); impl Token { pub fn new_checked(ok: bool) -> Option<Token> { if ok { Some(Token(())) } else { None } } } }
fn main() {
    gc_arena::arena::rootless_mutate(|mc| {
        let z = gc_arena::zst_cache::ZstCache::<8>::new(mc);
        #[cfg(bad)]
        let _v: Option<Gc<guarded::Token>> = z.alloc_zst::<guarded::Token>();
        #[cfg(not(bad))]
        let _v: Gc<guarded::Token> = z.alloc_static(mc, guarded::Token::new_checked(true).unwrap());
    });
}
''')
for fn_, expr in [("cast", "Gc::cast::<u32>(g)"), ("from_ptr", "Gc::<i32>::from_ptr(p)"),
                  ("from_ptr_with_kind", "Gc::<i32, gc_arena::gc::DefaultGcKind>::from_ptr_with_kind(p)"),
                  ("weak_cast", "GcWeak::cast::<u32>(Gc::downgrade(g))"), ("weak_from_ptr", "GcWeak::<i32>::from_ptr(p)")]:
    P("C19", "unsafe_conv_%s" % fn_, "E0133", "%s usable without unsafe" % fn_, '''
fn main() {
    gc_arena::arena::rootless_mutate(|mc| {
        let g = Gc::new(mc, 1i32);
        let p = Gc::as_ptr(g);
        #[cfg(bad)]
        let _x = %s;
        #[cfg(not(bad))]
        let _x = unsafe { %s };
    });
}
''' % (expr, expr))
P("C19", "builder_assume_init_safe", "E0133", "GcBuilder::assume_init (uninitialised value) usable without unsafe", '''
fn main() {
    gc_arena::arena::rootless_mutate(|mc| {
        let b = gc_arena::GcBuilder::<i32>::new();
        #[cfg(bad)]
        let _g = b.assume_init(mc);
        #[cfg(not(bad))]
        let _g = b.write(mc, 5);
    });
}
''')
P("C19", "slice_builder_assume_init_safe", "E0133", "GcSliceBuilder::assume_init usable without unsafe", '''
fn main() {
    gc_arena::arena::rootless_mutate(|mc| {
        let b = gc_arena::GcSliceBuilder::<u8>::new(4);
        #[cfg(bad)]
        let _g = b.assume_init(mc);
        #[cfg(not(bad))]
        let _g = b.copy_slice(mc, &[1, 2, 3, 4]);
    });
}
''')
P("C19", "header_builder_assume_init_safe", "E0133", "GcSliceWithHeaderBuilder::assume_init (uninitialised header) usable without unsafe", '''
fn main() {
    gc_arena::arena::rootless_mutate(|mc| {
        let b = gc_arena::GcSliceWithHeaderBuilder::<String, u8>::new(2);
        #[cfg(bad)]
        let _g = b.assume_init().copy_slice(mc, &[1, 2]);
        #[cfg(not(bad))]
        let _g = b.write_header(String::new()).copy_slice(mc, &[1, 2]);
    });
}
''')
P("C19", "unsize_incompatible", "E0308|E0277", "unsize! to a type the value does not coerce to", '''
use gc_arena::unsize;
fn main() {
    gc_arena::arena::rootless_mutate(|mc| {
        #[cfg(bad)]
        let _d = unsize!(Gc::new(mc, Some('x')) => dyn std::error::Error);
        #[cfg(not(bad))]
        let _d = unsize!(Gc::new(mc, 5i32) => dyn std::fmt::Display);
    });
}
''')
P("C18", "builder_value_type_coerced_after_registration", LIFETIME + "|E0308", "a builder registered for Static<Box<dyn Fn() + 'static>> (nothing to trace) is unwrap_static()ed, coerced by subtyping to a builder of Box<dyn Fn() + 'gc> and completed with a closure that owns a Gc: the builder must be invariant in its value type", '''
type Thunk<'a> = Box<dyn Fn() -> usize + 'a>;
fn shorten<'gc, 'a>(b: gc_arena::GcBuilder<'gc, Thunk<'static>>, _witness: &'a ()) -> gc_arena::GcBuilder<'gc, Thunk<'a>> {
    #[cfg(bad)]
    { b }
    #[cfg(not(bad))]
    { drop(b); unimplemented!() }
}
fn main() {
    gc_arena::arena::rootless_mutate(|mc| {
        let victim = Gc::new(mc, 7i32);
        let b: gc_arena::GcBuilder<'_, Static<Thunk<'static>>> = gc_arena::GcBuilder::new();
        let b: gc_arena::GcBuilder<'_, Thunk<'static>> = b.unwrap_static();
        #[cfg(bad)]
        {
            let w = ();
            let _g = shorten(b, &w).write(mc, Box::new(move || Gc::as_ptr(victim) as usize));
        }
        #[cfg(not(bad))]
        {
            let _keep = victim;
            let _g = b.write(mc, Box::new(|| 0usize));
        }
    });
}
''')
P("C19", "downstream_ptr_meta_impl_for_library_marker", "E0200|E0199", "a downstream crate implements PtrMeta<dyn LocalTrait, M> for the library's own marker UnitPtrMeta without writing unsafe: Gc::as_thin on an unsize!d pointer would then run its from_thin", '''
use gc_arena::metrics::Metrics;
trait Shape { fn name(&self) -> &'static str; }
struct Honest;
impl Shape for Honest { fn name(&self) -> &'static str { "honest" } }
#[cfg(bad)]
impl<M> gc_arena::meta::PtrMeta<dyn Shape, M> for gc_arena::meta::UnitPtrMeta {
    type PtrMetadata = ();
    type Thin = Honest;
    fn to_thin(ptr: *const dyn Shape) -> *const Honest { ptr as *const Honest }
    fn from_thin(thin: *const Honest, _: ()) -> *const dyn Shape { thin as *const dyn Shape }
}
fn main() {}
''')
P("C13", "dyn_collect_on_sized_type", "E0119|E0277|E0275", "dyn_collect! applied to a *sized* type: the generated `unsafe impl Collect` proves its own DynCollect obligation through the blanket impl, so any type - here one holding a RefCell<Option<Gc>> - becomes Collect and adopts pointers without a barrier", '''
struct PlainCell<'gc> { cell: RefCell<Option<Gc<'gc, i32>>> }
#[cfg(bad)]
gc_arena::__dyn_collect!(PlainCell<'gc>);
trait Shape<'gc>: gc_arena::collect::DynCollect<'gc> { fn area(&self) -> i32; }
#[cfg(not(bad))]
gc_arena::__dyn_collect!(dyn Shape<'gc>);
fn main() {}
''')
P("C13", "dyn_collect_on_sized_generic_type", "E0119|E0277|E0275", "dyn_collect! (the arm with declared parameters) applied to a sized generic type: as dyn_collect_on_sized_type, through the other macro arm", '''
struct PlainCellOf<'gc, T> { cell: RefCell<Option<Gc<'gc, T>>> }
#[cfg(bad)]
gc_arena::__dyn_collect!(<T> PlainCellOf<'gc, T> where T: Clone);
trait ShapeOf<'gc, T>: gc_arena::collect::DynCollect<'gc> { fn area(&self) -> T; }
#[cfg(not(bad))]
gc_arena::__dyn_collect!(<T> dyn ShapeOf<'gc, T> where T: Clone);
fn main() {}
''')
P("C13", "dyn_collect_where_clause_token_injection", "~not allowed in the where clause|~compile_error|E0046|E0277", "dyn_collect! with a brace group in its where clause: the clause is pasted in front of the generated impl body, the client's `{}` becomes the body of the unsafe impl Collect (default no-op trace) and the generated body is eaten by a trailing macro call - a trait object that needs no DynCollect supertrait at all becomes Collect (F18)", '''
macro_rules! swallow { ($($t:tt)*) => {}; }
struct NotCollect<'gc>(Gc<'gc, i32>);
#[cfg(bad)]
trait Holder<'gc, T> { fn get(&self) -> Gc<'gc, i32>; }
#[cfg(bad)]
gc_arena::__dyn_collect!(<T> dyn Holder<'gc, T> + 'gc where T: Sized {} swallow!);
#[cfg(not(bad))]
trait Holder<'gc, T>: gc_arena::collect::DynCollect<'gc> { fn get(&self) -> Gc<'gc, i32>; }
#[cfg(not(bad))]
gc_arena::__dyn_collect!(<T> dyn Holder<'gc, T> + 'gc where T: Sized);
fn main() {}
''')
P("C19", "unsize_deref_string_str", "E0308|E0277", "unsize! through a Deref coercion (String to str): the result would point into the heap buffer, not at the Gc value", '''
use gc_arena::unsize;
fn main() {
    gc_arena::arena::rootless_mutate(|mc| {
        #[cfg(bad)]
        let _d: Gc<str> = unsize!(Gc::new(mc, String::from("x")) => str);
        #[cfg(not(bad))]
        let _d: Gc<dyn std::fmt::Display> = unsize!(Gc::new(mc, String::from("x")) => dyn std::fmt::Display);
    });
}
''')
P("C19", "unsize_deref_vec_slice", "E0308|E0277", "unsize! through a Deref coercion (Vec<u8> to [u8])", '''
use gc_arena::unsize;
fn main() {
    gc_arena::arena::rootless_mutate(|mc| {
        #[cfg(bad)]
        let _d: Gc<[u8]> = unsize!(Gc::new(mc, vec![1u8, 2]) => [u8]);
        #[cfg(not(bad))]
        let _d: Gc<[u8]> = unsize!(Gc::new(mc, [1u8, 2]) => [u8]);
    });
}
''')
P("C19", "unsize_deref_box_inner", "E0308|E0277", "unsize! through a Deref coercion (Box<i32> to i32, on a GcWeak)", '''
use gc_arena::unsize;
fn main() {
    gc_arena::arena::rootless_mutate(|mc| {
        #[cfg(bad)]
        let _d: GcWeak<i32> = unsize!(Gc::downgrade(Gc::new(mc, Box::new(5i32))) => i32);
        #[cfg(not(bad))]
        let _d: GcWeak<dyn std::fmt::Debug> = unsize!(Gc::downgrade(Gc::new(mc, Box::new(5i32))) => dyn std::fmt::Debug);
    });
}
''')
P("C19", "legit_conversions", None, "documented conversions keep compiling", '''
use gc_arena::unsize;
fn main() {
    gc_arena::arena::rootless_mutate(|mc| {
        let g = Gc::new(mc, [1u8, 2, 3]);
        let e = Gc::erase(g);
        let s = unsize!(g => [u8]);
        let w = Gc::downgrade(g);
        let u = w.upgrade(mc).unwrap();
        assert!(Gc::ptr_eq(g, u));
        let sl = gc_arena::GcSlice::new_slice(mc, &[1u8, 2]);
        let th = Gc::as_thin(sl);
        let ft = Gc::as_fat(th);
        let st = gc_arena::GcStr::new_str(mc, "x");
        let k = Gc::erase_kind(sl);
        let z = gc_arena::zst_cache::ZstCache::<8>::new(mc);
        let _a: Gc<()> = z.alloc(mc, ());
        let _ = (e, s, ft, st, k);
    });
}
''', passonly=True)

# ------------------------------------------------------------------------------------------------ C15 rejections
def D(name, fail, what, bad, ok):
    P("C15", name, fail, what, '''
%s
fn main() {}
''' % ("#[cfg(bad)]\nmod m {\n    use super::*;\n%s\n}\n#[cfg(not(bad))]\nmod m {\n    use super::*;\n%s\n}" % (bad, ok)))


D("missing_mode", "~requires a `#\\[collect|~proc-macro derive panicked|~proc.macro", "derive(Collect) without a mode",
  "    #[derive(Collect)]\n    pub struct S<'gc> { p: Gc<'gc, i32> }",
  "    #[derive(Collect)]\n    #[collect(no_drop)]\n    pub struct S<'gc> { p: Gc<'gc, i32> }")
D("two_modes", "~multiple modes specified", "two modes in one attribute",
  "    #[derive(Collect)]\n    #[collect(no_drop, unsafe_drop)]\n    pub struct S<'gc> { p: Gc<'gc, i32> }",
  "    #[derive(Collect)]\n    #[collect(unsafe_drop)]\n    pub struct S<'gc> { p: Gc<'gc, i32> }")
D("two_attributes", "~multiple `#\\[collect\\]` attributes", "two #[collect] attributes",
  "    #[derive(Collect)]\n    #[collect(no_drop)]\n    #[collect(no_drop)]\n    pub struct S<'gc> { p: Gc<'gc, i32> }",
  "    #[derive(Collect)]\n    #[collect(no_drop)]\n    pub struct S<'gc> { p: Gc<'gc, i32> }")
D("unknown_option", "~unknown option", "unknown option in #[collect]",
  "    #[derive(Collect)]\n    #[collect(frobnicate)]\n    pub struct S<'gc> { p: Gc<'gc, i32> }",
  "    #[derive(Collect)]\n    #[collect(no_drop)]\n    pub struct S<'gc> { p: Gc<'gc, i32> }")
INJ = "a `bound` string that is more than a where clause: the tokens are spliced between the impl header and the generated body, the first brace group becomes the (empty) impl body and the generated trace is thrown away - a rooted Gc field is never traced (F17)"
D("bound_string_token_injection_macro", "~unexpected token|~expected|~proc-macro derive|~proc.macro", INJ,
  "    macro_rules! swallow { ($($t:tt)*) => {}; }\n    #[derive(Collect)]\n    #[collect(no_drop, bound = \"where {} swallow!\")]\n    pub struct S<'gc> { p: Gc<'gc, i32> }",
  "    #[derive(Collect)]\n    #[collect(no_drop, bound = \"\")]\n    pub struct S<'gc> { p: Gc<'gc, i32> }")
D("bound_string_token_injection_cfg_item", "~unexpected token|~expected|~proc-macro derive|~proc.macro", INJ + " (without a client macro: the body becomes a cfg'd-out module)",
  "    #[derive(Collect)]\n    #[collect(no_drop, bound = \"where T: Collect<'gc> {} #[cfg(any())] mod discarded\")]\n    pub struct S<'gc, T> { p: Gc<'gc, i32>, t: T }",
  "    #[derive(Collect)]\n    #[collect(no_drop, bound = \"where T: Collect<'gc>\")]\n    pub struct S<'gc, T> { p: Gc<'gc, i32>, t: T }")
D("bound_string_overrides_needs_trace", "~unexpected token|~expected|~proc-macro derive|~proc.macro", INJ + " (the injected body sets NEEDS_TRACE = false)",
  "    macro_rules! swallow { ($($t:tt)*) => {}; }\n    #[derive(Collect)]\n    #[collect(no_drop, bound = \"where { const NEEDS_TRACE: bool = false; } swallow!\")]\n    pub struct S<'gc> { p: Gc<'gc, i32> }",
  "    #[derive(Collect)]\n    #[collect(no_drop, bound = \"where\")]\n    pub struct S<'gc> { p: Gc<'gc, i32> }")
D("no_drop_with_drop_impl", "E0119", "no_drop on a type that implements Drop",
  "    #[derive(Collect)]\n    #[collect(no_drop)]\n    pub struct S<'gc> { p: Gc<'gc, i32> }\n    impl<'gc> Drop for S<'gc> { fn drop(&mut self) {} }",
  "    #[derive(Collect)]\n    #[collect(unsafe_drop)]\n    pub struct S<'gc> { p: Gc<'gc, i32> }\n    impl<'gc> Drop for S<'gc> { fn drop(&mut self) {} }")
D("no_drop_enum_with_drop_impl", "E0119", "no_drop on an enum that implements Drop",
  "    #[derive(Collect)]\n    #[collect(no_drop)]\n    pub enum S<'gc> { A(Gc<'gc, i32>), B }\n    impl<'gc> Drop for S<'gc> { fn drop(&mut self) {} }",
  "    #[derive(Collect)]\n    #[collect(unsafe_drop)]\n    pub enum S<'gc> { A(Gc<'gc, i32>), B }\n    impl<'gc> Drop for S<'gc> { fn drop(&mut self) {} }")
D("require_static_type_not_static", "E0310|E0477|E0478|~lifetime|E0521", "require_static on a type instantiated with a non-'static lifetime",
  "    #[derive(Collect)]\n    #[collect(require_static)]\n    pub struct S<'a> { p: &'a i32 }\n    pub fn need<'gc, T: Collect<'gc>>() {}\n    pub fn f<'gc, 'a>() { need::<'gc, S<'a>>() }",
  "    #[derive(Collect)]\n    #[collect(require_static)]\n    pub struct S<'a> { p: &'a i32 }\n    pub fn need<'gc, T: Collect<'gc>>() {}\n    pub fn f<'gc>() { need::<'gc, S<'static>>() }")
D("require_static_field_not_static", "E0310|E0477|E0478|~lifetime|E0521|E0277", "require_static on a field holding a branded pointer",
  "    #[derive(Collect)]\n    #[collect(no_drop)]\n    pub struct S<'gc> { #[collect(require_static)] p: Gc<'gc, i32>, q: Gc<'gc, i32> }\n    pub fn need<'gc, T: Collect<'gc>>() {}\n    pub fn f<'gc>() { need::<'gc, S<'gc>>() }",
  "    #[derive(Collect)]\n    #[collect(no_drop)]\n    pub struct S<'gc> { #[collect(require_static)] p: std::rc::Rc<i32>, q: Gc<'gc, i32> }\n    pub fn need<'gc, T: Collect<'gc>>() {}\n    pub fn f<'gc>() { need::<'gc, S<'gc>>() }")
D("attribute_on_variant", "~not supported on enum variants", "#[collect] on an enum variant",
  "    #[derive(Collect)]\n    #[collect(no_drop)]\n    pub enum S<'gc> { #[collect(require_static)] A(i32), B(Gc<'gc, i32>) }",
  "    #[derive(Collect)]\n    #[collect(no_drop)]\n    pub enum S<'gc> { A(#[collect(require_static)] i32), B(Gc<'gc, i32>) }")
D("field_not_collect", "E0277", "a field whose type is not Collect",
  "    pub struct NotCollect;\n    #[derive(Collect)]\n    #[collect(no_drop)]\n    pub struct S<'gc> { p: Gc<'gc, i32>, n: NotCollect }",
  "    pub struct NotCollect;\n    #[derive(Collect)]\n    #[collect(no_drop)]\n    pub struct S<'gc> { p: Gc<'gc, i32>, #[collect(require_static)] n: NotCollect }")
D("enum_field_not_collect_last_variant", "E0277", "a non-Collect field in the last variant of an enum",
  "    pub struct NotCollect;\n    #[derive(Collect)]\n    #[collect(no_drop)]\n    pub enum S<'gc> { A(Gc<'gc, i32>), B { x: i32, n: NotCollect } }",
  "    pub struct NotCollect;\n    #[derive(Collect)]\n    #[collect(no_drop)]\n    pub enum S<'gc> { A(Gc<'gc, i32>), B { x: i32, #[collect(require_static)] n: NotCollect } }")
D("two_lifetimes_no_gc_lifetime", "~multiple lifetime parameters|~proc-macro derive panicked|~proc.macro", "several lifetimes without gc_lifetime",
  "    #[derive(Collect)]\n    #[collect(no_drop)]\n    pub struct S<'gc, 'a> { p: Gc<'gc, i32>, q: Static<&'a ()> }",
  "    #[derive(Collect)]\n    #[collect(no_drop, gc_lifetime = 'gc)]\n    pub struct S<'gc, 'a> { p: Gc<'gc, i32>, q: std::marker::PhantomData<&'a ()> }")
D("field_option_other_than_require_static", "~Only `#\\[collect\\(require_static\\)\\]` is supported on a field", "field-level option other than require_static",
  "    #[derive(Collect)]\n    #[collect(no_drop)]\n    pub struct S<'gc> { #[collect(no_drop)] p: Gc<'gc, i32> }",
  "    #[derive(Collect)]\n    #[collect(no_drop)]\n    pub struct S<'gc> { p: Gc<'gc, i32> }")
D("generic_param_not_collect", "E0277", "a generic parameter used without a Collect bound at the use site",
  "    #[derive(Collect)]\n    #[collect(no_drop)]\n    pub struct S<T> { t: T }\n    pub struct NotCollect;\n    pub fn need<'gc, T: Collect<'gc>>() {}\n    pub fn f<'gc>() { need::<'gc, S<NotCollect>>() }",
  "    #[derive(Collect)]\n    #[collect(no_drop)]\n    pub struct S<T> { t: T }\n    pub fn need<'gc, T: Collect<'gc>>() {}\n    pub fn f<'gc>() { need::<'gc, S<i32>>() }")
D("bound_override_missing_bound", "E0277|E0599", "bound = \"\" override with a field that needs the bound",
  "    #[derive(Collect)]\n    #[collect(no_drop, bound = \"\")]\n    pub struct S<T> { t: T }",
  "    #[derive(Collect)]\n    #[collect(no_drop, bound = \"where T: Collect<'gc>\")]\n    pub struct S<'gc, T> { t: T, p: Gc<'gc, i32> }")


def main():
    for pid in ("C03", "C12", "C13", "C15", "C19"):
        d = os.path.join(OUT, pid)
        shutil.rmtree(d, ignore_errors=True)
        os.makedirs(d)
    for (pid, name, fail, what, body, prelude, features, passonly) in probes:
        with open(os.path.join(OUT, pid, name + ".rs"), "w") as f:
            if passonly:
                f.write("//@ pass: yes\n")
            else:
                f.write("//@ fail: %s\n" % fail)
            if features:
                f.write("//@ features: %s\n" % features)
            f.write("//@ what: %s\n" % what)
            f.write(prelude)
            f.write(body)
    print(len(probes), "probes written")


if __name__ == "__main__":
    main()
