#!/usr/bin/env python3
"""tools/seed_intake.py <seed-id> <agent-worktree> <property> [--checks C01,C02,...]
Take a sub-agent's seeded change, confirm it independently in a fresh scratch worktree of /repo
(existing suite passes with it, demo fails with it and passes without it), run the checks against
it, and record everything under /verif/seeded/<seed-id>/."""
import json
import os
import shutil
import subprocess
import sys
import tempfile

VERIF = os.path.dirname(os.path.dirname(os.path.abspath(__file__)))
ALL = ["C%02d" % i for i in range(1, 21)]


def sh(cmd, cwd, env=None, timeout=3600):
    r = subprocess.run(cmd, cwd=cwd, env=env, capture_output=True, text=True, shell=isinstance(cmd, str), timeout=timeout)
    return r.returncode, r.stdout + r.stderr


def main():
    sid, wt, prop = sys.argv[1], sys.argv[2], sys.argv[3]
    checks = ALL
    if "--checks" in sys.argv:
        checks = sys.argv[sys.argv.index("--checks") + 1].split(",")
    out = os.path.join(VERIF, "seeded", sid)
    os.makedirs(out, exist_ok=True)
    src = os.path.join(wt, "seeded_out")
    for f in ("patch.diff", "demo.rs", "README.md"):
        if os.path.exists(os.path.join(src, f)):
            shutil.copy(os.path.join(src, f), os.path.join(out, f))
    patch = os.path.join(out, "patch.diff")
    demo = os.path.join(out, "demo.rs")
    scratch = tempfile.mkdtemp(prefix="gcv-seedv.", dir="/var/tmp")
    os.rmdir(scratch)
    env = dict(os.environ, CARGO_NET_OFFLINE="true", CARGO_TARGET_DIR="/var/tmp/gcv-seed-target")
    meta = {"seed": sid, "property": prop, "ran": []}
    try:
        old = json.load(open(os.path.join(out, "meta.json")))
        for k in ("what", "needs", "first_result"):
            if k in old:
                meta[k] = old[k]
    except (OSError, ValueError):
        pass
    try:
        rc, o = sh(["git", "-C", "/repo", "worktree", "add", "-q", "--detach", scratch, "HEAD"], "/")
        assert rc == 0, o
        shutil.copy(demo, os.path.join(scratch, "tests", "seeded_demo.rs"))
        rc0, o0 = sh("cargo test --offline --test seeded_demo 2>&1 | tail -40", scratch, env)
        # an API-addition seed's demo need not compile on the unchanged tree (the hole does not exist there)
        base_ok = "test result: ok" in o0 or ("error[E0599]" in o0 or "error[E0277]" in o0 or "could not compile" in o0)
        meta["demo_compiles_on_unchanged_tree"] = "test result" in o0
        meta["ran"].append({"cmd": "cargo test --offline --test seeded_demo (unchanged tree)", "passes": base_ok, "tail": o0[-600:]})
        rc, o = sh(["git", "apply", patch], scratch)
        meta["patch_applies"] = rc == 0
        if rc != 0:
            meta["apply_error"] = o[-500:]
        rc1, o1 = sh("cargo test --offline --test seeded_demo 2>&1 | tail -25", scratch, env)
        demo_fails = "test result: FAILED" in o1 or "panicked" in o1 or "error" in o1.lower() and "test result: ok" not in o1
        meta["ran"].append({"cmd": "cargo test --offline --test seeded_demo (with patch)", "fails": demo_fails, "tail": o1[-900:]})
        rc2, o2 = sh("cargo test --offline --test tests 2>&1 | tail -5; cargo test --offline --doc 2>&1 | grep 'test result' ; "
                     "cargo test --offline -p gc-arena-derive 2>&1 | grep 'test result'", scratch, env)
        suite_ok = "39 passed; 0 failed" in o2 and "FAILED" not in o2
        meta["ran"].append({"cmd": "cargo test --offline --test tests / --doc (with patch)", "passes": suite_ok, "tail": o2[-600:]})
        # a "the compiler now accepts the escape" demonstration: rejected on the unchanged tree, compiles (and its
        # assertions about the escaped handle hold) with the change
        accepted_escape = (not meta["demo_compiles_on_unchanged_tree"]) and "test result: ok" in o1
        meta["demonstration"] = "compiler-acceptance" if (accepted_escape and not demo_fails) else "failing-test"
        meta["confirmed"] = bool(base_ok and (demo_fails or accepted_escape) and suite_ok and meta["patch_applies"])
        # run the checks against the patched scratch tree
        os.remove(os.path.join(scratch, "tests", "seeded_demo.rs"))
        ev = tempfile.mkdtemp(prefix="gcv-ev.", dir="/var/tmp")
        cenv = dict(os.environ, GCV_REPO=scratch, GCV_EVIDENCE_DIR=ev)
        caught = {}
        for c in checks:
            rc, o = sh([os.path.join(VERIF, "check"), c], VERIF, cenv)
            lines = [l for l in o.splitlines() if l.startswith("  [")]
            caught[c] = {"rc": rc, "violations": [l.strip()[:400] for l in lines[:4]]}
        shutil.rmtree(ev, ignore_errors=True)
        meta["checks"] = {c: v for c, v in caught.items() if v["rc"] != 0}
        meta["caught_by"] = sorted(meta["checks"])
        meta["silent"] = sorted(c for c, v in caught.items() if v["rc"] == 0)
    finally:
        sh(["git", "-C", "/repo", "worktree", "remove", "--force", scratch], "/")
        shutil.rmtree(scratch, ignore_errors=True)
    json.dump(meta, open(os.path.join(out, "meta.json"), "w"), indent=1)
    print(json.dumps({k: meta[k] for k in ("seed", "property", "confirmed", "caught_by")}, indent=1))
    for c, v in meta.get("checks", {}).items():
        for l in v["violations"][:2]:
            print("   ", c, l[:300])


if __name__ == "__main__":
    main()
