#!/usr/bin/env python3
"""Regenerate /verif/MANIFEST.json from the table below (kept in one place so that the manifest stays valid)."""
import json
import os

VERIF = os.path.dirname(os.path.dirname(os.path.abspath(__file__)))
props = [json.loads(l) for l in open(os.path.join(VERIF, "properties.jsonl"))]

# property id -> (technique, level text, level note, design ref)
CLAIMED = {}
exec(open(os.path.join(VERIF, "tools", "claims.py")).read())

checks = []
na = []
for p in props:
    pid = p["id"]
    if pid in CLAIMED:
        c = CLAIMED[pid]
        checks.append({
            "property_id": pid,
            "quick_cmd": "./check %s --tier quick" % pid,
            "thorough_cmd": "./check %s --tier thorough" % pid,
            "evidence_file": "/verif/evidence/%s.json" % pid,
            "replay_cmd_template": "./check %s --replay {path}" % pid,
            "engine": c.get("engine", "gcv"),
            "level_claimed": {"category": "other", "text": c["text"], "design_ref": c.get("design_ref", "DESIGN.md §4 " + pid)},
            "level_note": c["note"],
            "technique": c["technique"],
        })
    else:
        na.append({"property_id": pid, "reason": NOT_CLAIMED.get(pid, "check not yet implemented in this revision")})

m = {
    "version": 1,
    "setup_cmd": "cd /verif/driver && CARGO_NET_OFFLINE=true cargo build --offline",
    "hooks": {
        "guard": "gc_arena_verif",
        "enable": "none needed: the analysis reads private items through the compiler (rustc_private driver); no source hook exists",
        "baseline_off_cmd": "cd /repo && cargo test --workspace --no-fail-fast --offline",
        "source_commits": [],
        "add_only": True,
    },
    "engines": ENGINES,
    "checks": checks,
    "notes": NOTES,
    "not_applicable": na,
}
json.dump(m, open(os.path.join(VERIF, "MANIFEST.json"), "w"), indent=1)
print("claimed:", [c["property_id"] for c in checks])
print("not claimed:", [n["property_id"] for n in na])
