#!/usr/bin/env python3
"""tools/seed_note.py <seed-id> <what> <needs> <first_result>: annotate seeded/<id>/meta.json (kept across re-intakes)."""
import json, os, sys
VERIF = os.path.dirname(os.path.dirname(os.path.abspath(__file__)))
p = os.path.join(VERIF, "seeded", sys.argv[1], "meta.json")
m = json.load(open(p))
m["what"], m["needs"], m["first_result"] = sys.argv[2], sys.argv[3], sys.argv[4]
json.dump(m, open(p, "w"), indent=1)
