#!/usr/bin/env python3
"""tools/mutant.py <mutant.json|patch.diff> <check ids...> [--tier T] [--keep]
Apply a mutant (JSON edit list or unified diff) to a scratch copy of /repo (outside /repo and /verif),
run the given checks against the copy with GCV_REPO, print their output, delete the copy."""
import json
import os
import shutil
import subprocess
import sys
import tempfile


def make_copy(src="/repo"):
    d = tempfile.mkdtemp(prefix="gcv-mut.", dir="/var/tmp")
    subprocess.run(["rsync", "-a", "--exclude", "target", "--exclude", ".git", src + "/", d + "/"], check=True)
    return d


def apply(mut, d):
    if mut.endswith(".json"):
        m = json.load(open(mut))
        for e in m["edits"]:
            p = os.path.join(d, e["file"])
            s = open(p).read()
            cnt = s.count(e["old"])
            if cnt != 1:
                raise SystemExit("edit anchor occurs %d times in %s: %r" % (cnt, e["file"], e["old"][:60]))
            s = s.replace(e["old"], e["new"])
            open(p, "w").write(s)
        return m
    r = subprocess.run(["patch", "-p1", "-s", "-i", os.path.abspath(mut)], cwd=d)
    if r.returncode != 0:
        raise SystemExit("patch failed")
    return {}


def run_checks(d, ids, tier=None, extra_env=None):
    out = {}
    ev = tempfile.mkdtemp(prefix="gcv-ev.", dir="/var/tmp")
    # several cases are replayed in parallel: keep each one's heap exploration to a few worker processes
    env = dict(os.environ, GCV_REPO=d, GCV_EVIDENCE_DIR=ev)
    env.setdefault("GCV_HEAP_JOBS", "3")
    if extra_env:
        env.update(extra_env)
    for i in ids:
        cmd = [os.environ.get("GCV_CHECK", "/verif/check"), i] + (["--tier", tier] if tier else [])
        r = subprocess.run(cmd, env=env, capture_output=True, text=True)
        txt = "\n".join(l for l in (r.stdout + r.stderr).splitlines() if "conda" not in l)
        out[i] = (r.returncode, txt.replace(d, "<copy>"))
    shutil.rmtree(ev, ignore_errors=True)
    return out


def main():
    args = sys.argv[1:]
    tier = None
    if "--tier" in args:
        i = args.index("--tier")
        tier = args[i + 1]
        del args[i:i + 2]
    keep = "--keep" in args
    if keep:
        args.remove("--keep")
    mut, ids = args[0], args[1:]
    d = make_copy()
    try:
        apply(mut, d)
        for i, (rc, txt) in run_checks(d, ids, tier).items():
            print("== %s rc=%d" % (i, rc))
            print(txt)
    finally:
        if keep:
            print("kept", d)
        else:
            shutil.rmtree(d, ignore_errors=True)


if __name__ == "__main__":
    main()
